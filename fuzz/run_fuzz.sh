#!/bin/sh
# Coverage-guided campaign of the thorough tier for the properties that have a fuzz target.
#   run_fuzz.sh <ID> [runs]
# The target decodes libFuzzer's bytes into a case of the property and runs the property's oracle on it.
# Exit 0 = no violation (or no target for this property), 1 = VIOLATION line printed, 2 = build problem.
ID="$1"
case "$ID" in C12) DEF=30000 ;; C13|C02) DEF=40000 ;; *) DEF=150000 ;; esac   # C12 touches the disk, C13 and C02 start reloaders in every case
RUNS="${2:-${VERIF_FUZZ_RUNS:-$DEF}}"
case "$ID" in C02|C03|C12|C13|C16|C18) ;; *) exit 0 ;; esac
T=$(echo "$ID" | tr C c)
HERE="$(cd "$(dirname "$0")" && pwd)"
VERIF="$(dirname "$HERE")"
cd "$HERE" || exit 2
export CARGO_NET_OFFLINE=true
export RUSTFLAGS="--cfg assets_manager_verif"
export VERIF_DIR="$VERIF"
SEED="${VERIF_SEED:-20260927}"; [ "$SEED" = "0" ] && SEED=1
if ! cargo +nightly fuzz build --fuzz-dir "$HERE" "$T" >"$HERE/build_$T.log" 2>&1; then
    echo "FUZZ-BUILD-FAILED target=$T; see $HERE/build_$T.log"; tail -5 "$HERE/build_$T.log"; exit 2
fi
CORPUS="$HERE/corpus_work/$T"; rm -rf "$CORPUS"; mkdir -p "$CORPUS" "$HERE/artifacts/$T"
# a small deterministic starting corpus: random byte strings of several lengths
python3 - "$CORPUS" "$SEED" <<'PY'
import random, sys, os
random.seed(int(sys.argv[2]))
for i in range(48):
    n = random.choice([8, 32, 128, 512, 1500])
    open(os.path.join(sys.argv[1], "seed%02d" % i), "wb").write(bytes(random.getrandbits(8) for _ in range(n)))
PY
BIN="$HERE/target/x86_64-unknown-linux-gnu/release/$T"
LOG="$HERE/run_$T.log"
ASAN_OPTIONS=detect_leaks=0 "$BIN" "$CORPUS" -runs="$RUNS" -seed="$SEED" -len_control=0 -max_len=2048 -artifact_prefix="$HERE/artifacts/$T/" -print_final_stats=1 -detect_leaks=0 >"$LOG" 2>&1
rc=$?
EXECS=$(grep -E "stat::number_of_executed_units" "$LOG" | head -1 | awk '{print $2}'); [ -n "$EXECS" ] || EXECS=0
COV=$(grep -E " cov: " "$LOG" | tail -1 | sed -E 's/.* cov: ([0-9]+).*/\1/'); [ -n "$COV" ] || COV=0
CORP=$(ls "$CORPUS" | wc -l)
python3 - "$VERIF/evidence/$ID.json" "$EXECS" "$COV" "$CORP" "$RUNS" "$SEED" "$rc" <<'PY'
import json, sys
p, execs, cov, corp, runs, seed, rc = sys.argv[1], int(sys.argv[2]), int(sys.argv[3]), int(sys.argv[4]), int(sys.argv[5]), int(sys.argv[6]), int(sys.argv[7])
try:
    e = json.load(open(p))
except Exception:
    sys.exit(0)
e["coverage"]["fuzz"] = {"engine": "libFuzzer (cargo-fuzz, ASan)", "executions": execs, "runs_requested": runs, "seed": seed, "coverage_counters": cov, "corpus_files": corp,
                         "decoder": "arbitrary::Unstructured -> the property's case type; the property's oracle runs inside the target", "exit": rc}
json.dump(e, open(p, "w"), indent=1)
PY
if [ $rc -ne 0 ]; then
    R=$(grep -E "^FUZZ-VIOLATION" "$LOG" | head -1 | sed -E 's/.*replay=//')
    if [ -n "$R" ]; then
        echo "VIOLATION property=$ID replay=$R"; grep -A1 "^FUZZ-VIOLATION" "$LOG" | tail -1
    else
        A=$(ls -t "$HERE/artifacts/$T/" 2>/dev/null | head -1)
        echo "VIOLATION property=$ID replay=$HERE/artifacts/$T/$A"; echo "  what: the fuzz target crashed (sanitizer report or abort); see $LOG"
    fi
    exit 1
fi
echo "OK property=$ID fuzz target=$T executions=$EXECS coverage_counters=$COV corpus=$CORP"
exit 0
