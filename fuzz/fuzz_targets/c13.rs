#![no_main]
// The fuzzer's bytes drive the same proptest strategy as the random driver (pass-through RNG);
// the semantic oracle of the property runs inside the target.
use libfuzzer_sys::fuzz_target;

fuzz_target!(|data: &[u8]| {
    vharness::fuzz::fuzz_one("C13", data);
});
