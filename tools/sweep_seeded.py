#!/usr/bin/env python3
"""Runs the quick check of the broken property against every kept seeded change, in a scratch copy
(/tmp/sweep) that depends on a scratch worktree of /repo (/tmp/confirm_wt): /repo itself is not touched.
usage: sweep_seeded.py [name ...]   (default: every kept change)   -> /verif/seeded/RESULTS.json"""
import json, os, subprocess, sys, shutil, re, time

WT = os.environ.get("SWEEP_WT", "/tmp/confirm_wt")
SW = os.environ.get("SWEEP_DIR", "/tmp/sweep")
RES = os.environ.get("SWEEP_RESULTS", "/verif/seeded/RESULTS.json")
ENV = dict(os.environ, CARGO_NET_OFFLINE="true", RUSTFLAGS="--cfg assets_manager_verif", VERIF_DIR=SW)

def sh(cmd, cwd, timeout=1800):
    try:
        r = subprocess.run(cmd, shell=True, cwd=cwd, env=ENV, capture_output=True, text=True, timeout=timeout)
        return r.returncode, r.stdout + r.stderr
    except subprocess.TimeoutExpired:
        return 124, "timeout"

def setup():
    if not os.path.isdir(WT):
        subprocess.run(["git", "-C", "/repo", "worktree", "add", "-q", "--detach", WT, "HEAD"], check=True)
    sh("git checkout -q --detach $(git -C /repo rev-parse HEAD) && git checkout -- . && rm -rf tests", WT)
    shutil.copy("/repo/Cargo.lock", WT)
    os.makedirs(SW, exist_ok=True)
    sh(f"rsync -a --delete --exclude 'target*' /verif/harness/ {SW}/harness/", "/")
    for f in [f"{SW}/harness/Cargo.toml", f"{SW}/harness/src/trees.rs"]:
        s = open(f).read().replace('"/repo', f'"{WT}')
        open(f, "w").write(s)
    shutil.copy("/verif/known_findings.txt", SW)
    os.makedirs(f"{SW}/replays", exist_ok=True)

def own():
    setup()
    idx = json.load(open("/verif/seeded/own/INDEX.json"))
    if os.path.exists("/verif/seeded/own/EXTRA_INDEX.json"):
        idx.update(json.load(open("/verif/seeded/own/EXTRA_INDEX.json")))
    results = {}
    if os.path.exists("/verif/seeded/own/RESULTS.json"):
        results = json.load(open("/verif/seeded/own/RESULTS.json"))
    names = sys.argv[2:] or sorted(idx)
    for name in names:
        pid = idx[name]["property"]
        sh("git checkout -- .", WT)
        rc, out = sh(f"git apply /verif/seeded/own/{name}.diff", WT)
        if rc != 0:
            results[name] = {"property": pid, "result": "patch does not apply"}; continue
        rc, out = sh("cargo build --offline -q 2>&1 | grep -E '^error' -A5 | head -20", f"{SW}/harness")
        if out.strip():
            results[name] = {"property": pid, "result": "does not compile", "output": out.splitlines()[:4]}
            print(name, "DOES NOT COMPILE", flush=True); continue
        rc2, out2 = sh("cargo test --workspace --no-fail-fast --offline -j 6 2>&1 | grep -E '^test result' | head -1", WT)
        t0 = time.time()
        rc, out = sh(f"target/debug/vcheck {pid} quick", f"{SW}/harness")
        lines = [l for l in out.splitlines() if l.startswith(("VIOLATION", "OK ", "INCONCLUSIVE", "  what", "  signature", "HARNESS"))]
        results[name] = {"property": pid, "existing_tests": out2.strip(), "exit": rc, "secs": round(time.time() - t0, 1), "output": lines[:4]}
        print(name, rc, out2.strip()[:40], lines[:2], flush=True)
        sh("git checkout -- .", WT)
        json.dump(results, open("/verif/seeded/own/RESULTS.json", "w"), indent=1)

def main():
    if len(sys.argv) > 1 and sys.argv[1] == "--own":
        return own()
    setup()
    names = sys.argv[1:] or sorted(d for d in os.listdir("/verif/seeded") if os.path.isfile(f"/verif/seeded/{d}/meta.json"))
    results = {}
    if os.path.exists(RES):
        results = json.load(open(RES))
    for name in names:
        d = f"/verif/seeded/{name}"
        meta = json.load(open(f"{d}/meta.json"))
        if not meta.get("kept"):
            continue
        pid = meta.get("property", name.split("-")[0])
        sh("git checkout -- .", WT)
        rc, out = sh(f"git apply {d}/patch.diff", WT)
        if rc != 0:
            results[name] = {"property": pid, "result": "patch does not apply"}
            continue
        rc, out = sh("cargo build --offline -q 2>&1 | grep -E '^error' -A5 | head -20", f"{SW}/harness")
        t0 = time.time()
        rc, out = sh(f"target/debug/vcheck {pid} quick", f"{SW}/harness")
        lines = [l for l in out.splitlines() if l.startswith(("VIOLATION", "OK ", "INCONCLUSIVE", "  what", "  signature", "HARNESS"))]
        results[name] = {"property": pid, "exit": rc, "secs": round(time.time() - t0, 1), "output": lines[:4]}
        print(name, rc, lines[:2], flush=True)
        for other in meta.get("also_check", []):
            t0 = time.time()
            rc2, out2 = sh(f"target/debug/vcheck {other} quick", f"{SW}/harness")
            lines2 = [l for l in out2.splitlines() if l.startswith(("VIOLATION", "OK ", "INCONCLUSIVE", "  what", "  signature", "HARNESS"))]
            results[name].setdefault("also", {})[other] = {"exit": rc2, "secs": round(time.time() - t0, 1), "output": lines2[:4]}
            print(name, "also", other, rc2, lines2[:2], flush=True)
        sh("git checkout -- .", WT)
        json.dump(results, open(RES, "w"), indent=1)

main()
