#!/usr/bin/env python3
"""Builds the harness author's own mutants (single-site textual changes planned in DESIGN section 4) as patch
files under /verif/seeded/own/, using the scratch worktree /tmp/confirm_wt. Each entry: name, property, file, old, new."""
import subprocess, os, json, sys
WT="/tmp/confirm_wt"
M=[
 ("c02_shard_hash_mismatch_get_vs_take","C02","src/cache.rs",
  """    fn get_shard(&self, key: BorrowedKey) -> &Shard {
        use std::hash::*;

        let mut hasher = self.hash_builder.build_hasher();
        key.hash(&mut hasher);
        let id = (hasher.finish() as usize) & (self.shards.len() - 1);""",
  """    fn get_shard(&self, key: BorrowedKey) -> &Shard {
        use std::hash::*;

        let mut hasher = self.hash_builder.build_hasher();
        key.hash(&mut hasher);
        let id = ((hasher.finish() >> 7) as usize) & (self.shards.len() - 1);"""),
 ("c02_clear_first_shard_only","C02","src/cache.rs",
  """        for shard in &mut *self.shards {
            shard.0.get_mut().clear();
        }""",
  """        for shard in self.shards.iter_mut().take(1) {
            shard.0.get_mut().clear();
        }"""),
 ("c02_key_eq_ignores_type","C02","src/utils/private.rs",
  """        self.type_id() == other.type_id() && self.id() == other.id()""",
  """        self.id() == other.id()"""),
 ("c03_reverse_extension_order","C03","src/asset.rs",
  """    for ext in T::EXTENSIONS {
        match load_with_ext(ext) {""",
  """    for ext in T::EXTENSIONS.iter().rev() {
        match load_with_ext(ext) {"""),
 ("c03_error_with_wrong_precedence","C03","src/error.rs",
  """            (Io(_), other @ Conversion(_)) => other,""",
  """            (Conversion(_), other @ Io(_)) => other,"""),
 ("c03_owned_content_loses_last_byte","C03","src/source/mod.rs",
  """            FileContent::Owned(b) => f(Cow::Borrowed((*b).as_ref())),""",
  """            FileContent::Owned(b) => {
                let all = (*b).as_ref();
                f(Cow::Borrowed(&all[..all.len().saturating_sub(1)]))
            }"""),
 ("c04_tar_offset","C04","src/source/tar.rs",
  """            .seek(io::SeekFrom::Start(start))""",
  """            .seek(io::SeekFrom::Start(start + (size & 1)))"""),
 ("c04_embedded_exists_ignores_ext","C04","src/source/embedded.rs",
  """            DirEntry::File(id, ext) => self.files.contains_key(&(id, ext)),""",
  """            DirEntry::File(id, ext) => self.files.contains_key(&(id, ext)) || self.files.keys().any(|(i, _)| *i == id),"""),
 ("c05_no_reverse_in_topological_sort","C05","src/hot_reloading/dependencies.rs",
  """        self.0.into_iter().rev()""",
  """        self.0.into_iter()"""),
 ("c05_dir_reads_not_recorded","C05","src/anycache.rs",
  """        if let Some(reloader) = self.reloader() {
            records::add_dir_record(reloader, id);
        }""",
  """        if let Some(reloader) = self.reloader() {
            if id.is_empty() {
                records::add_dir_record(reloader, id);
            }
        }"""),
 ("c06_id_bumped_on_failed_reload","C06","src/anycache.rs",
  """            Err(err) => {
                log::warn!("Error reloading \\"{}\\": {}", err.id(), err.reason());
                None
            }""",
  """            Err(err) => {
                log::warn!("Error reloading \\"{}\\": {}", err.id(), err.reason());
                handle.reloaded_global();
                None
            }"""),
 ("c06_global_flag_not_set","C06","src/entry.rs",
  """                d.reload.increment();
                d.reload_global.store(true, Ordering::Release);""",
  """                d.reload.increment();"""),
 ("c06_events_for_unknown_entries_kept","C06","src/hot_reloading/paths.rs",
  """            if self.deps.contains(&entry) {
                log::trace!("New event: {entry:?}");
                self.to_reload.insert(entry);
            } else {
                unknown.push(entry);
            }""",
  """            let _ = &unknown;
            log::trace!("New event: {entry:?}");
            self.to_reload.insert(entry);"""),
 ("c07_map_drops_guard","C07","src/entry.rs",
  """        AssetReadGuard {
            value: f(this.value),
            #[cfg(feature = "hot-reloading")]
            guard: this.guard,
        }""",
  """        AssetReadGuard {
            value: f(this.value),
            #[cfg(feature = "hot-reloading")]
            guard: None,
        }"""),
 ("c07_reply_before_update","C07","src/hot_reloading/mod.rs",
  """                    unsafe {
                        cache.update_if_local(ptr.as_ref(), reloader.as_ref());
                    }
                    answers.0.notify(token);""",
  """                    answers.0.notify(token);
                    unsafe {
                        cache.update_if_local(ptr.as_ref(), reloader.as_ref());
                    }"""),
 ("c11_no_dedup","C11","src/dirs.rs",
  """        ids.sort_unstable();
        ids.dedup();""",
  """        ids.sort_unstable();"""),
 ("c11_child_errors_propagate","C11","src/dirs.rs",
  """        T::sub_directories(cache, id, |id| {
            if let Ok(child) = cache.load::<RecursiveDirectory<T>>(id) {
                ids.extend_from_slice(&child.read().ids);
            }
        })?;""",
  """        let mut failed = false;
        T::sub_directories(cache, id, |id| match cache.load::<RecursiveDirectory<T>>(id) {
            Ok(child) => ids.extend_from_slice(&child.read().ids),
            Err(_) => failed = true,
        })?;
        if failed {
            return Err("unreadable sub-directory".into());
        }"""),
 ("c13_old_value_forgotten_on_reload","C13","src/entry.rs",
  """                d.reload_global.store(true, Ordering::Release);
            }
            return;""",
  """                d.reload_global.store(true, Ordering::Release);
            }
            std::mem::forget(value);
            return;"""),
 ("c13_swap_only_first_word","C13","src/entry.rs",
  """    let len = std::mem::size_of_val(a);""",
  """    let len = std::mem::size_of_val(a).min(std::mem::size_of::<usize>() * 4);"""),
 ("c14_record_not_restored","C14","src/hot_reloading/records.rs",
  """impl<T: Copy> Drop for CellGuard<'_, T> {
    fn drop(&mut self) {
        self.cell.set(self.val);
    }
}""",
  """impl<T: Copy> Drop for CellGuard<'_, T> {
    fn drop(&mut self) {
        if !std::thread::panicking() {
            self.cell.set(self.val);
        }
    }
}"""),
 ("c14_reloader_identity_not_checked","C14","src/hot_reloading/records.rs",
  """    fn insert_file(&mut self, reloader: &HotReloader, id: SharedString, ext: SharedString) {
        if self.reloader == reloader {""",
  """    fn insert_file(&mut self, reloader: &HotReloader, id: SharedString, ext: SharedString) {
        let _ = reloader;
        {"""),
 ("c16_wrong_layout_for_inline","C16","src/utils/bytes.rs",
  """        } else {
            Self::get_inner_layout(inner.len)
        };""",
  """        } else {
            Self::get_inner_layout(inner.len & !1)
        };"""),
 ("c16_from_utf8_unchecked","C16","src/utils/string.rs",
  """        let _ = str::from_utf8(&bytes)?;
        Ok(SharedString { bytes })""",
  """        if bytes.len() < 24 {
            let _ = str::from_utf8(&bytes)?;
        }
        Ok(SharedString { bytes })"""),
 ("c16_ord_compares_lengths_first","C16","src/utils/bytes.rs",
  """impl Ord for SharedBytes {
    fn cmp(&self, other: &Self) -> cmp::Ordering {
        (**self).cmp(other)
    }
}""",
  """impl Ord for SharedBytes {
    fn cmp(&self, other: &Self) -> cmp::Ordering {
        self.len().cmp(&other.len()).then_with(|| (**self).cmp(other))
    }
}"""),
 ("c17_seed_dropped_before_success","C17","src/utils/cell.rs",
  """                let value = f(&mut state.uninit)?;

                let new_state = State {""",
  """                let value = match f(&mut state.uninit) {
                    Ok(v) => v,
                    Err(e) => {
                        ManuallyDrop::drop(&mut state.uninit);
                        return Err(e);
                    }
                };

                let new_state = State {"""),
 ("c18_update_with_ge","C18","src/entry.rs",
  """        let newer = new > *self;""",
  """        let newer = new >= *self;"""),
 ("c18_atomic_update_swap","C18","src/entry.rs",
  """        new > self.fetch_max(new)""",
  """        new > self.swap(new)"""),
 ("c10_get_or_insert_dynamic_again","C10","src/anycache.rs",
  """        let entry = CacheEntry::new(asset, id, || false);""",
  """        let entry = CacheEntry::new(asset, id, || self._has_reloader());"""),
 ("c09_panic_poisons_lock","C09","src/utils/private.rs",
  """    // Just ignore poison errors
    param.unwrap_or_else(sync::PoisonError::into_inner)""",
  """    param.expect("poisoned lock")"""),
 ("c12_file_name_instead_of_stem","C12","src/hot_reloading/watcher.rs",
  """    id_builder.push(path.file_stem()?.to_str()?)?;
    let id = id_builder.join();

    let entry = if is_dir {""",
  """    id_builder.push(path.file_stem()?.to_str()?)?;
    let id = id_builder.join();

    let entry = if is_dir && path.extension().is_none() {"""),
 ("c12_create_without_parent","C12","src/hot_reloading/watcher.rs",
  """                        notify::EventKind::Create(_)
                        | notify::EventKind::Modify(notify::event::ModifyKind::Name(_)) => match path.parent() {
                            Some(parent) => vec![&path, parent],""",
  """                        notify::EventKind::Create(_)
                        | notify::EventKind::Modify(notify::event::ModifyKind::Name(_)) => match path.parent() {
                            Some(parent) if parent.parent().is_some() && path.extension().is_some() => vec![&path, parent],
                            Some(_) => vec![&*path],"""),
 ("c15_reloader_busy_waits","C15","src/hot_reloading/mod.rs",
  """        let ready = if unknown.is_empty() && carry.is_none() {
            select.ready()
        } else {
            0
        };
""",
  """        let ready = match select.try_ready() {
            Ok(r) => r,
            Err(_) => {
                std::thread::yield_now();
                continue;
            }
        };
"""),
 ("c08_answer_wrong_token","C08","src/hot_reloading/mod.rs",
  """            *t != Some(token) && !self.stopped.load(Ordering::Acquire)""",
  """            t.is_none() && !self.stopped.load(Ordering::Acquire)"""),
]
def sh(cmd, cwd=WT):
    r=subprocess.run(cmd,shell=True,cwd=cwd,capture_output=True,text=True)
    return r.returncode, r.stdout+r.stderr
ok=0
index={}
for name,prop,f,old,new in M:
    sh("git checkout -- .")
    p=os.path.join(WT,f)
    s=open(p).read()
    if s.count(old)!=1:
        print("SKIP",name,"pattern occurrences:",s.count(old)); continue
    open(p,"w").write(s.replace(old,new))
    rc,diff=sh("git diff")
    open(f"/verif/seeded/own/{name}.diff","w").write(diff)
    index[name]={"property":prop,"file":f}
    ok+=1
sh("git checkout -- .")
json.dump(index,open("/verif/seeded/own/INDEX.json","w"),indent=1)
print(ok,"patches written")
