#!/bin/sh
# usage: tools/flaky.sh <first seed> <last seed>   -> prints every run that is not a plain OK
# The committed evidence files describe the default-seed runs: they are saved and restored.
rm -rf /tmp/flaky_evidence_keep; cp -r /verif/evidence /tmp/flaky_evidence_keep
for s in $(seq "$1" "$2"); do
  for id in C01 C02 C03 C04 C05 C06 C07 C08 C09 C10 C11 C12 C13 C14 C15 C16 C17 C18; do
    out=$(VERIF_SEED=$s /verif/check $id quick 2>&1); rc=$?
    if [ $rc -ne 0 ]; then echo "seed=$s $id rc=$rc"; echo "$out" | grep -v "^KNOWN" | head -4; fi
  done
  echo "seed $s done"
done
cp /tmp/flaky_evidence_keep/*.json /verif/evidence/; rm -rf /tmp/flaky_evidence_keep
