#!/usr/bin/env python3
"""Confirms sub-agent mutants in a scratch worktree of /repo and stores the kept ones under /verif/seeded/.
usage: confirm_seeded.py <ID> [<ID> ...]   (reads /tmp/seed_out/<ID>/m*/)"""
import json, os, subprocess, sys, shutil, time

WT = os.environ.get("CONFIRM_WT", "/tmp/confirm_wt")
SEED_OUT = os.environ.get("SEED_OUT", "/tmp/seed_out")
PREFIX = os.environ.get("SEED_PREFIX", "")
ENV = dict(os.environ, CARGO_NET_OFFLINE="true")
ENV.pop("RUSTFLAGS", None)

def sh(cmd, cwd=WT, timeout=900):
    try:
        r = subprocess.run(cmd, shell=True, cwd=cwd, env=ENV, capture_output=True, text=True, timeout=timeout)
        return r.returncode, (r.stdout + r.stderr)[-3000:]
    except subprocess.TimeoutExpired:
        return 124, "timeout"

def main():
    if not os.path.isdir(WT):
        subprocess.run(["git", "-C", "/repo", "worktree", "add", "-q", "--detach", WT, "HEAD"], check=True)
        shutil.copy("/repo/Cargo.lock", WT)
    else:
        sh("git checkout -q --detach $(git -C /repo rev-parse HEAD) && git checkout -- . && rm -rf tests")
    for pid in sys.argv[1:]:
        base = f"{SEED_OUT}/{pid}"
        only = None
        if "-" in pid:
            pid, only = pid.split("-", 1)
            base = f"{SEED_OUT}/{pid}"
        for m in sorted(d for d in os.listdir(base) if d.startswith("m") and os.path.isdir(f"{base}/{d}") and (only is None or d == only)):
            src = f"{base}/{m}"
            name = f"{pid}-{PREFIX}{m}"
            meta = json.load(open(f"{src}/meta.json"))
            res = {"checked_at_repo_head": subprocess.run(["git","-C","/repo","rev-parse","HEAD"],capture_output=True,text=True).stdout.strip()}
            sh("git checkout -- . && rm -rf tests")
            rc, out = sh(f"git apply --check {src}/patch.diff")
            res["applies"] = rc == 0
            if rc != 0:
                res["note"] = out[-500:]
                print(name, "PATCH DOES NOT APPLY"); save(name, src, meta, res, keep=False); continue
            sh(f"git apply {src}/patch.diff")
            rc, out = sh("cargo test --workspace --no-fail-fast --offline -j 6 2>&1 | grep -E '^test result' | head -1")
            res["existing_tests_with_change"] = out.strip()
            ok_tests = "30 passed; 0 failed" in out
            rc, out = sh("cargo build --offline -j 6 --features 'hot-reloading zip zip-deflate tar embedded utils serde' 2>&1 | grep -E '^error' | head -3")
            res["builds_with_features"] = out.strip() == ""
            os.makedirs(f"{WT}/tests", exist_ok=True)
            shutil.copy(f"{src}/demo.rs", f"{WT}/tests/demo.rs")
            cmd = meta.get("demo_cmd", "cargo test --offline --test demo")
            # keep only the cargo invocation (agents sometimes add prose or a cp step)
            import re
            mm = re.search(r"cargo test[^()\n;]*", cmd)
            cmd = mm.group(0).strip() if mm else "cargo test --offline --test demo"
            cmd = cmd.split("   ")[0].strip()
            res["demo_cmd_run"] = cmd
            if "-j" not in cmd:
                cmd = cmd.replace("cargo test", "cargo test -j 6", 1)
            t0 = time.time()
            rc_with, out_with = sh(cmd, timeout=600)
            res["demo_with_change"] = {"exit": rc_with, "secs": round(time.time() - t0, 1), "tail": out_with[-400:]}
            sh(f"git apply -R {src}/patch.diff")
            rc_without, out_without = sh(cmd, timeout=600)
            res["demo_without_change"] = {"exit": rc_without, "tail": out_without[-200:]}
            sh("git checkout -- . && rm -rf tests")
            keep = ok_tests and res["builds_with_features"] and rc_with != 0 and rc_without == 0
            res["confirmed"] = keep
            print(name, "CONFIRMED" if keep else "NOT CONFIRMED", res["existing_tests_with_change"], "demo with:", rc_with, "without:", rc_without, flush=True)
            save(name, src, meta, res, keep)

def save(name, src, meta, res, keep):
    dst = f"/verif/seeded/{name}"
    os.makedirs(dst, exist_ok=True)
    shutil.copy(f"{src}/patch.diff", dst)
    shutil.copy(f"{src}/demo.rs", dst)
    meta["confirmation"] = res
    meta["kept"] = keep
    json.dump(meta, open(f"{dst}/meta.json", "w"), indent=1)

main()
