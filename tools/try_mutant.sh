#!/bin/sh
# usage: tools/try_mutant.sh <patch.diff> <ID> [tier]   (applies the patch to /repo, runs the check, reverts)
P="$1"; ID="$2"; TIER="${3:-quick}"
git -C /repo diff --quiet || { echo "/repo is dirty"; exit 2; }
git -C /repo apply "$P" || { echo "patch does not apply"; exit 2; }
/verif/check "$ID" "$TIER"; rc=$?
git -C /repo checkout -- . 
echo "exit=$rc"
exit $rc
