#!/bin/sh
# usage: tools/try_mutant.sh <patch.diff> <ID> [tier]   (applies the patch to /repo, runs the check, reverts)
# The evidence file of the property is saved and restored: evidence must describe runs on the unchanged tree.
P="$1"; ID="$2"; TIER="${3:-quick}"
git -C /repo diff --quiet || { echo "/repo is dirty"; exit 2; }
git -C /repo apply "$P" || { echo "patch does not apply"; exit 2; }
EV=/verif/evidence/$ID.json
[ -f "$EV" ] && cp "$EV" "$EV.keep"
/verif/check "$ID" "$TIER"; rc=$?
git -C /repo checkout -- .
[ -f "$EV.keep" ] && mv "$EV.keep" "$EV"
echo "exit=$rc"
exit $rc
