#!/usr/bin/env python3
"""Generates /verif/MANIFEST.json from the table below."""
import json, subprocess

CHECKS = {
 # id: (level, technique, level text, level note, design ref)
 "C01": ("exploration", "PBT over generated thread programs with shaped schedules (rendezvous inside the harness loader, spin barriers), invariants over the joined history (pointer identity, ticket-ordered presence, drop ledger); ThreadSanitizer pass over the same generated programs (thorough)",
         "2..8 threads run generated programs on overlapping keys through AssetCache and its AnyCache view; loaders that passed the miss wait for each other so simultaneous misses are forced; growth by up to 300000 unrelated insertions; shard counts 4/8/16/64; thorough repeats under parking_lot and std hashing. Invariants: one pointer and one value per key, presence never flips back, exactly the winner alive in the ledger, retained handles still valid after growth.",
         "schedules are shaped and sampled, not enumerated; pointer validity after growth is observed through reads under a poisoning allocator", "4/C01"),
 "C02": ("exploration", "model-based stateful PBT: BTreeMap reference model, bounded-exhaustive op sequences + random sequences, seven front-ends differentially; coverage-guided fuzz target c02 (thorough)",
         "Every op sequence up to length 2 (quick) / 3 (thorough) over a 58-op alphabet is enumerated and random sequences up to length 30/60 are generated; each runs on six front-ends and every return value plus a final full scan is compared with a map model written from the statement.",
         "trusts the reference model (about 100 lines); single-threaded histories only (C01 covers races)", "4/C02"),
 "C03": ("exploration", "PBT with an oracle computed from the statement (extension order, error-class precedence, default_value, caching) over generated file states and edit/load histories; coverage-guided fuzz target c03 (thorough)",
         "Random per-extension file states (present via each FileContent variant / absent / unreadable with an io kind), extension lists of length 0..3, compound chains of depth 0..4, default_value modes and break/repair histories; expected result, error class, error id chain and default_value argument are computed from the statement and compared.",
         "the loader is a harness loader; the in-memory source delivers the three FileContent variants", "4/C03"),
 "C17": ("exploration", "PBT over initialiser scripts x threads x seed kinds with invariants (mutual exclusion, single success, seed continuity, drop ledger) and the blocked-state detector for get(); ThreadSanitizer pass (thorough)",
         "Generated scripts of failing / panicking / succeeding initialisers on 1..8 threads with spin rendezvous; invariants are checked on the joined history and a drop ledger; a blocking get() is caught as a deadlock of the case.",
         "thread interleavings are sampled; liveness of get() is a bounded-safety reading (no all-blocked state in the explored executions)", "4/C17"),
 "C04": ("exploration", "differential PBT: one generated tree materialised as directory, zip, tar and embedded table, each compared with the tree itself (reference model); concurrent readers; fuzz target c04 (archives vs model)",
         "Random trees (unicode, spaces, long paths, shared ids, empty directories, empty tree) and archive layouts (member order, implicit directories, './' prefix, stored/deflated, in-memory/file-backed); read, read_dir, exists and the absence of everything else are checked against the generated tree on every source, from 1..4 threads at once. The Embedded source is produced by the embed! macro's own expansion function run on the directory.",
         "names follow the crate's documented rule (no '.', UTF-8); symbolic links are outside the documented domain; the macro's compile-time path is additionally exercised on fixed trees", "4/C04"),
 "C05": ("exploration", "stateful PBT over generated dependency DAGs (recipes stored in the source) and edit/notification histories; oracle = pure model interpreter (local consistency with the current source and cache) + reload-order invariant; sentinel quiescence barrier; bounded-exhaustive enumeration of all load DAGs on <= 3 (quick) / 4 (thorough) nodes",
         "Generated worlds of up to 9 compound nodes over leaves, directories and raw files with rewiring, breaking, repairing, creating and deleting edits, batched / shuffled / duplicated / noisy notifications, in hot_reload() and enhance_hot_reloading modes. After a barrier every cached asset connected to a notified entry must equal a model evaluation of its recipe; failing reloads keep the old value; no dependent is reloaded before a dependency within a pass.",
         "trusts the model interpreter of the recipe language and the shadow recorder (harness code); cyclic look-ups and not-tracked-by-design situations are excluded by construction and counted", "4/C05"),
 "C06": ("exploration", "stateful PBT on the same worlds with un-notified edits and noise; invariants over the observed loader/source log vs the shadow dependency graph; reload-id / watcher accounting after every pass",
         "For every step: the reloader re-loads only assets connected (per the observed dependency graph, including failed attempts) to a notified entry, at most once per pass, never reads the source otherwise; reload ids change exactly once per successful rewrite; watchers and reloaded_global answer true exactly once per batch of rewrites; unaffected values are bit-identical.",
         "the shadow graph is derived from observed reads and look-ups with the attribution rules of C14; passes are delimited by hot_reload calls (exact counts only in that mode)", "4/C06"),
 "C07": ("exploration", "concurrent PBT with self-checking multi-word values: generated reader styles x reload streams; invariants checked inside the racing threads (torn reads, guard pinning, id pinning, in-flight bracket, watcher freshness); ThreadSanitizer pass (thorough)",
         "1..7 reader threads (short, long-held, mapped, try_map, copied, polling watcher, bracket sampler) race a writer that streams 30..2000 reloads of 64 B .. 64 KiB self-checking values; thorough repeats under parking_lot.",
         "schedules are sampled by the OS scheduler; readers respect the documented preconditions", "4/C07"),
 "C08": ("exploration", "concurrent PBT in supervised worker processes: generated callers x loaders x event bursts x cyclic look-up graphs; oracle = completion under a /proc blocked-state detector (all threads asleep + zero CPU = deadlock), worker exit status, and an in-flight bracket on reloader activity",
         "Bounded-safety reading of liveness: in every explored execution no all-blocked state is reachable, the process does not abort, and the reloader never works while no hot_reload call is in flight.",
         "deadlock is decided from /proc thread states and CPU ticks, never from elapsed time; slow cases are inconclusive (exit 2)", "4/C08"),
 "C09": ("fault_enumeration", "exhaustive single-fault injection inside generated scenarios (every read index x io kind, every loader invocation x {Err, panic}, initial-load and reload phases) with containment invariants against a model interpreter; blocked-state detector for liveness",
         "For each generated scenario a dry run counts reads and loader invocations per phase; then every single fault is executed on a fresh copy, followed by removal of the fault, retry, and a repairing edit. Cached values must be untouched or fully explained (fresh model value, possibly with the faulted file unusable, or a swallowed failure), ids move only with values, the recording token is restored, retries and later hot_reload calls succeed.",
         "single faults; the sentinel asset of the barrier is exempt from injection; explanations of swallowed faults use the model interpreter", "4/C09"),
 "C10": ("exploration", "stateful PBT: histories on the same keys over four cache constructors with a frozen-entry model",
         "Random histories of load / load_owned / get_or_insert / remove / take / clear with notified edits, a load racing an insertion and barriers; every entry the statement declares non-reloadable must keep its creation value, ReloadId::NEVER, silent watchers and the same Handle::get() address and content.",
         "reloadable entries are observed to reload in the same histories, so the reloader is live when frozen entries are checked", "4/C10"),
 "C11": ("exploration", "PBT: directory listings computed from the generated tree (reference model) over five source kinds, four extension lists + Arc, unreadable sub-directories, pre-loaded subsets",
         "load_dir / load_rec_dir ids, iter and iter_cached are compared with listings computed from the generated tree, for the root, nested, missing and unreadable directories.",
         "element loaders always succeed; unreadable directories are simulated by a wrapping source that fails read_dir for a subtree", "4/C11"),
 "C12": ("exploration", "PBT + bounded-exhaustive enumeration of (entry x notification kind) fed to the crate's real notify handler through hooks, compared with a lexical reference of path_of's inverse; round-trip checks; real inotify histories with a sentinel barrier",
         "Synthetic notifications of every kind for every entry of generated (and one fixed, exhaustively enumerated) trees under one or two roots, with '.'/'..' spellings, vanished objects, outside / dotted / non UTF-8 paths; the events sent must be exactly the entry (+ parent directory for create/rename/remove). Real write/delete/rename/mkdir histories on a watched temp dir must leave every directory handle equal to the disk.",
         "uses hooks id_of_path / event_handler / event_channel; the real part depends on inotify (self-test, skipped and counted otherwise) and uses polling with generous bounds", "4/C12"),
 "C13": ("exploration", "stateful PBT with a drop ledger and a checking global allocator over four value layouts; shaped races (insertion rendezvous, guard across reload); exhaustive wrong-type views per cached handle; ThreadSanitizer pass (thorough)",
         "Histories of load / load_owned / get_or_insert / remove / take / clear / reload / failing reload / guarded reload / racing loads; after every step the live tracked values must be exactly those reachable through the cache or owned by the caller.",
         "ledger and allocator wrapper are harness code; races are shaped and sampled", "4/C13"),
 "C14": ("exploration", "PBT over nested recipes with per-entry enumeration inside each case: exact set equality between handles whose reload id grew and the shadow-graph closure; recording-token hook",
         "Generated recipes nest loads, owned loads, look-ups, directory loads and raw reads inside no_record (entered through this or another cache), helper threads, a second cache and caught panics; then every touched entry is edited and notified alone and the set of reloaded handles must equal exactly the assets whose own load touched it (plus dependents). The recording token is sampled around every nested operation.",
         "uses the hook recording_token (read-only); attribution rules are those of the statement, implemented in the harness recorder", "4/C14"),
 "C15": ("exploration", "PBT over create/use/drop sequences with a /proc/self/task oracle (per-thread CPU ticks, thread names and counts)",
         "Generated sequences over 1..3 caches on in-memory and real filesystem sources with four drop timings, sources dropping their EventSender, and post-drop filesystem activity; idle reloaders must accrue <= 2 ticks in 400 ms, reloaders of dropped caches must be gone or not running, filesystem watcher threads must return to the baseline.",
         "CPU-tick thresholds with wide margins (idle 0-1 vs spinning ~40 per 400 ms); inotify availability is probed", "4/C15"),
 "C16": ("exploration", "model-based stateful PBT (Vec<u8>/String reference model) + checking global allocator; coverage-guided fuzz target c16 under ASan and a ThreadSanitizer pass (thorough)",
         "Random op sequences over a pool of SharedBytes/SharedString handles are compared step by step with a Vec<u8>/String model, while a checking allocator verifies every free (layout, double free, poison, live blocks). Racing final drops behind a spin rendezvous sample the refcount race. Exploration, not proof: byte inputs and schedules are sampled.",
         "trusts the harness model and allocator wrapper; thread interleavings are OS-scheduled (sampled)", "4/C16"),
 "C18": ("exploration", "bounded-exhaustive enumeration + random op sequences against a max() model; concurrent race rounds with accounting oracle; coverage-guided fuzz target c18 (thorough)",
         "Every initial id x every op sequence up to length 2 (quick) / 3 (thorough) over a 6-id sub-pool is enumerated against the max model; random sequences over 48 real ids; concurrent offers and spin-rendezvous race rounds are checked by accounting (final = max, each growth told once).",
         "ReloadIds come from real reloads of an in-memory source; interleavings are sampled", "4/C18"),
}
NA_REASON = "(none) check not built yet in this session (work in progress; the design in DESIGN.md section 4 applies) - not a limit of the technique"

# additions made during round 2 (DESIGN.md section 12.0)
EXTRA = {
 "C01": " Round 2: shard counts for 3/5/6/7/12 CPUs, keys with empty id components, and (a quarter of the cases) values whose destructor panics when they lose the insertion race - every other call must be unaffected. Round 3: 50..600 removals of ids that never existed after the racing phase (nothing may vanish); a key with a '/'. Round 5: a 44-byte key (ids longer than 32 bytes).",
 "C02": " Round 2: ids with empty components, AssetCache front-ends built under 1..12 CPUs, and a Notify op on the front-ends with a reloader (a change of a file is announced without changing it; nothing may change while only plain entries are cached). Round 3: ids with a '/'. Round 5: a 51-byte id.",
 "C04": " Round 2: a copy of the zip archive with one flipped data byte in a stored member must fail to read that member, never return other bytes. Round 3: file members spelled zz/../<path>. Round 5: a copy of the tar archive cut inside the data of its last member (read must fail or give the tree's bytes); the Embedded table also written by hand with its lists in another order than the macro's. Round 6: one directory may hold an entry without an id (archive member backup.tar.x, on disk a file with a non UTF-8 name): no source lists it and nothing else changes.",
 "C05": " Since repair D14 the first hot_reload call after the notifications must already have applied the sentinel's change (hot_reload mode); an asset whose latest load looked an entry up (whatever the look-up returned) must be reloaded when that entry is. Widened-windows scenario (one case in 41): the two schedule points of the reloader loop are slowed down through the hook set_schedule_hook while a thread loads, notifies and calls hot_reload (clearing the cache in odd rounds): no notification may be lost whichever message the thread examines first (found D15, D16).",
 "C07": " Round 2: a first-load race of 2..5 threads before any hot_reload call (value and reload id must not move afterwards) and a compound of a second hot-reloaded cache that reads the handle on that cache's reloader thread. Round 3: 6..14 threads calling hot_reload under the read side of a gate with a slow loader while notifications keep coming; whenever an observer holds the write side nothing may move. Round 4: a hot_reload call in flight must complete while the reader completes 30 million read sections (writer starvation by recursive read locks, parking_lot configuration). Round 6: every gated caller changes and notifies an asset of its own before its call and reads it afterwards (the call does not return before that change is applied, whoever else is calling); the guard-holding reader also asks reloaded_global(), which must not move the reload id.",
 "C08": " Round 2: the source may drop its EventSender while callers run (remaining calls must degrade to no-ops; found D13), and after all callers returned a freshly notified change must still be applied within 4000 calls. Round 3: a sustained stream (one call = one pass), aimed stop races (the stopping reloader parked in the destructor of its source, released against callers entering hot_reload), one call against a flood of notifications (bounded work; found a regression of repair D14). Round 6: a dependency chain of 1500..3000 assets (loaded bottom-up) reloaded by one call.",
 "C09": " Round 2: after the repair every leaf and node is loaded directly and every leaf changed again: dependents recorded through look-ups that failed while the fault was present must be reloaded.",
 "C10": " Round 2: a constructor on a source whose configure_hot_reloading fails after it stored the EventSender (the cache must have no reloader). Round 6: kinds OnceInitCell<U, T> and OnceInitCell<Option<U>, T> around an opt-out asset.",
 "C11": " Round 2: extensions differing only by ASCII case (txt/TXT, x/X) in the generated trees. Round 3: a hand-written DirLoadable whose sub_directories prunes, plain and wrapped in Arc. Round 6: the tree's directories may hold an entry without an id (see C04): listings neither show it nor fail.",
 "C12": " Round 2: in half of the real histories the first activity under the freshly built watcher is one single-notification operation; inotify availability is probed with a notify watcher of the harness itself; a stale listing is a violation only if it persists over six further barriers. Round 3: a watcher built with FsWatcherBuilder on a root reached through a symbolic link. Round 5: the outside-every-root probe alternates with a path in a sibling directory whose name starts with the root's name. Round 6: probe target with a name whose only dot is the leading one (.hidden file, .cache directory).",
 "C13": " Round 2: reloads in which the destructor of the replaced value panics; workers over the AnyCache view of a LocalAssetCache that run on threads iff AnyCache is Sync (decided at compile time). Round 6: a reload that fails because the file was deleted (the old value stays alive and reachable); in half of the load races one thread stores a value with get_or_insert while the others are inside the loader (the stored value stays).",
 "C14": " Round 2: a third of the cases continue with a create/remove/rewrite history over a tree whose ids are selected by a custom DirLoadable from manifest files; cached (recursive) directories must list exactly what the tree holds.",
 "C15": " Round 2: a custom source owning an event-producing thread that stops on Disconnected and is joined by the source's destructor: dropping the cache must finish before 3000 more events were accepted. Round 3: 2..4 extra threads flood the event channel from just before the drop on. Round 4: a bulk phase (thousands of assets loaded, cleared, loaded again) right before the drop: the reloader must be gone / idle 2 s later.",
 "C17": " Round 2: large seeds (520 B with Drop, 1 KiB with a panicking destructor, 4 KiB without drop glue) with checked padding. Round 3: a zero-sized seed with a destructor; initialisers run from a guard's destructor while the thread unwinds.",
 "C18": " Round 2: eight boundary counter values (2^31 .. usize::MAX) built through the hook ReloadId::verif_from_raw, in the random pool and in the enumerated sub-pool; the order of every pair of ids must be the order of their counters. Round 3: swap rounds and taker rounds (swap is one atomic exchange).",
 "C03": " Round 5: every content of a case also goes through the loaders the crate ships (BytesLoader, StringLoader, ParseLoader for six target types, borrowed and owned; the String / SharedString assets through a cache); contents include a parseable payload between Unicode white space and look-alikes. Round 6: one read fails once with each of 8 I/O error kinds (incl. Interrupted, WouldBlock): that load fails with that error after exactly one read of the entry, or falls through to the next extension; nothing is cached; the same call then succeeds.",
 "C16": " Round 5: every case ends with two Vec-backed buffers built while the checking allocator serves small blocks from a packed arena (32-byte slots, no in-band headers, last freed first), so that the header lies directly in front of the Vec's data. Round 6: every case ends with a short-lived thread whose thread-local (first used before any buffer was built) drops the last clones of a buffer and a string in its destructor.",
 "C06": "Round 3: 2..3 concurrent pollers of reloaded_global() against 200..1500 rewrites: at most one true per rewrite in total. Round 4: late registration - an event about a file nobody uses yet is examined by a request with a second request queued behind it (schedule hook); an asset reading that file is loaded for the first time meanwhile and must not be reloaded. Round 5: watchers created right before each step and first asked after it report exactly the rewrites of that step; ReloadWatcher::last_reload_id() equals the handle's id before any poll. Round 6: late registration also after clear() (notify, proven examined, clear, load again, hot_reload: no reload) and with the notification examined by the idle reloader.",
}

props = [json.loads(l) for l in open('/verif/properties.jsonl')]
def commits(pattern):
    out = subprocess.run(["git","-C","/repo","log","--format=%H %s"],capture_output=True,text=True).stdout.splitlines()
    return [l.split()[0] for l in out if pattern(l.split(' ',1)[1])]
hook_commits = commits(lambda s: s.startswith("verif hooks"))

checks = []
for p in props:
    i = p["id"]
    if i not in CHECKS: continue
    level, tech, text, note, ref = CHECKS[i]
    text += EXTRA.get(i, "")
    checks.append({
        "property_id": i,
        "quick_cmd": f"./check {i} quick",
        "thorough_cmd": f"./check {i} thorough",
        "evidence_file": f"/verif/evidence/{i}.json",
        "replay_cmd_template": f"./check {i} --replay {{path}}",
        "engine": "vcheck",
        "level_claimed": {"category": level, "text": text, "design_ref": "DESIGN.md section " + ref},
        "level_note": note,
        "technique": tech,
    })
m = {
 "version": 1,
 "setup_cmd": "./check --build",
 "hooks": {
   "guard": "--cfg assets_manager_verif",
   "enable": "RUSTFLAGS='--cfg assets_manager_verif' (set by /verif/check; the harness crate path-depends on /repo, so every check rebuilds the crate under test from the working tree)",
   "baseline_off_cmd": "cd /repo && cargo test --workspace --no-fail-fast --offline",
   "source_commits": hook_commits,
   "add_only": True,
 },
 "engines": [
   {"name": "vcheck", "path": "/verif/harness", "serves_properties": sorted(CHECKS),
    "kind_free_text": "Rust binary: proptest strategies driven by a supervisor/worker engine (per-case seeds, in-process and child-process shrinking, /proc blocked-state detector, checking allocator, drop ledger); the same strategies are reused by cargo-fuzz targets through proptest's pass-through RNG"},
 ],
 "checks": checks,
 "not_applicable": [{"property_id": p["id"], "reason": NA_REASON} for p in props if p["id"] not in CHECKS],
 "notes": "Technique family: property-based testing and fuzzing. See DESIGN.md. Known findings protocol: /verif/known_findings.txt.",
}
json.dump(m, open('/verif/MANIFEST.json','w'), indent=1)
print("checks:", len(checks), "n/a:", len(m["not_applicable"]))
