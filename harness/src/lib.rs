//! Verification harness for `assets_manager` (property-based testing / fuzzing).

pub mod calloc;
pub mod engine;
pub mod fuzz;
pub mod ledger;
pub mod memsrc;
pub mod procfs;
pub mod props;
pub mod trees;
pub mod world;

pub use engine::{Outcome, Plan, Prop, Tier};
pub mod tracelog;
