//! Minimal /proc inspector: thread names, states and CPU ticks.

use std::fs;

#[derive(Debug, Clone)]
pub struct ThreadStat {
    pub tid: u32,
    pub comm: String,
    pub state: char,
    /// utime + stime, in clock ticks
    pub ticks: u64,
}

/// Parses one `/proc/<pid>/task/<tid>/stat` line.
pub fn parse_stat(tid: u32, line: &str) -> Option<ThreadStat> {
    let open = line.find('(')?;
    let close = line.rfind(')')?;
    let comm = line[open + 1..close].to_string();
    let rest: Vec<&str> = line[close + 1..].split_whitespace().collect();
    // after ')' : state(0) ppid(1) ... utime(11) stime(12)
    let state = rest.first()?.chars().next()?;
    let utime: u64 = rest.get(11)?.parse().ok()?;
    let stime: u64 = rest.get(12)?.parse().ok()?;
    Some(ThreadStat {
        tid,
        comm,
        state,
        ticks: utime + stime,
    })
}

/// All threads of a process. Threads that vanish while reading are skipped.
pub fn threads_of(pid: u32) -> Vec<ThreadStat> {
    let mut out = Vec::new();
    let dir = match fs::read_dir(format!("/proc/{pid}/task")) {
        Ok(d) => d,
        Err(_) => return out,
    };
    for e in dir.flatten() {
        let tid: u32 = match e.file_name().to_str().and_then(|s| s.parse().ok()) {
            Some(t) => t,
            None => continue,
        };
        if let Ok(line) = fs::read_to_string(format!("/proc/{pid}/task/{tid}/stat")) {
            if let Some(st) = parse_stat(tid, &line) {
                out.push(st);
            }
        }
    }
    out.sort_by_key(|t| t.tid);
    out
}

pub fn self_threads() -> Vec<ThreadStat> {
    threads_of(std::process::id())
}

/// The kernel tid of the calling thread.
pub fn gettid() -> u32 {
    unsafe { libc::syscall(libc::SYS_gettid) as u32 }
}

/// A snapshot usable by the blocked-state detector: true if every thread is
/// sleeping (state S) - returns also the total ticks.
pub fn all_asleep(pid: u32) -> Option<(bool, u64, usize)> {
    let ts = threads_of(pid);
    if ts.is_empty() {
        return None;
    }
    let asleep = ts.iter().all(|t| t.state == 'S');
    let ticks = ts.iter().map(|t| t.ticks).sum();
    Some((asleep, ticks, ts.len()))
}

/// Restrict the calling thread to `n` CPUs (so that `available_parallelism`
/// returns `n`). Returns the previous mask to restore it.
pub fn set_cpus(n: usize) -> Option<libc::cpu_set_t> {
    unsafe {
        let mut old: libc::cpu_set_t = std::mem::zeroed();
        if libc::sched_getaffinity(0, std::mem::size_of::<libc::cpu_set_t>(), &mut old) != 0 {
            return None;
        }
        let mut new: libc::cpu_set_t = std::mem::zeroed();
        let mut picked = 0;
        for cpu in 0..libc::CPU_SETSIZE as usize {
            if libc::CPU_ISSET(cpu, &old) {
                libc::CPU_SET(cpu, &mut new);
                picked += 1;
                if picked == n {
                    break;
                }
            }
        }
        if picked == 0 {
            return None;
        }
        if libc::sched_setaffinity(0, std::mem::size_of::<libc::cpu_set_t>(), &new) != 0 {
            return None;
        }
        Some(old)
    }
}

pub fn restore_cpus(old: &libc::cpu_set_t) {
    unsafe {
        libc::sched_setaffinity(0, std::mem::size_of::<libc::cpu_set_t>(), old);
    }
}
