//! Fuzz driver: libFuzzer bytes -> a structured case (hand-written `arbitrary::Unstructured` decoders,
//! one per property that has a fuzz target) -> the property's `run` with its semantic oracle inside the target.
//!
//! (Driving the proptest strategies themselves through proptest's pass-through RNG turned out not to work:
//! every union node forks the stream in halves for each skipped option, the stream is exhausted after a few
//! dozen forks whatever its length, and rand's rejection sampling then loops for ever on the zero tail.)

use crate::engine::{self, Prop};
use serde_json::Value;
use std::collections::HashMap;

struct Entry {
    prop: Box<dyn Prop>,
    known: Vec<engine::Known>,
}

thread_local! {
    // libFuzzer drives the target from one thread
    static REGISTRY: std::cell::RefCell<HashMap<String, &'static Entry>> = std::cell::RefCell::new(HashMap::new());
}

fn entry(id: &str) -> &'static Entry {
    REGISTRY.with(|r| {
        let mut r = r.borrow_mut();
        if let Some(e) = r.get(id) {
            return *e;
        }
        // quiet panics (the properties catch the ones they expect)
        std::panic::set_hook(Box::new(|_| {}));
        let prop = crate::props::by_id(id).expect("property");
        let known = engine::known_findings(id);
        let e: &'static Entry = Box::leak(Box::new(Entry { prop, known }));
        r.insert(id.to_string(), e);
        e
    })
}

pub fn decode(id: &str, data: &[u8]) -> Option<Value> {
    let mut u = arbitrary::Unstructured::new(data);
    let r = match id {
        "C02" => crate::props::c02::decode(&mut u),
        "C03" => crate::props::c03::decode(&mut u),
        "C12" => crate::props::c12::decode(&mut u),
        "C13" => crate::props::c13::decode(&mut u),
        "C16" => crate::props::c16::decode(&mut u),
        "C18" => crate::props::c18::decode(&mut u),
        _ => return None,
    };
    r.ok()
}

pub const TARGETS: [&str; 6] = ["C02", "C03", "C12", "C13", "C16", "C18"];

fn fails(e: &Entry, case: &Value) -> Option<engine::Violation> {
    match engine::run_guarded(&*e.prop, case).violation {
        Some(v) if !e.known.iter().any(|k| k.sig == v.sig) => Some(v),
        _ => None,
    }
}

/// Generic shrinker on the JSON of a case: drop array elements, halve numbers, while the case still fails.
pub fn shrink_json(case: Value, mut still_fails: impl FnMut(&Value) -> bool) -> Value {
    fn paths(v: &Value, cur: &mut Vec<String>, out: &mut Vec<Vec<String>>) {
        match v {
            Value::Array(a) => {
                out.push(cur.clone());
                for (i, x) in a.iter().enumerate() {
                    cur.push(i.to_string());
                    paths(x, cur, out);
                    cur.pop();
                }
            }
            Value::Object(o) => {
                for (k, x) in o {
                    cur.push(k.clone());
                    paths(x, cur, out);
                    cur.pop();
                }
            }
            _ => {}
        }
    }
    fn get_mut<'a>(v: &'a mut Value, path: &[String]) -> Option<&'a mut Value> {
        let mut cur = v;
        for p in path {
            cur = match cur {
                Value::Array(a) => a.get_mut(p.parse::<usize>().ok()?)?,
                Value::Object(o) => o.get_mut(p)?,
                _ => return None,
            };
        }
        Some(cur)
    }
    let mut best = case;
    let mut budget = 3000;
    loop {
        let mut progressed = false;
        let mut ps = Vec::new();
        paths(&best, &mut Vec::new(), &mut ps);
        for p in ps {
            let len = match get_mut(&mut best, &p) {
                Some(Value::Array(a)) => a.len(),
                _ => continue,
            };
            let mut i = len;
            while i > 0 && budget > 0 {
                i -= 1;
                let mut cand = best.clone();
                if let Some(Value::Array(a)) = get_mut(&mut cand, &p) {
                    if i < a.len() {
                        a.remove(i);
                    } else {
                        continue;
                    }
                }
                budget -= 1;
                if still_fails(&cand) {
                    best = cand;
                    progressed = true;
                }
            }
        }
        if !progressed || budget == 0 {
            return best;
        }
    }
}

/// One fuzz iteration. On a violation the case is shrunk, saved as a replay file and the process aborts
/// (so that libFuzzer keeps the input).
pub fn fuzz_one(id: &str, data: &[u8]) {
    let e = entry(id);
    let case = match decode(id, data) {
        Some(c) => c,
        None => return,
    };
    let v = match fails(e, &case) {
        Some(v) => v,
        None => return,
    };
    // candidates must be well-formed cases failing in the same way
    let sig = v.sig.clone();
    let best = shrink_json(case, |c| matches!(fails(e, c), Some(v2) if v2.sig == sig && !v2.what.contains("case deserialises")));
    let best_v = fails(e, &best).unwrap_or(v);
    let path = engine::write_replay(id, &best, &best_v, 0, None);
    eprintln!("FUZZ-VIOLATION property={id} replay={path}");
    eprintln!("  what: {}", best_v.what);
    std::process::abort();
}
