//! Drop ledger: every tracked value registers itself at creation and at drop.

use std::sync::atomic::{AtomicU64, AtomicU8, Ordering};

const CAP: usize = 1 << 20;

static STATES: [AtomicU8; CAP] = [const { AtomicU8::new(0) }; CAP];
static NEXT: AtomicU64 = AtomicU64::new(1);
static DOUBLE_DROPS: AtomicU64 = AtomicU64::new(0);
static USE_AFTER_DROP: AtomicU64 = AtomicU64::new(0);

pub const NONE: u8 = 0;
pub const ALIVE: u8 = 1;
pub const DROPPED: u8 = 2;

/// Resets the ledger (top of every case).
pub fn reset() {
    let n = (NEXT.swap(1, Ordering::SeqCst) as usize).min(CAP);
    for s in STATES.iter().take(n) {
        s.store(NONE, Ordering::Relaxed);
    }
    DOUBLE_DROPS.store(0, Ordering::SeqCst);
    USE_AFTER_DROP.store(0, Ordering::SeqCst);
}

pub fn new_token() -> u64 {
    let t = NEXT.fetch_add(1, Ordering::SeqCst);
    assert!((t as usize) < CAP, "ledger capacity exceeded");
    STATES[t as usize].store(ALIVE, Ordering::SeqCst);
    t
}

pub fn mark_dropped(t: u64) {
    let prev = STATES[t as usize].swap(DROPPED, Ordering::SeqCst);
    if prev != ALIVE {
        DOUBLE_DROPS.fetch_add(1, Ordering::SeqCst);
    }
}

pub fn state(t: u64) -> u8 {
    STATES[t as usize].load(Ordering::SeqCst)
}

pub fn is_alive(t: u64) -> bool {
    state(t) == ALIVE
}

pub fn note_use(t: u64) {
    if state(t) != ALIVE {
        USE_AFTER_DROP.fetch_add(1, Ordering::SeqCst);
    }
}

pub fn double_drops() -> u64 {
    DOUBLE_DROPS.load(Ordering::SeqCst)
}

pub fn use_after_drop() -> u64 {
    USE_AFTER_DROP.load(Ordering::SeqCst)
}

pub fn created() -> u64 {
    NEXT.load(Ordering::SeqCst) - 1
}

pub fn alive_count() -> u64 {
    let n = (NEXT.load(Ordering::SeqCst) as usize).min(CAP);
    STATES.iter().take(n).filter(|s| s.load(Ordering::SeqCst) == ALIVE).count() as u64
}

pub fn alive_tokens() -> Vec<u64> {
    let n = (NEXT.load(Ordering::SeqCst) as usize).min(CAP);
    (1..n as u64).filter(|&t| is_alive(t)).collect()
}

/// A value whose creation and destruction are recorded.
#[derive(Debug)]
pub struct Tracked {
    pub token: u64,
}

impl Tracked {
    pub fn new() -> Tracked {
        Tracked { token: new_token() }
    }
    /// Records a use; a use after drop is counted.
    pub fn touch(&self) {
        note_use(self.token);
    }
}

impl Default for Tracked {
    fn default() -> Self {
        Self::new()
    }
}

impl Drop for Tracked {
    fn drop(&mut self) {
        mark_dropped(self.token);
    }
}
