//! The hot-reloading "world": data-driven asset kinds whose behaviour is read
//! from the source at run time (recipes), a shadow recorder that derives from
//! the observed operation stream which dependencies each asset is supposed to
//! have, and a pure model interpreter giving the value a fresh load would have.

use crate::memsrc::{self, MemSource, OwnedEntry, Tree, Variant};
use assets_manager::asset::NotHotReloaded;
use assets_manager::hot_reloading::verif::recording_token;
use assets_manager::source::Source;
use assets_manager::{loader::Loader, AnyCache, Asset, AssetCache, BoxedError, Compound, ReloadId, SharedString};
use serde::{Deserialize, Serialize};
use std::borrow::Cow;
use std::cell::RefCell;
use std::collections::{BTreeMap, BTreeSet, HashMap};
use std::sync::atomic::{AtomicU64, Ordering::SeqCst};
use std::sync::{Arc, Mutex};

// ---------------------------------------------------------------------------
// kinds

#[derive(Clone, Copy, PartialEq, Eq, Hash, PartialOrd, Ord, Debug, Serialize, Deserialize)]
pub enum Kind {
    Leaf,
    LeafS,
    N0,
    N1,
    NS,
    Dir,
    Rec,
}

impl Kind {
    pub fn type_reloadable(self) -> bool {
        !matches!(self, Kind::LeafS | Kind::NS)
    }
    pub fn is_node(self) -> bool {
        matches!(self, Kind::N0 | Kind::N1 | Kind::NS)
    }
    pub fn recipe_ext(self) -> &'static str {
        match self {
            Kind::N0 => "n0",
            Kind::N1 => "n1",
            Kind::NS => "ns",
            _ => "",
        }
    }
}

pub type AKey = (Kind, String);

#[derive(Clone, PartialEq, Eq, Hash, PartialOrd, Ord, Debug, Serialize, Deserialize)]
pub enum Dep {
    File(String, String),
    Dir(String),
    Asset(Kind, String),
}

impl Dep {
    pub fn from_entry(e: &OwnedEntry) -> Dep {
        match e {
            OwnedEntry::File(i, x) => Dep::File(i.clone(), x.clone()),
            OwnedEntry::Dir(i) => Dep::Dir(i.clone()),
        }
    }
}

#[derive(Debug, Clone, PartialEq, Eq)]
pub struct Leaf(pub String);
#[derive(Debug, Clone, PartialEq, Eq)]
pub struct LeafS(pub String);
#[derive(Debug, Clone, PartialEq, Eq)]
pub struct N0(pub String);
#[derive(Debug, Clone, PartialEq, Eq)]
pub struct N1(pub String);
#[derive(Debug, Clone, PartialEq, Eq)]
pub struct NS(pub String);

pub struct LeafLoader;

fn decode_leaf(content: &[u8]) -> Result<String, BoxedError> {
    // the sentinel of the quiescence barrier is never faulted
    if !content.starts_with(b"ok:S") {
        note_loader_invocation()?;
    }
    let s = std::str::from_utf8(content)?;
    if s == "panic" {
        panic!("leaf loader panics");
    }
    match s.strip_prefix("ok:") {
        Some(v) => Ok(v.to_string()),
        None => Err("undecodable leaf".into()),
    }
}

impl Loader<Leaf> for LeafLoader {
    fn load(content: Cow<[u8]>, _: &str) -> Result<Leaf, BoxedError> {
        decode_leaf(&content).map(Leaf)
    }
}
impl Loader<LeafS> for LeafLoader {
    fn load(content: Cow<[u8]>, _: &str) -> Result<LeafS, BoxedError> {
        decode_leaf(&content).map(LeafS)
    }
}
impl Asset for Leaf {
    const EXTENSIONS: &'static [&'static str] = &["la", "lb"];
    type Loader = LeafLoader;
}
impl Asset for LeafS {
    const EXTENSION: &'static str = "ls";
    type Loader = LeafLoader;
    const HOT_RELOADED: bool = false;
}
impl NotHotReloaded for LeafS {}

macro_rules! node {
    ($t:ident, $kind:expr, $hot:expr) => {
        impl Compound for $t {
            fn load(cache: AnyCache, id: &SharedString) -> Result<Self, BoxedError> {
                node_load($kind, cache, id).map($t)
            }
            const HOT_RELOADED: bool = $hot;
        }
    };
}
node!(N0, Kind::N0, true);
node!(N1, Kind::N1, true);
node!(NS, Kind::NS, false);
impl NotHotReloaded for NS {}

// ---------------------------------------------------------------------------
// recipes

#[derive(Clone, Debug, PartialEq, Eq, Serialize, Deserialize)]
pub enum ROp {
    /// `load`; if not tolerant the error is propagated
    L { kind: Kind, id: String, tolerant: bool },
    /// `get_cached`
    G { kind: Kind, id: String },
    /// `load_owned`
    O { kind: Kind, id: String, tolerant: bool },
    /// raw source read (tolerant)
    F { id: String, ext: String },
    /// raw read_dir (tolerant)
    X { id: String },
    /// `no_record` block
    NR(Vec<ROp>),
    /// `no_record` invoked through the *other* cache of the world (the ops still use this cache)
    NRO(Vec<ROp>),
    /// helper thread
    TH(Vec<ROp>),
    /// through the other cache of the world
    OC(Vec<ROp>),
    /// catch a panic raised by the nested ops
    Catch(Vec<ROp>),
    Fail,
    Panic,
    /// busy work (schedule shaping)
    Work(u16),
    /// loads the leaves m0 .. m{n-1} (tolerant): many never-seen assets in one load
    Many(u16),
}

pub fn recipe_bytes(ops: &[ROp]) -> Vec<u8> {
    serde_json::to_vec(ops).unwrap()
}

// ---------------------------------------------------------------------------
// shadow recorder

#[derive(Debug)]
enum Frame {
    Loading {
        key: AKey,
        /// 0 = not known yet (learned from the first read)
        cache: u32,
        reloadable: bool,
        deps: BTreeSet<Dep>,
        reads: u32,
        /// crate-implemented compound (Directory / RecursiveDirectory): reads are not attributed from observation
        analytic: bool,
        tolerated_failure: bool,
        /// a `load_owned` session: its value is not the cached one
        owned: bool,
    },
    Mute,
    ThreadRoot,
}

thread_local! {
    static FRAMES: RefCell<Vec<Frame>> = const { RefCell::new(Vec::new()) };
    /// set by `lookup_load_owned` for the load session it starts
    static NEXT_OWNED: std::cell::Cell<bool> = const { std::cell::Cell::new(false) };
}

#[derive(Debug, Clone, PartialEq)]
pub enum Ev {
    /// a load session of `key` in cache `tag` ended
    /// `depth` = number of harness frames below (0 = driven directly by the crate, e.g. a reload)
    Loaded { tag: u32, key: AKey, tid: u32, ok: bool, seq: u64, depth: usize },
    /// a read with an empty frame stack: the crate re-loading `Leaf id` by itself
    SelfRead { tag: u32, id: String, ext: String, tid: u32, seq: u64 },
    /// any source access
    /// `in_load`: some harness frame is on the stack (the access is part of a load the harness can see)
    Read { tag: u32, entry: OwnedEntry, tid: u32, to: Option<AKey>, seq: u64, in_load: bool },
    LoaderInvoked { tid: u32, seq: u64 },
    Violation(String),
}

#[derive(Default)]
pub struct Shadow {
    /// dependencies recorded by the latest successful load of each asset
    pub deps: HashMap<(u32, AKey), BTreeSet<Dep>>,
    /// dependencies touched by failed attempts since the latest success
    pub failed_extra: HashMap<(u32, AKey), BTreeSet<Dep>>,
    /// assets that tolerated the failure/absence of a nested asset in their latest successful load
    pub tolerated: HashMap<(u32, AKey), bool>,
    /// pending reads of leaves re-loaded by the crate itself
    pub pending_self: HashMap<(u32, String), BTreeSet<Dep>>,
    pub events: Vec<Ev>,
}

static SHADOW: Mutex<Option<Shadow>> = Mutex::new(None);
static SEQ: AtomicU64 = AtomicU64::new(1);
/// tag -> pointer to the `AssetCache<MemSource>` of that tag (helper threads, other cache)
static CACHES: Mutex<Vec<(u32, usize)>> = Mutex::new(Vec::new());

fn with_shadow<R>(f: impl FnOnce(&mut Shadow) -> R) -> Option<R> {
    let mut g = SHADOW.lock().unwrap_or_else(|e| e.into_inner());
    g.as_mut().map(f)
}

fn next_seq() -> u64 {
    SEQ.fetch_add(1, SeqCst)
}

pub fn violation(msg: String) {
    with_shadow(|s| s.events.push(Ev::Violation(msg)));
}

/// Fault plan for loader invocations (harness loaders): fail the k-th one with an error or a panic.
#[derive(Default, Debug, Clone)]
pub struct LoaderFaults {
    pub counting: bool,
    pub counter: u64,
    pub fail_at: Option<(u64, bool)>,
}

pub static LOADER_FAULTS: Mutex<LoaderFaults> = Mutex::new(LoaderFaults { counting: false, counter: 0, fail_at: None });

fn note_loader_invocation() -> Result<(), BoxedError> {
    let tid = crate::procfs::gettid();
    with_shadow(|s| s.events.push(Ev::LoaderInvoked { tid, seq: next_seq() }));
    let hit = {
        let mut f = LOADER_FAULTS.lock().unwrap_or_else(|e| e.into_inner());
        if f.counting {
            let k = f.counter;
            f.counter += 1;
            match f.fail_at {
                Some((at, panic)) if at == k => Some(panic),
                _ => None,
            }
        } else {
            None
        }
    };
    match hit {
        Some(true) => panic!("injected loader panic"),
        Some(false) => Err("injected loader error".into()),
        None => Ok(()),
    }
}

/// Resets the recorder and installs the source observer (top of a case).
pub fn reset() {
    *SHADOW.lock().unwrap_or_else(|e| e.into_inner()) = Some(Shadow::default());
    CACHES.lock().unwrap().clear();
    FRAMES.with(|f| f.borrow_mut().clear());
    memsrc::set_observer(Some(Arc::new(on_source_access)));
}

pub fn shutdown() {
    memsrc::set_observer(None);
    *SHADOW.lock().unwrap_or_else(|e| e.into_inner()) = None;
    CACHES.lock().unwrap().clear();
}

pub fn register_cache(tag: u32, cache: &AssetCache<MemSource>) {
    CACHES.lock().unwrap().push((tag, cache as *const _ as usize));
}

fn cache_of(tag: u32) -> Option<&'static AssetCache<MemSource>> {
    let g = CACHES.lock().unwrap();
    g.iter().find(|(t, _)| *t == tag).map(|(_, p)| unsafe { &*(*p as *const AssetCache<MemSource>) })
}

fn other_tag(tag: u32) -> Option<u32> {
    let g = CACHES.lock().unwrap();
    g.iter().find(|(t, _)| *t != tag).map(|(t, _)| *t)
}

/// Who does an access through cache `tag` on this thread belong to?
/// Returns the index of the frame in the thread's stack.
fn attribution_target(frames: &mut [Frame], tag: u32) -> Option<usize> {
    for i in (0..frames.len()).rev() {
        match &mut frames[i] {
            Frame::Mute | Frame::ThreadRoot => return None,
            Frame::Loading { cache, reloadable, .. } => {
                if *cache == 0 {
                    *cache = tag;
                }
                if !*reloadable {
                    // a non-reloadable asset does not install a record: transparent
                    continue;
                }
                return if *cache == tag { Some(i) } else { None };
            }
        }
    }
    None
}

fn on_source_access(tag: u32, entry: &OwnedEntry) {
    let tid = crate::procfs::gettid();
    let (to, self_read) = FRAMES.with(|f| {
        let mut f = f.borrow_mut();
        if f.is_empty() {
            return (None, true);
        }
        match attribution_target(&mut f, tag) {
            Some(i) => {
                if let Frame::Loading { key, deps, reads, analytic, .. } = &mut f[i] {
                    *reads += 1;
                    if !*analytic {
                        deps.insert(Dep::from_entry(entry));
                    }
                    (Some(key.clone()), false)
                } else {
                    (None, false)
                }
            }
            None => (None, false),
        }
    });
    with_shadow(|s| {
        s.events.push(Ev::Read { tag, entry: entry.clone(), tid, to: to.clone(), seq: next_seq(), in_load: !self_read });
        if self_read {
            if let OwnedEntry::File(id, ext) = entry {
                if ext == "la" || ext == "lb" {
                    s.pending_self.entry((tag, id.clone())).or_default().insert(Dep::File(id.clone(), ext.clone()));
                    s.events.push(Ev::SelfRead { tag, id: id.clone(), ext: ext.clone(), tid, seq: next_seq() });
                }
            }
        }
    });
}

struct FrameGuard {
    armed: bool,
}

fn push_frame(f: Frame) -> FrameGuard {
    FRAMES.with(|fr| fr.borrow_mut().push(f));
    FrameGuard { armed: true }
}

impl FrameGuard {
    /// Pops the frame; for loading frames commits the session.
    fn finish(mut self, ok: bool, tree_for_analytic: Option<&Tree>) {
        self.armed = false;
        pop_frame(ok, tree_for_analytic);
    }
}

impl Drop for FrameGuard {
    fn drop(&mut self) {
        if self.armed {
            // unwinding: the load failed
            pop_frame(false, None);
        }
    }
}

fn pop_frame(ok: bool, tree: Option<&Tree>) {
    let (frame, depth) = FRAMES.with(|f| {
        let mut f = f.borrow_mut();
        let fr = f.pop();
        // the value of an owned load is embedded in the asset that requested it: so is its tolerance
        if let Some(Frame::Loading { owned: true, tolerated_failure: true, .. }) = &fr {
            for fr2 in f.iter_mut().rev() {
                if let Frame::Loading { tolerated_failure, .. } = fr2 {
                    *tolerated_failure = true;
                    break;
                }
            }
        }
        (fr, f.len())
    });
    if let Some(Frame::Loading { key, cache, reloadable, mut deps, reads, analytic, tolerated_failure, owned }) = frame {
        let tid = crate::procfs::gettid();
        // a lookup frame for a crate-loaded kind only is a load session if the crate read something
        if (key.0 == Kind::Leaf || key.0 == Kind::LeafS || analytic) && reads == 0 {
            return;
        }
        let mut nested: Vec<(AKey, BTreeSet<Dep>)> = Vec::new();
        if analytic {
            if let Some(tree) = tree {
                deps = analytic_deps(&key, tree);
                if key.0 == Kind::Rec && ok && reloadable {
                    // the crate loads the directory itself and every sub-directory as nested assets
                    let mut stack = vec![key.1.clone()];
                    while let Some(d) = stack.pop() {
                        nested.push(((Kind::Dir, d.clone()), analytic_deps(&(Kind::Dir, d.clone()), tree)));
                        if d != key.1 {
                            nested.push(((Kind::Rec, d.clone()), analytic_deps(&(Kind::Rec, d.clone()), tree)));
                        }
                        for sub in tree.dirs.iter().filter(|s| memsrc::parent_of(s) == Some(d.as_str())) {
                            stack.push(sub.clone());
                        }
                    }
                }
            }
        }
        // keep only the nested directory assets that really are cached now (a nested load may have failed)
        if !nested.is_empty() {
            if let Some(real) = cache_of(cache) {
                let any = real.as_any_cache();
                nested.retain(|(k, _)| match k.0 {
                    Kind::Dir => any.contains::<assets_manager::Directory<Leaf>>(&k.1),
                    _ => any.contains::<assets_manager::RecursiveDirectory<Leaf>>(&k.1),
                });
            }
        }
        with_shadow(|s| {
            for (k, d) in nested {
                s.deps.entry((cache, k.clone())).or_insert(d);
                s.tolerated.entry((cache, k)).or_insert(false);
            }
            s.events.push(Ev::Loaded { tag: cache, key: key.clone(), tid, ok, seq: next_seq(), depth });
            if ok && !owned {
                s.tolerated.insert((cache, key.clone()), tolerated_failure);
            }
            if !reloadable {
                return;
            }
            if ok {
                s.deps.insert((cache, key.clone()), deps);
                if !owned {
                    s.failed_extra.remove(&(cache, key.clone()));
                    s.tolerated.insert((cache, key), tolerated_failure);
                }
            } else {
                s.failed_extra.entry((cache, key)).or_default().extend(deps);
            }
        });
    }
}

/// Documented dependencies of the crate's own directory compounds.
fn analytic_deps(key: &AKey, tree: &Tree) -> BTreeSet<Dep> {
    let mut d = BTreeSet::new();
    match key.0 {
        Kind::Dir => {
            d.insert(Dep::Dir(key.1.clone()));
        }
        Kind::Rec => {
            d.insert(Dep::Dir(key.1.clone()));
            d.insert(Dep::Asset(Kind::Dir, key.1.clone()));
            for sub in tree.dirs.iter().filter(|s| memsrc::parent_of(s) == Some(key.1.as_str())) {
                d.insert(Dep::Asset(Kind::Rec, sub.clone()));
            }
        }
        _ => {}
    }
    d
}

/// Records that the asset being loaded on this thread looked `target` up through cache `tag`.
fn record_lookup(tag: u32, target: &AKey, target_reloadable: bool) {
    if !target_reloadable {
        return;
    }
    FRAMES.with(|f| {
        let mut f = f.borrow_mut();
        if let Some(i) = attribution_target(&mut f, tag) {
            if let Frame::Loading { deps, .. } = &mut f[i] {
                deps.insert(Dep::Asset(target.0, target.1.clone()));
            }
        }
    });
}

/// The asset being loaded on this thread embeds the failure / absence of a nested asset in its value.
fn note_tolerated(_tag: u32) {
    FRAMES.with(|f| {
        let mut f = f.borrow_mut();
        for fr in f.iter_mut().rev() {
            if let Frame::Loading { tolerated_failure, .. } = fr {
                *tolerated_failure = true;
                break;
            }
        }
    });
}

// ---------------------------------------------------------------------------
// typed dispatch

pub fn typed_load(cache: AnyCache, kind: Kind, id: &str) -> Result<String, assets_manager::Error> {
    match kind {
        Kind::Leaf => cache.load::<Leaf>(id).map(|h| h.read().0.clone()),
        Kind::LeafS => cache.load::<LeafS>(id).map(|h| h.read().0.clone()),
        Kind::N0 => cache.load::<N0>(id).map(|h| h.read().0.clone()),
        Kind::N1 => cache.load::<N1>(id).map(|h| h.read().0.clone()),
        Kind::NS => cache.load::<NS>(id).map(|h| h.read().0.clone()),
        Kind::Dir => cache.load_dir::<Leaf>(id).map(|h| render_ids(h.read().ids())),
        Kind::Rec => cache.load_rec_dir::<Leaf>(id).map(|h| render_ids(h.read().ids())),
    }
}

pub fn typed_load_owned(cache: AnyCache, kind: Kind, id: &str) -> Result<String, assets_manager::Error> {
    match kind {
        Kind::Leaf => cache.load_owned::<Leaf>(id).map(|v| v.0),
        Kind::LeafS => cache.load_owned::<LeafS>(id).map(|v| v.0),
        Kind::N0 => cache.load_owned::<N0>(id).map(|v| v.0),
        Kind::N1 => cache.load_owned::<N1>(id).map(|v| v.0),
        Kind::NS => cache.load_owned::<NS>(id).map(|v| v.0),
        Kind::Dir => cache.load_owned::<assets_manager::Directory<Leaf>>(id).map(|v| render_ids(v.ids())),
        Kind::Rec => cache.load_owned::<assets_manager::RecursiveDirectory<Leaf>>(id).map(|v| render_ids(v.ids())),
    }
}

pub fn typed_get_cached(cache: AnyCache, kind: Kind, id: &str) -> Option<String> {
    match kind {
        Kind::Leaf => cache.get_cached::<Leaf>(id).map(|h| h.read().0.clone()),
        Kind::LeafS => cache.get_cached::<LeafS>(id).map(|h| h.read().0.clone()),
        Kind::N0 => cache.get_cached::<N0>(id).map(|h| h.read().0.clone()),
        Kind::N1 => cache.get_cached::<N1>(id).map(|h| h.read().0.clone()),
        Kind::NS => cache.get_cached::<NS>(id).map(|h| h.read().0.clone()),
        Kind::Dir => cache.get_cached::<assets_manager::Directory<Leaf>>(id).map(|h| render_ids(h.read().ids())),
        Kind::Rec => cache.get_cached::<assets_manager::RecursiveDirectory<Leaf>>(id).map(|h| render_ids(h.read().ids())),
    }
}

pub fn typed_reload_id(cache: AnyCache, kind: Kind, id: &str) -> Option<ReloadId> {
    match kind {
        Kind::Leaf => cache.get_cached::<Leaf>(id).map(|h| h.last_reload_id()),
        Kind::LeafS => cache.get_cached::<LeafS>(id).map(|h| h.last_reload_id()),
        Kind::N0 => cache.get_cached::<N0>(id).map(|h| h.last_reload_id()),
        Kind::N1 => cache.get_cached::<N1>(id).map(|h| h.last_reload_id()),
        Kind::NS => cache.get_cached::<NS>(id).map(|h| h.last_reload_id()),
        Kind::Dir => cache.get_cached::<assets_manager::Directory<Leaf>>(id).map(|h| h.last_reload_id()),
        Kind::Rec => cache.get_cached::<assets_manager::RecursiveDirectory<Leaf>>(id).map(|h| h.last_reload_id()),
    }
}

pub fn typed_reloaded_global(cache: AnyCache, kind: Kind, id: &str) -> Option<bool> {
    match kind {
        Kind::Leaf => cache.get_cached::<Leaf>(id).map(|h| h.reloaded_global()),
        Kind::LeafS => cache.get_cached::<LeafS>(id).map(|h| h.reloaded_global()),
        Kind::N0 => cache.get_cached::<N0>(id).map(|h| h.reloaded_global()),
        Kind::N1 => cache.get_cached::<N1>(id).map(|h| h.reloaded_global()),
        Kind::NS => cache.get_cached::<NS>(id).map(|h| h.reloaded_global()),
        Kind::Dir => cache.get_cached::<assets_manager::Directory<Leaf>>(id).map(|h| h.reloaded_global()),
        Kind::Rec => cache.get_cached::<assets_manager::RecursiveDirectory<Leaf>>(id).map(|h| h.reloaded_global()),
    }
}

pub fn render_ids<'a>(ids: impl Iterator<Item = &'a SharedString>) -> String {
    let mut v: Vec<String> = ids.map(|s| s.to_string()).collect();
    v.sort();
    v.dedup();
    format!("[{}]", v.join(","))
}

// ---------------------------------------------------------------------------
// looked-up operations with recording

fn cache_reloadable(cache: AnyCache, kind: Kind) -> bool {
    kind.type_reloadable() && cache.is_hot_reloaded()
}

/// Wraps a lookup of `(kind, id)` through `cache` (tag `tag`) issued by harness code.
fn with_lookup<R>(cache: AnyCache, tag: u32, kind: Kind, id: &str, f: impl FnOnce() -> Result<R, assets_manager::Error>) -> Result<R, assets_manager::Error> {
    let key = (kind, id.to_string());
    let rel = cache_reloadable(cache, kind);
    record_lookup(tag, &key, rel);
    if kind.is_node() {
        // the node pushes its own frame
        return f();
    }
    let analytic = matches!(kind, Kind::Dir | Kind::Rec);
    let owned = NEXT_OWNED.with(|o| o.replace(false));
    let guard = push_frame(Frame::Loading { key, cache: tag, reloadable: rel, deps: BTreeSet::new(), reads: 0, analytic, tolerated_failure: false, owned });
    let r = f();
    if analytic {
        // snapshot of the tree for the documented dependencies
        let tree = cache_of(tag).map(|c| c.raw_source().tree().clone());
        guard.finish(r.is_ok(), tree.as_ref());
    } else {
        guard.finish(r.is_ok(), None);
    }
    r
}

pub fn lookup_load(cache: AnyCache, tag: u32, kind: Kind, id: &str) -> Result<String, assets_manager::Error> {
    with_lookup(cache, tag, kind, id, || typed_load(cache, kind, id))
}

pub fn lookup_load_owned(cache: AnyCache, tag: u32, kind: Kind, id: &str) -> Result<String, assets_manager::Error> {
    NEXT_OWNED.with(|o| o.set(true));
    let r = with_lookup(cache, tag, kind, id, || typed_load_owned(cache, kind, id));
    NEXT_OWNED.with(|o| o.set(false));
    r
}

pub fn lookup_get_cached(cache: AnyCache, tag: u32, kind: Kind, id: &str) -> Option<String> {
    let key = (kind, id.to_string());
    record_lookup(tag, &key, cache_reloadable(cache, kind));
    typed_get_cached(cache, kind, id)
}

// ---------------------------------------------------------------------------
// recipe interpreter (runs inside the crate's load path)

fn node_load(kind: Kind, cache: AnyCache, id: &SharedString) -> Result<String, BoxedError> {
    let rel = cache_reloadable(cache, kind);
    let owned = NEXT_OWNED.with(|o| o.replace(false));
    let guard = push_frame(Frame::Loading { key: (kind, id.to_string()), cache: 0, reloadable: rel, deps: BTreeSet::new(), reads: 0, analytic: false, tolerated_failure: false, owned });
    let res = (|| -> Result<String, BoxedError> {
        note_loader_invocation()?;
        let tok0 = recording_token();
        if rel && tok0 == 0 {
            violation(format!("no dependency record is installed while the reloadable asset {kind:?} {id:?} is being loaded"));
        }
        let source = cache.raw_source();
        let bytes: Vec<u8> = source.read(id, kind.recipe_ext())?.as_ref().to_vec();
        let tag = FRAMES.with(|f| match f.borrow().last() {
            Some(Frame::Loading { cache, .. }) => *cache,
            _ => 0,
        });
        let ops: Vec<ROp> = serde_json::from_slice(&bytes)?;
        let mut out = String::new();
        interp(cache, tag, &ops, &mut out)?;
        let out = cap_value(out);
        if recording_token() != tok0 {
            violation(format!("the dependency record of {kind:?} {id:?} was not the one installed at the start of its load any more when the load ended"));
        }
        Ok(out)
    })();
    guard.finish(res.is_ok(), None);
    res
}

/// Values embed the values they looked up; with look-up cycles they would grow without bound.
/// A capped value stands for its tracked part only: what was read inside no_record / thread / other-cache
/// blocks may legitimately lag behind and is never compared (see `strip_untracked`).
pub fn cap_value(v: String) -> String {
    if v.len() > 3000 {
        let tracked = crate::props::hot::strip_untracked(&v);
        format!("#{:016x}/{}", crate::engine::fnv(&tracked), tracked.len())
    } else {
        v
    }
}

fn render_err(e: &dyn std::fmt::Display) -> String {
    let _ = e;
    "!".to_string()
}

pub fn interp(cache: AnyCache, tag: u32, ops: &[ROp], out: &mut String) -> Result<(), BoxedError> {
    for op in ops {
        let tok0 = recording_token();
        match op {
            ROp::L { kind, id, tolerant } => match lookup_load(cache, tag, *kind, id) {
                Ok(v) => out.push_str(&format!("L({kind:?}:{id})={v};")),
                Err(e) => {
                    if *tolerant {
                        note_tolerated(tag);
                        out.push_str(&format!("L({kind:?}:{id})={};", render_err(&e)));
                    } else {
                        return Err(e.into());
                    }
                }
            },
            ROp::O { kind, id, tolerant } => match lookup_load_owned(cache, tag, *kind, id) {
                Ok(v) => out.push_str(&format!("O({kind:?}:{id})={v};")),
                Err(e) => {
                    if *tolerant {
                        note_tolerated(tag);
                        out.push_str(&format!("O({kind:?}:{id})={};", render_err(&e)));
                    } else {
                        return Err(e.into());
                    }
                }
            },
            ROp::G { kind, id } => match lookup_get_cached(cache, tag, *kind, id) {
                Some(v) => out.push_str(&format!("G({kind:?}:{id})={v};")),
                None => {
                    note_tolerated(tag);
                    out.push_str(&format!("G({kind:?}:{id})=none;"));
                }
            },
            ROp::F { id, ext } => match cache.raw_source().read(id, ext) {
                Ok(c) => out.push_str(&format!("F({id}.{ext})={};", String::from_utf8_lossy(c.as_ref()))),
                Err(_) => out.push_str(&format!("F({id}.{ext})=!;")),
            },
            ROp::X { id } => {
                let mut v = Vec::new();
                match cache.raw_source().read_dir(id, &mut |e| v.push(format!("{e:?}"))) {
                    Ok(()) => {
                        v.sort();
                        out.push_str(&format!("X({id})=[{}];", v.join(",")));
                    }
                    Err(_) => out.push_str(&format!("X({id})=!;")),
                }
            }
            ROp::NR(sub) => {
                let mut inner = String::new();
                let r = cache.no_record(|| {
                    let g = push_frame(Frame::Mute);
                    if recording_token() != 0 {
                        violation("a dependency record is installed inside a no_record block".to_string());
                    }
                    let r = interp(cache, tag, sub, &mut inner);
                    g.finish(true, None);
                    r
                });
                out.push_str(&format!("NR[{inner}];"));
                r?;
            }
            ROp::NRO(sub) => {
                let mut inner = String::new();
                let mut body = || {
                    let g = push_frame(Frame::Mute);
                    if recording_token() != 0 {
                        violation("a dependency record is installed inside a no_record block entered through another cache".to_string());
                    }
                    let r = interp(cache, tag, sub, &mut inner);
                    g.finish(true, None);
                    r
                };
                let r = match other_tag(tag).and_then(cache_of) {
                    Some(other) if sub.len() % 2 == 0 => other.as_any_cache().no_record(&mut body),
                    Some(other) => other.no_record(&mut body),
                    None => cache.no_record(&mut body),
                };
                out.push_str(&format!("NR[{inner}];"));
                r?;
            }
            ROp::TH(sub) => {
                let mut inner = String::new();
                let r = match cache_of(tag) {
                    Some(real) => std::thread::scope(|s| {
                        s.spawn(|| {
                            let g = push_frame(Frame::ThreadRoot);
                            let mut inner = String::new();
                            let r = interp(real.as_any_cache(), tag, sub, &mut inner).map_err(|e| e.to_string());
                            g.finish(true, None);
                            (inner, r)
                        })
                        .join()
                    }),
                    None => Ok((String::new(), Err("no registered cache".to_string()))),
                };
                match r {
                    Ok((s, r)) => {
                        inner = s;
                        out.push_str(&format!("TH[{inner}];"));
                        if let Err(e) = r {
                            return Err(e.into());
                        }
                    }
                    Err(p) => std::panic::resume_unwind(p),
                }
            }
            ROp::OC(sub) => {
                let mut inner = String::new();
                let r = match other_tag(tag).and_then(|t| cache_of(t).map(|c| (t, c))) {
                    Some((t, other)) => interp(other.as_any_cache(), t, sub, &mut inner),
                    None => Ok(()),
                };
                out.push_str(&format!("OC[{inner}];"));
                r?;
            }
            ROp::Catch(sub) => {
                let mut inner = String::new();
                let depth = FRAMES.with(|f| f.borrow().len());
                let r = std::panic::catch_unwind(std::panic::AssertUnwindSafe(|| interp(cache, tag, sub, &mut inner)));
                // frames of the unwound part were popped by their guards
                debug_assert_eq!(FRAMES.with(|f| f.borrow().len()), depth);
                match r {
                    Ok(r) => {
                        out.push_str(&format!("C[{inner}];"));
                        r?;
                    }
                    Err(_) => {
                        // a caught panic of a nested load is a swallowed failure like a tolerant look-up
                        note_tolerated(tag);
                        out.push_str("C[!panic];");
                    }
                }
            }
            ROp::Fail => return Err("recipe FAIL".into()),
            ROp::Panic => panic!("recipe PANIC"),
            ROp::Work(n) => {
                for _ in 0..(*n as u32) * 50 {
                    std::hint::spin_loop();
                }
            }
            ROp::Many(n) => {
                for i in 0..*n {
                    match lookup_load(cache, tag, Kind::Leaf, &format!("m{i}")) {
                        Ok(v) => out.push_str(&format!("M{i}={v};")),
                        Err(_) => {
                            note_tolerated(tag);
                            out.push_str(&format!("M{i}=!;"));
                        }
                    }
                }
            }
        }
        if recording_token() != tok0 {
            violation(format!("the calling thread's dependency record changed across {op:?}"));
        }
    }
    Ok(())
}

// ---------------------------------------------------------------------------
// model interpreter: the value a fresh load would give now

pub struct ModelCtx<'a> {
    pub trees: &'a HashMap<u32, Tree>,
    /// looks a value up in the real cache `tag` without side effects
    pub cached: &'a dyn Fn(u32, Kind, &str) -> Option<String>,
    pub other: &'a dyn Fn(u32) -> Option<u32>,
    /// source faults (permanent ones) per tag: unreadable files / dirs
    pub unreadable_files: &'a dyn Fn(u32, &str, &str) -> bool,
    pub depth: std::cell::Cell<u32>,
}

#[derive(Debug, Clone, PartialEq, Eq)]
pub enum Fresh {
    Ok(String),
    Err,
    /// the load would panic (treated like a failure by the cache, but not swallowed by tolerant look-ups)
    Panic,
    /// recursion bound hit (cyclic load recipes are outside the domain)
    Unknown,
}

impl ModelCtx<'_> {
    fn leaf(&self, tag: u32, id: &str, exts: &[&str]) -> Fresh {
        let tree = &self.trees[&tag];
        for ext in exts {
            if (self.unreadable_files)(tag, id, ext) {
                continue;
            }
            if let Some(c) = tree.files.get(&(id.to_string(), ext.to_string())) {
                if let Ok(s) = std::str::from_utf8(&c.bytes) {
                    if s == "panic" {
                        return Fresh::Panic;
                    }
                    if let Some(v) = s.strip_prefix("ok:") {
                        return Fresh::Ok(v.to_string());
                    }
                }
            }
        }
        Fresh::Err
    }

    fn dir_ids(&self, tag: u32, id: &str) -> Option<Vec<String>> {
        let tree = &self.trees[&tag];
        if !tree.dir_exists(id) || (self.unreadable_files)(tag, id, "<dir>") {
            return None;
        }
        let mut v: Vec<String> = tree.files.keys().filter(|(fid, ext)| memsrc::parent_of(fid) == Some(id) && (ext == "la" || ext == "lb")).map(|(fid, _)| fid.clone()).collect();
        v.sort();
        v.dedup();
        Some(v)
    }

    /// value of `load(kind, id)` through cache `tag`: the cached value if cached, else a fresh evaluation
    fn load(&self, tag: u32, kind: Kind, id: &str) -> Fresh {
        match (self.cached)(tag, kind, id) {
            Some(v) => Fresh::Ok(v),
            None => self.fresh(tag, kind, id),
        }
    }

    pub fn fresh(&self, tag: u32, kind: Kind, id: &str) -> Fresh {
        if self.depth.get() > 24 {
            return Fresh::Unknown;
        }
        self.depth.set(self.depth.get() + 1);
        let r = self.fresh_inner(tag, kind, id);
        self.depth.set(self.depth.get() - 1);
        r
    }

    fn fresh_inner(&self, tag: u32, kind: Kind, id: &str) -> Fresh {
        match kind {
            Kind::Leaf => self.leaf(tag, id, &["la", "lb"]),
            Kind::LeafS => self.leaf(tag, id, &["ls"]),
            Kind::Dir => match self.dir_ids(tag, id) {
                Some(v) => Fresh::Ok(format!("[{}]", v.join(","))),
                None => Fresh::Err,
            },
            Kind::Rec => {
                let mut ids: Vec<String> = match self.load(tag, Kind::Dir, id) {
                    Fresh::Ok(s) => parse_ids(&s),
                    other => return other,
                };
                let tree = &self.trees[&tag];
                if !tree.dir_exists(id) || (self.unreadable_files)(tag, id, "<dir>") {
                    return Fresh::Err;
                }
                let subs: Vec<String> = tree.dirs.iter().filter(|s| memsrc::parent_of(s) == Some(id)).cloned().collect();
                for sub in subs {
                    match self.load(tag, Kind::Rec, &sub) {
                        Fresh::Ok(s) => ids.extend(parse_ids(&s)),
                        Fresh::Err => {}
                        Fresh::Panic => return Fresh::Panic,
                        Fresh::Unknown => return Fresh::Unknown,
                    }
                }
                ids.sort();
                ids.dedup();
                Fresh::Ok(format!("[{}]", ids.join(",")))
            }
            Kind::N0 | Kind::N1 | Kind::NS => {
                let tree = &self.trees[&tag];
                let ext = kind.recipe_ext();
                if (self.unreadable_files)(tag, id, ext) {
                    return Fresh::Err;
                }
                let ops: Vec<ROp> = match tree.files.get(&(id.to_string(), ext.to_string())) {
                    Some(c) => match serde_json::from_slice(&c.bytes) {
                        Ok(o) => o,
                        Err(_) => return Fresh::Err,
                    },
                    None => return Fresh::Err,
                };
                let mut out = String::new();
                match self.interp(tag, &ops, &mut out) {
                    Ok(()) => Fresh::Ok(cap_value(out)),
                    Err(f) => f,
                }
            }
        }
    }

    fn interp(&self, tag: u32, ops: &[ROp], out: &mut String) -> Result<(), Fresh> {
        for op in ops {
            match op {
                ROp::L { kind, id, tolerant } => match self.load(tag, *kind, id) {
                    Fresh::Ok(v) => out.push_str(&format!("L({kind:?}:{id})={v};")),
                    Fresh::Err => {
                        if *tolerant {
                            out.push_str(&format!("L({kind:?}:{id})=!;"));
                        } else {
                            return Err(Fresh::Err);
                        }
                    }
                    Fresh::Panic => return Err(Fresh::Panic),
                    Fresh::Unknown => return Err(Fresh::Unknown),
                },
                ROp::O { kind, id, tolerant } => match self.fresh(tag, *kind, id) {
                    Fresh::Ok(v) => out.push_str(&format!("O({kind:?}:{id})={v};")),
                    Fresh::Err => {
                        if *tolerant {
                            out.push_str(&format!("O({kind:?}:{id})=!;"));
                        } else {
                            return Err(Fresh::Err);
                        }
                    }
                    Fresh::Panic => return Err(Fresh::Panic),
                    Fresh::Unknown => return Err(Fresh::Unknown),
                },
                ROp::G { kind, id } => match (self.cached)(tag, *kind, id) {
                    Some(v) => out.push_str(&format!("G({kind:?}:{id})={v};")),
                    None => out.push_str(&format!("G({kind:?}:{id})=none;")),
                },
                ROp::F { id, ext } => {
                    let tree = &self.trees[&tag];
                    match tree.files.get(&(id.clone(), ext.clone())) {
                        Some(c) if !(self.unreadable_files)(tag, id, ext) => out.push_str(&format!("F({id}.{ext})={};", String::from_utf8_lossy(&c.bytes))),
                        _ => out.push_str(&format!("F({id}.{ext})=!;")),
                    }
                }
                ROp::X { id } => {
                    let tree = &self.trees[&tag];
                    match tree.list(id).filter(|_| !(self.unreadable_files)(tag, id, "<dir>")) {
                        Some(list) => {
                            let mut v: Vec<String> = list
                                .iter()
                                .map(|e| match e {
                                    OwnedEntry::File(i, x) => format!("{:?}", assets_manager::source::DirEntry::File(i, x)),
                                    OwnedEntry::Dir(i) => format!("{:?}", assets_manager::source::DirEntry::Directory(i)),
                                })
                                .collect();
                            v.sort();
                            out.push_str(&format!("X({id})=[{}];", v.join(",")));
                        }
                        None => out.push_str(&format!("X({id})=!;")),
                    }
                }
                ROp::NR(sub) => {
                    let mut inner = String::new();
                    let r = self.interp(tag, sub, &mut inner);
                    out.push_str(&format!("NR[{inner}];"));
                    r?;
                }
                ROp::NRO(sub) => {
                    let mut inner = String::new();
                    let r = self.interp(tag, sub, &mut inner);
                    out.push_str(&format!("NR[{inner}];"));
                    r?;
                }
                ROp::TH(sub) => {
                    let mut inner = String::new();
                    let r = self.interp(tag, sub, &mut inner);
                    out.push_str(&format!("TH[{inner}];"));
                    r?;
                }
                ROp::OC(sub) => {
                    let mut inner = String::new();
                    let r = match (self.other)(tag) {
                        Some(t) => self.interp(t, sub, &mut inner),
                        None => Ok(()),
                    };
                    out.push_str(&format!("OC[{inner}];"));
                    r?;
                }
                ROp::Catch(sub) => {
                    let mut inner = String::new();
                    match self.interp(tag, sub, &mut inner) {
                        Ok(()) => out.push_str(&format!("C[{inner}];")),
                        Err(Fresh::Panic) => out.push_str("C[!panic];"),
                        Err(f) => {
                            out.push_str(&format!("C[{inner}];"));
                            return Err(f);
                        }
                    }
                }
                ROp::Fail => return Err(Fresh::Err),
                ROp::Panic => return Err(Fresh::Panic),
                ROp::Work(_) => {}
                ROp::Many(n) => {
                    for i in 0..*n {
                        match self.load(tag, Kind::Leaf, &format!("m{i}")) {
                            Fresh::Ok(v) => out.push_str(&format!("M{i}={v};")),
                            Fresh::Err => out.push_str(&format!("M{i}=!;")),
                            other => return Err(other),
                        }
                    }
                }
            }
        }
        Ok(())
    }

}

fn parse_ids(s: &str) -> Vec<String> {
    let inner = s.trim_start_matches('[').trim_end_matches(']');
    if inner.is_empty() {
        Vec::new()
    } else {
        inner.split(',').map(|x| x.to_string()).collect()
    }
}

// ---------------------------------------------------------------------------
// the world: caches, sentinel, barrier, snapshots

pub const SENTINEL: &str = "zz_sentinel";

pub struct World {
    pub src: MemSource,
    pub cache: &'static AssetCache<MemSource>,
    owned: Option<*mut AssetCache<MemSource>>,
    pub tag: u32,
    /// optional second cache (own source)
    pub src2: Option<MemSource>,
    pub cache2: Option<Box<AssetCache<MemSource>>>,
    pub tag2: u32,
    sentinel_version: u64,
    pub static_mode: bool,
    /// how many hot_reload calls the barriers needed (evidence)
    pub barrier_calls: u64,
}

#[derive(Clone, Copy, PartialEq, Eq, Debug, Serialize, Deserialize)]
pub enum SecondCache {
    None,
    WithReloader,
    WithoutReloader,
}

impl World {
    /// `leak`: keep the cache for ever and use `enhance_hot_reloading`.
    pub fn new(static_mode: bool, second: SecondCache) -> World {
        reset();
        let src = MemSource::new(true);
        src.tree().put(SENTINEL, "la", b"ok:S0".to_vec(), Variant::Buffer);
        let tag = src.tag();
        let boxed = Box::new(AssetCache::with_source(src.handle()));
        let ptr = Box::into_raw(boxed);
        let cache: &'static AssetCache<MemSource> = unsafe { &*ptr };
        register_cache(tag, cache);
        let (src2, cache2, tag2) = match second {
            SecondCache::None => (None, None, 0),
            SecondCache::WithReloader | SecondCache::WithoutReloader => {
                let s2 = MemSource::new(second == SecondCache::WithReloader);
                let t2 = s2.tag();
                let c2 = Box::new(AssetCache::with_source(s2.handle()));
                register_cache(t2, &c2);
                (Some(s2), Some(c2), t2)
            }
        };
        let w = World {
            src,
            cache,
            owned: if static_mode { None } else { Some(ptr) },
            tag,
            src2,
            cache2,
            tag2,
            sentinel_version: 0,
            static_mode,
            barrier_calls: 0,
        };
        w.top_load(Kind::Leaf, SENTINEL).expect("sentinel loads");
        if static_mode {
            cache.enhance_hot_reloading();
        }
        w
    }

    pub fn any(&self) -> AnyCache<'static> {
        self.cache.as_any_cache()
    }

    /// A top-level load issued by the harness.
    pub fn top_load(&self, kind: Kind, id: &str) -> Result<String, assets_manager::Error> {
        lookup_load(self.any(), self.tag, kind, id)
    }

    pub fn top_load_owned(&self, kind: Kind, id: &str) -> Result<String, assets_manager::Error> {
        lookup_load_owned(self.any(), self.tag, kind, id)
    }

    pub fn sender_send(&self, entries: &[OwnedEntry], batched: bool) {
        if batched && entries.len() > 1 {
            self.src.send_multiple(entries);
        } else {
            for e in entries {
                self.src.send(e);
            }
        }
    }

    fn sentinel_id(&self) -> ReloadId {
        self.cache.get_cached::<Leaf>(SENTINEL).expect("sentinel cached").last_reload_id()
    }

    /// Quiescence barrier: every event sent before this call has been
    /// received and the reloads it triggers are finished when this returns.
    pub fn barrier(&mut self) {
        self.sentinel_version += 1;
        let before = self.sentinel_id();
        self.src.tree().put(SENTINEL, "la", format!("ok:S{}", self.sentinel_version).into_bytes(), Variant::Buffer);
        self.src.send(&OwnedEntry::File(SENTINEL.to_string(), "la".to_string()));
        loop {
            if !self.static_mode {
                self.cache.hot_reload();
                self.barrier_calls += 1;
            }
            if self.sentinel_id() != before {
                break;
            }
            std::thread::yield_now();
        }
        if !self.static_mode {
            // the pass that reloaded the sentinel may have been a pass of its own; one more call
            // guarantees that reloads triggered by the same batch are finished (they ran in that pass or before)
        }
    }

    /// Like `barrier`, but gives up (false) after `max_calls` synchronous hot_reload round trips.
    pub fn barrier_bounded(&mut self, max_calls: u32) -> bool {
        self.sentinel_version += 1;
        let before = self.sentinel_id();
        self.src.tree().put(SENTINEL, "la", format!("ok:S{}", self.sentinel_version).into_bytes(), Variant::Buffer);
        self.src.send(&OwnedEntry::File(SENTINEL.to_string(), "la".to_string()));
        for _ in 0..max_calls {
            self.cache.hot_reload();
            self.barrier_calls += 1;
            if self.sentinel_id() != before {
                return true;
            }
            std::thread::yield_now();
        }
        false
    }

    pub fn trees(&self) -> HashMap<u32, Tree> {
        let mut m = HashMap::new();
        m.insert(self.tag, self.src.tree().clone());
        if let Some(s2) = &self.src2 {
            m.insert(self.tag2, s2.tree().clone());
        }
        m
    }

    pub fn cached_value(&self, tag: u32, kind: Kind, id: &str) -> Option<String> {
        if tag == self.tag {
            typed_get_cached(self.any(), kind, id)
        } else {
            self.cache2.as_ref().and_then(|c| typed_get_cached(c.as_any_cache(), kind, id))
        }
    }

    /// The value a fresh load of `(kind, id)` through the main cache would give now.
    pub fn fresh(&self, kind: Kind, id: &str) -> Fresh {
        self.fresh_in(self.tag, kind, id)
    }

    pub fn fresh_in(&self, tag: u32, kind: Kind, id: &str) -> Fresh {
        self.fresh_with_view(tag, kind, id, &|t: u32, k: Kind, i: &str| self.cached_value(t, k, i))
    }

    /// Like `fresh_in`, with the caller's view of what is cached.
    pub fn fresh_with_view(&self, tag: u32, kind: Kind, id: &str, cached: &dyn Fn(u32, Kind, &str) -> Option<String>) -> Fresh {
        let trees = self.trees();
        let other = |t: u32| if self.tag2 == 0 { None } else if t == self.tag { Some(self.tag2) } else { Some(self.tag) };
        let unreadable = |t: u32, id: &str, ext: &str| {
            let src = if t == self.tag { Some(&self.src) } else { self.src2.as_ref() };
            src.map_or(false, |s| {
                let mut f = s.faults();
                if f.unreadable_files.contains_key(&(id.to_string(), ext.to_string())) {
                    return true;
                }
                if let Some((e, n, seen)) = &mut f.model_unreadable_nth {
                    if e.0 == id && e.1 == ext {
                        *seen += 1;
                        return *seen - 1 == *n;
                    }
                }
                false
            })
        };
        let ctx = ModelCtx { trees: &trees, cached, other: &other, unreadable_files: &unreadable, depth: std::cell::Cell::new(0) };
        ctx.fresh(tag, kind, id)
    }

    pub fn take_events(&self) -> Vec<Ev> {
        with_shadow(|s| std::mem::take(&mut s.events)).unwrap_or_default()
    }

    pub fn shadow_deps(&self) -> HashMap<(u32, AKey), BTreeSet<Dep>> {
        with_shadow(|s| s.deps.clone()).unwrap_or_default()
    }

    pub fn shadow_failed_extra(&self) -> HashMap<(u32, AKey), BTreeSet<Dep>> {
        with_shadow(|s| s.failed_extra.clone()).unwrap_or_default()
    }

    pub fn shadow_tolerated(&self) -> HashMap<(u32, AKey), bool> {
        with_shadow(|s| s.tolerated.clone()).unwrap_or_default()
    }

    /// Commits the reads the crate made while re-loading leaves by itself:
    /// `reloaded(id)` tells whether that leaf's reload id grew.
    pub fn commit_self_reloads(&self, reloaded: &dyn Fn(&str) -> bool) {
        let tag = self.tag;
        with_shadow(|s| {
            let pend = std::mem::take(&mut s.pending_self);
            for ((t, id), deps) in pend {
                let key = (t, (Kind::Leaf, id.clone()));
                if t == tag && reloaded(&id) {
                    s.deps.insert(key.clone(), deps);
                    s.failed_extra.remove(&key);
                    s.tolerated.insert(key, false);
                } else {
                    s.failed_extra.entry(key).or_default().extend(deps);
                }
            }
        });
    }

    /// Directory assets are loaded and re-loaded by the crate without the harness seeing it (nested in a
    /// recursive directory, or on the reloader thread): give every cached one its documented dependencies,
    /// and refresh those of the ones that were just re-loaded.
    pub fn sync_analytic(&self, cached: &BTreeSet<AKey>, reloaded: &BTreeSet<AKey>) {
        let tree = self.src.tree().clone();
        let tag = self.tag;
        with_shadow(|s| {
            for key in cached.iter().filter(|k| matches!(k.0, Kind::Dir | Kind::Rec)) {
                let k = (tag, key.clone());
                if !s.deps.contains_key(&k) || reloaded.contains(key) {
                    s.deps.insert(k.clone(), analytic_deps(key, &tree));
                    s.tolerated.entry(k).or_insert(false);
                }
            }
        });
    }

    /// All cached keys of the main cache among `candidates`.
    pub fn cached_keys(&self, candidates: &BTreeSet<AKey>) -> BTreeSet<AKey> {
        candidates.iter().filter(|(k, i)| self.cached_value(self.tag, *k, i).is_some()).cloned().collect()
    }
}

impl Drop for World {
    fn drop(&mut self) {
        // second cache first (nothing runs on it any more), then the main cache
        self.cache2 = None;
        if let Some(p) = self.owned.take() {
            unsafe { drop(Box::from_raw(p)) };
        }
        shutdown();
    }
}

/// Transitive closure: assets reachable through reverse dependencies from `entries`.
pub fn affected(deps: &HashMap<(u32, AKey), BTreeSet<Dep>>, tag: u32, entries: &[OwnedEntry]) -> BTreeSet<AKey> {
    let mut rdeps: BTreeMap<Dep, Vec<AKey>> = BTreeMap::new();
    for ((t, key), ds) in deps {
        if *t != tag {
            continue;
        }
        for d in ds {
            rdeps.entry(d.clone()).or_default().push(key.clone());
        }
    }
    let mut out = BTreeSet::new();
    let mut stack: Vec<Dep> = entries.iter().map(Dep::from_entry).collect();
    let mut seen: BTreeSet<Dep> = BTreeSet::new();
    while let Some(d) = stack.pop() {
        if !seen.insert(d.clone()) {
            continue;
        }
        if let Some(v) = rdeps.get(&d) {
            for k in v {
                if out.insert(k.clone()) {
                    stack.push(Dep::Asset(k.0, k.1.clone()));
                }
            }
        }
    }
    out
}
