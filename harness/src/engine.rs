//! The engine: one `Prop` served by several drivers (random, enumerate,
//! replay, fuzz), run in worker processes under a supervisor that turns
//! crashes and deadlocks into shrunk replay files and writes the evidence.

use proptest::strategy::{BoxedStrategy, Strategy, ValueTree};
use proptest::test_runner::{Config, RngAlgorithm, TestRng, TestRunner};
use serde_json::{json, Value};
use std::collections::{BTreeMap, HashSet};
use std::io::{BufRead, BufReader, Read, Write};
use std::process::{Child, Command, Stdio};
use std::sync::mpsc;
use std::time::{Duration, Instant};

use crate::procfs;

#[derive(Clone, Copy, Debug, PartialEq, Eq)]
pub enum Tier {
    Quick,
    Thorough,
}

impl Tier {
    pub fn name(self) -> &'static str {
        match self {
            Tier::Quick => "quick",
            Tier::Thorough => "thorough",
        }
    }
    pub fn parse(s: &str) -> Option<Tier> {
        match s {
            "quick" => Some(Tier::Quick),
            "thorough" => Some(Tier::Thorough),
            _ => None,
        }
    }
}

#[derive(Debug, Clone)]
pub struct Violation {
    pub what: String,
    /// A short classifier of the failure used by the known-findings protocol.
    pub sig: String,
}

#[derive(Debug, Default)]
pub struct Outcome {
    pub violation: Option<Violation>,
    pub labels: Vec<String>,
    pub nontrivial: bool,
    /// sub-checks that were excluded by construction in this case
    pub excluded: u32,
    /// executions enumerated inside this case (e.g. one per injected fault)
    pub sub_evals: u64,
}

impl Outcome {
    pub fn new() -> Self {
        Self::default()
    }
    pub fn label(&mut self, l: impl Into<String>) {
        let l = l.into();
        if !self.labels.contains(&l) {
            self.labels.push(l);
        }
    }
    pub fn fail(&mut self, sig: impl Into<String>, what: impl Into<String>) {
        if self.violation.is_none() {
            self.violation = Some(Violation {
                what: what.into(),
                sig: sig.into(),
            });
        }
    }
    pub fn failed(&self) -> bool {
        self.violation.is_some()
    }
}

/// `check!(out, "sig", cond, "fmt", args..)` records a violation if `cond` is false.
#[macro_export]
macro_rules! check {
    ($out:expr, $sig:expr, $cond:expr, $($fmt:tt)+) => {
        if !($cond) {
            $out.fail($sig, format!($($fmt)+));
        }
    };
}

pub struct Plan {
    pub random_cases: u64,
    pub workers: usize,
    /// repetitions of a candidate when replaying / shrinking (schedule-dependent properties)
    pub repeats: u32,
    /// use the blocked-state detector (all threads asleep + zero CPU = deadlock)
    pub hang_detect: bool,
    /// restart a worker process after this many cases (properties that leak threads / caches)
    pub cases_per_process: u64,
    /// per-case hard cap in seconds (exceeding it is "inconclusive", exit 2)
    pub hard_cap_s: u64,
}

impl Plan {
    pub fn new(random_cases: u64) -> Plan {
        Plan {
            random_cases,
            workers: 16,
            repeats: 1,
            hang_detect: true,
            cases_per_process: u64::MAX,
            hard_cap_s: 120,
        }
    }
}

pub trait Prop: Sync + Send {
    fn id(&self) -> &'static str;
    fn level(&self) -> &'static str {
        "exploration"
    }
    fn rule(&self) -> String;
    fn assumptions(&self) -> Vec<String> {
        Vec::new()
    }
    fn plan(&self, tier: Tier) -> Plan;
    fn strategy(&self, tier: Tier) -> BoxedStrategy<Value>;
    /// A finite sub-space enumerated completely (may be empty).
    fn enumerate(&self, _tier: Tier) -> Vec<Value> {
        Vec::new()
    }
    fn enumerate_note(&self, _tier: Tier) -> String {
        String::new()
    }
    fn run(&self, case: &Value) -> Outcome;
    /// Labels that must each cover at least 2% of the random cases (generator self-check).
    fn required_labels(&self) -> Vec<&'static str> {
        Vec::new()
    }
}

pub fn to_case<T: serde::Serialize>(t: &T) -> Value {
    serde_json::to_value(t).expect("case serialises")
}

pub fn from_case<T: serde::de::DeserializeOwned>(v: &Value) -> T {
    serde_json::from_value(v.clone()).expect("case deserialises")
}

// ---------------------------------------------------------------------------
// seeds

fn splitmix(x: &mut u64) -> u64 {
    *x = x.wrapping_add(0x9E37_79B9_7F4A_7C15);
    let mut z = *x;
    z = (z ^ (z >> 30)).wrapping_mul(0xBF58_476D_1CE4_E5B9);
    z = (z ^ (z >> 27)).wrapping_mul(0x94D0_49BB_1331_11EB);
    z ^ (z >> 31)
}

pub fn fnv(s: &str) -> u64 {
    let mut h: u64 = 0xcbf2_9ce4_8422_2325;
    for b in s.bytes() {
        h ^= b as u64;
        h = h.wrapping_mul(0x100_0000_01b3);
    }
    h
}

pub fn verif_seed() -> u64 {
    let s = std::env::var("VERIF_SEED")
        .ok()
        .and_then(|s| s.trim().parse::<i128>().ok())
        .map(|v| v as u64)
        .unwrap_or(20260927);
    if s == 0 {
        0x5EED_0000_0001
    } else {
        s
    }
}

fn case_seed(seed: u64, prop: &str, idx: u64) -> [u8; 32] {
    let mut st = seed ^ fnv(prop).rotate_left(17) ^ idx.wrapping_mul(0xD6E8_FEB8_6659_FD93);
    let mut out = [0u8; 32];
    for chunk in out.chunks_mut(8) {
        chunk.copy_from_slice(&splitmix(&mut st).to_le_bytes());
    }
    out
}

fn runner_for(seed: [u8; 32]) -> TestRunner {
    let cfg = Config {
        failure_persistence: None,
        ..Config::default()
    };
    TestRunner::new_with_rng(cfg, TestRng::from_seed(RngAlgorithm::ChaCha, &seed))
}

pub fn gen_tree(
    strat: &BoxedStrategy<Value>,
    seed: u64,
    prop: &str,
    idx: u64,
) -> Box<dyn ValueTree<Value = Value>> {
    let mut runner = runner_for(case_seed(seed, prop, idx));
    strat.new_tree(&mut runner).expect("strategy generates")
}

/// Generates a case from raw bytes (fuzz driver): the bytes drive the same
/// strategy through proptest's pass-through RNG; a fixed pseudo-random tail
/// keeps rejection sampling from looping once the bytes are exhausted.
pub fn gen_from_bytes(strat: &BoxedStrategy<Value>, data: &[u8]) -> Value {
    let mut bytes = Vec::with_capacity(data.len() + 16384);
    bytes.extend_from_slice(data);
    let mut st = 0x7A11_7A11u64;
    for _ in 0..2048 {
        bytes.extend_from_slice(&splitmix(&mut st).to_le_bytes());
    }
    let cfg = Config {
        failure_persistence: None,
        ..Config::default()
    };
    let mut runner =
        TestRunner::new_with_rng(cfg, TestRng::from_seed(RngAlgorithm::PassThrough, &bytes));
    strat
        .new_tree(&mut runner)
        .expect("strategy generates")
        .current()
}

pub fn fingerprint(v: &Value) -> u64 {
    fnv(&serde_json::to_string(v).unwrap())
}

// ---------------------------------------------------------------------------
// running one case, in process

fn panic_message(p: &(dyn std::any::Any + Send)) -> String {
    if let Some(s) = p.downcast_ref::<&str>() {
        s.to_string()
    } else if let Some(s) = p.downcast_ref::<String>() {
        s.clone()
    } else {
        "<non-string panic>".into()
    }
}

/// Runs a case; a panic escaping the property code is reported as a violation
/// (properties catch the panics they expect themselves).
pub fn run_guarded(prop: &dyn Prop, case: &Value) -> Outcome {
    match std::panic::catch_unwind(std::panic::AssertUnwindSafe(|| prop.run(case))) {
        Ok(o) => o,
        Err(p) => {
            let mut o = Outcome::new();
            o.fail(
                "panic",
                format!("uncaught panic while running the case: {}", panic_message(&*p)),
            );
            o
        }
    }
}

fn run_repeated(prop: &dyn Prop, case: &Value, repeats: u32) -> Outcome {
    let mut last = Outcome::new();
    for _ in 0..repeats.max(1) {
        crate::tracelog::clear();
        last = run_guarded(prop, case);
        if last.failed() {
            crate::tracelog::dump();
            return last;
        }
    }
    last
}

// ---------------------------------------------------------------------------
// known findings

#[derive(Debug, Clone)]
pub struct Known {
    pub sig: String,
    pub text: String,
}

pub fn verif_dir() -> std::path::PathBuf {
    std::env::var("VERIF_DIR")
        .map(Into::into)
        .unwrap_or_else(|_| "/verif".into())
}

pub fn known_findings(prop: &str) -> Vec<Known> {
    let mut out = Vec::new();
    let path = verif_dir().join("known_findings.txt");
    if let Ok(s) = std::fs::read_to_string(path) {
        for line in s.lines() {
            let line = line.trim();
            if let Some(rest) = line.strip_prefix("known:") {
                let rest = rest.trim();
                let mut p = None;
                let mut sig = None;
                let mut words = rest.split_whitespace();
                let mut text = Vec::new();
                for w in &mut words {
                    if let Some(v) = w.strip_prefix("property=") {
                        p = Some(v.to_string());
                    } else if let Some(v) = w.strip_prefix("signature=") {
                        sig = Some(v.to_string());
                    } else {
                        text.push(w);
                    }
                }
                if p.as_deref() == Some(prop) {
                    if let Some(sig) = sig {
                        out.push(Known {
                            sig,
                            text: text.join(" "),
                        });
                    }
                }
            }
        }
    }
    out
}

// ---------------------------------------------------------------------------
// the case list of a run: regression replays, enumerated cases, random cases

pub struct CaseList {
    pub regress: Vec<(String, Value)>,
    pub enumerated: Vec<Value>,
    pub random: u64,
}

impl CaseList {
    pub fn build(prop: &dyn Prop, tier: Tier) -> CaseList {
        let mut regress = Vec::new();
        let dir = verif_dir().join("replays").join(prop.id());
        if let Ok(rd) = std::fs::read_dir(&dir) {
            let mut files: Vec<_> = rd.flatten().map(|e| e.path()).collect();
            files.sort();
            for f in files {
                if f.extension().and_then(|e| e.to_str()) != Some("json") {
                    continue;
                }
                if let Ok(s) = std::fs::read_to_string(&f) {
                    if let Ok(v) = serde_json::from_str::<Value>(&s) {
                        if let Some(c) = v.get("case") {
                            regress.push((f.display().to_string(), c.clone()));
                        }
                    }
                }
            }
        }
        CaseList {
            regress,
            enumerated: prop.enumerate(tier),
            random: prop.plan(tier).random_cases,
        }
    }
    pub fn total(&self) -> u64 {
        self.regress.len() as u64 + self.enumerated.len() as u64 + self.random
    }
    fn random_base(&self) -> u64 {
        (self.regress.len() + self.enumerated.len()) as u64
    }
}

enum CaseSrc {
    Fixed(Value),
    Tree(Box<dyn ValueTree<Value = Value>>),
}

fn case_at(
    list: &CaseList,
    strat: &BoxedStrategy<Value>,
    seed: u64,
    prop: &str,
    idx: u64,
) -> CaseSrc {
    let r = list.regress.len() as u64;
    if idx < r {
        CaseSrc::Fixed(list.regress[idx as usize].1.clone())
    } else if idx < list.random_base() {
        CaseSrc::Fixed(list.enumerated[(idx - r) as usize].clone())
    } else {
        CaseSrc::Tree(gen_tree(strat, seed, prop, idx - list.random_base()))
    }
}

// ---------------------------------------------------------------------------
// worker

fn emit(line: &str) {
    let out = std::io::stdout();
    let mut l = out.lock();
    let _ = l.write_all(line.as_bytes());
    let _ = l.write_all(b"\n");
    let _ = l.flush();
}

/// Shrinks a failing value tree in-process.
fn shrink_in_process(
    prop: &dyn Prop,
    mut tree: Box<dyn ValueTree<Value = Value>>,
    repeats: u32,
    first: Outcome,
    known: &[Known],
    hard_cap_s: u64,
) -> (Value, Violation) {
    let mut best = tree.current();
    let mut best_v = first.violation.unwrap();
    let start = Instant::now();
    let mut iters = 0u32;
    // stay well inside the supervisor's per-case cap (which restarts when the failure is announced)
    let budget = Duration::from_secs((hard_cap_s * 6 / 10).clamp(20, 120));
    'outer: while iters < 4000 && start.elapsed() < budget {
        if !tree.simplify() {
            break;
        }
        loop {
            iters += 1;
            let cand = tree.current();
            let o = run_repeated(prop, &cand, repeats);
            let fails = match &o.violation {
                Some(v) => !known.iter().any(|k| k.sig == v.sig),
                None => false,
            };
            if fails {
                best = cand;
                best_v = o.violation.unwrap();
                break;
            }
            if !tree.complicate() {
                break 'outer;
            }
            if iters >= 4000 || start.elapsed() >= budget {
                break 'outer;
            }
        }
    }
    (best, best_v)
}

pub fn worker_main(prop: &dyn Prop, tier: Tier, w: u64, nw: u64, from: u64, max_cases: u64) -> i32 {
    let seed = verif_seed();
    let list = CaseList::build(prop, tier);
    let strat = prop.strategy(tier);
    let plan = prop.plan(tier);
    let known = known_findings(prop.id());
    let total = list.total();
    let mut done = 0u64;
    let mut idx = from;
    // first index >= from with idx % nw == w
    while idx % nw != w {
        idx += 1;
    }
    while idx < total {
        if done >= max_cases {
            emit(&format!("N {idx}"));
            return 0;
        }
        emit(&format!("S {idx}"));
        let src = case_at(&list, &strat, seed, prop.id(), idx);
        let case = match &src {
            CaseSrc::Fixed(v) => v.clone(),
            CaseSrc::Tree(t) => t.current(),
        };
        let is_regress = idx < list.regress.len() as u64;
        let o = if is_regress {
            run_repeated(prop, &case, plan.repeats.max(3))
        } else {
            run_guarded(prop, &case)
        };
        let fp = fingerprint(&case);
        let want_sample = done < 2 || (idx % 997 == 0);
        match &o.violation {
            Some(v) if known.iter().any(|k| k.sig == v.sig) => {
                emit(&format!(
                    "K {}",
                    json!({"idx": idx, "sig": v.sig, "what": v.what})
                ));
                emit(&format!(
                    "R {}",
                    json!({"idx": idx, "nt": o.nontrivial, "fp": format!("{fp:016x}"), "labels": o.labels, "ex": o.excluded, "known": true})
                ));
            }
            Some(v0) => {
                // announce the unshrunk failure first: if shrinking is cut short (hard cap, crash of a candidate)
                // the supervisor still has a violation to report
                emit(&format!("F {}", json!({"idx": idx, "sig": v0.sig, "what": v0.what, "case": case})));
                let (case, v) = match src {
                    CaseSrc::Tree(tree) => shrink_in_process(prop, tree, plan.repeats, o, &known, plan.hard_cap_s),
                    CaseSrc::Fixed(c) => (c, o.violation.unwrap()),
                };
                emit(&format!(
                    "V {}",
                    json!({"idx": idx, "sig": v.sig, "what": v.what, "case": case})
                ));
                return 3;
            }
            None => {
                let mut r = json!({"idx": idx, "nt": o.nontrivial, "fp": format!("{fp:016x}"), "labels": o.labels, "ex": o.excluded, "sub": o.sub_evals});
                if want_sample {
                    r["case"] = case;
                }
                emit(&format!("R {r}"));
            }
        }
        done += 1;
        idx += nw;
    }
    emit("D");
    0
}

// ---------------------------------------------------------------------------
// running a single case in a child process (replay, crash / hang shrinking)

#[derive(Debug, Clone)]
pub enum ChildVerdict {
    Pass,
    Violation(Violation),
    Crash(String),
    Hang(String),
    Inconclusive(String),
}

impl ChildVerdict {
    pub fn is_failure(&self) -> bool {
        matches!(
            self,
            ChildVerdict::Violation(_) | ChildVerdict::Crash(_) | ChildVerdict::Hang(_)
        )
    }
    pub fn to_violation(&self) -> Option<Violation> {
        match self {
            ChildVerdict::Violation(v) => Some(v.clone()),
            ChildVerdict::Crash(d) => Some(Violation {
                what: format!("the process running the case crashed: {d}"),
                sig: "crash".into(),
            }),
            ChildVerdict::Hang(d) if d.starts_with("livelock: ") => Some(Violation { what: d.clone(), sig: "livelock".into() }),
            ChildVerdict::Hang(d) => Some(Violation {
                what: format!("deadlock: {d}"),
                sig: "deadlock".into(),
            }),
            _ => None,
        }
    }
}

/// Blocked-state detector for one process. Call `sample` periodically; it
/// returns `true` once the process has been observed with every thread
/// asleep and no CPU tick accrued over >= 3 samples spanning >= 1.5 s.
pub struct HangDetector {
    pid: u32,
    first: Option<(Instant, u64, usize)>,
    samples: u32,
    /// livelock rule: (ticks of the harness's own threads, ticks of the crate's hot-reloading threads) when every
    /// thread of the harness was first seen asleep
    live_first: Option<(u64, u64)>,
    live_burnt: u64,
}

/// CPU (in clock ticks, 100 per second) that the crate's hot-reloading thread may burn while every thread of the
/// harness sleeps without using any. Nothing in the harness makes that thread compute for more than a second.
const LIVELOCK_TICKS: u64 = 2500;

impl HangDetector {
    pub fn new(pid: u32) -> Self {
        HangDetector {
            pid,
            first: None,
            samples: 0,
            live_first: None,
            live_burnt: 0,
        }
    }
    pub fn reset(&mut self) {
        self.first = None;
        self.samples = 0;
    }
    /// True when, since some earlier sample, every thread that is not one of the crate's `assets_hot_reload`
    /// threads has been asleep without using any CPU while those threads used more than `LIVELOCK_TICKS`:
    /// everybody waits for a hot-reloading thread that computes for ever. Measured in CPU consumed, not in time.
    pub fn sample_livelock(&mut self) -> bool {
        let ts = procfs::threads_of(self.pid);
        if ts.is_empty() {
            self.live_first = None;
            return false;
        }
        let (mut own, mut theirs, mut own_asleep, mut any_theirs) = (0u64, 0u64, true, false);
        for t in &ts {
            if t.comm.starts_with("assets_hot_relo") {
                theirs += t.ticks;
                any_theirs = true;
            } else {
                own += t.ticks;
                own_asleep &= t.state == 'S';
            }
        }
        if !own_asleep || !any_theirs {
            self.live_first = None;
            return false;
        }
        match self.live_first {
            Some((own0, theirs0)) if own0 == own && theirs >= theirs0 => {
                self.live_burnt = theirs - theirs0;
                self.live_burnt > LIVELOCK_TICKS
            }
            _ => {
                self.live_first = Some((own, theirs));
                false
            }
        }
    }
    pub fn describe_livelock(&self) -> String {
        let ts = procfs::threads_of(self.pid);
        let names: Vec<String> = ts.iter().map(|t| format!("{}:{}", t.comm, t.state)).collect();
        format!(
            "every thread of the harness has been asleep without using any CPU while the crate's hot-reloading thread used {} s of CPU without letting anybody go on [{}]",
            self.live_burnt / 100,
            names.join(" ")
        )
    }
    pub fn sample(&mut self) -> bool {
        match procfs::all_asleep(self.pid) {
            Some((true, ticks, n)) => match self.first {
                Some((t0, ticks0, n0)) if ticks0 == ticks && n0 == n => {
                    self.samples += 1;
                    self.samples >= 3 && t0.elapsed() >= Duration::from_millis(1500)
                }
                _ => {
                    self.first = Some((Instant::now(), ticks, n));
                    self.samples = 1;
                    false
                }
            },
            _ => {
                self.reset();
                false
            }
        }
    }
    pub fn describe(&self) -> String {
        let ts = procfs::threads_of(self.pid);
        let names: Vec<String> = ts
            .iter()
            .map(|t| format!("{}:{}", t.comm, t.state))
            .collect();
        format!(
            "all {} threads asleep with zero CPU for >= 1.5 s while the case was unfinished [{}]",
            ts.len(),
            names.join(" ")
        )
    }
}

fn describe_status(st: &std::process::ExitStatus) -> String {
    use std::os::unix::process::ExitStatusExt;
    if let Some(sig) = st.signal() {
        format!("killed by signal {sig}")
    } else {
        format!("exit status {:?}", st.code())
    }
}

pub fn run_case_in_child(prop: &dyn Prop, case: &Value, repeats: u32, hang_detect: bool, cap_s: u64) -> ChildVerdict {
    let exe = std::env::current_exe().expect("current exe");
    let mut child = Command::new(exe)
        .arg("--run-case")
        .arg(prop.id())
        .arg(repeats.to_string())
        .stdin(Stdio::piped())
        .stdout(Stdio::piped())
        .stderr(Stdio::null())
        .spawn()
        .expect("spawn child");
    {
        let mut stdin = child.stdin.take().unwrap();
        let _ = stdin.write_all(serde_json::to_string(case).unwrap().as_bytes());
    }
    let mut stdout = child.stdout.take().unwrap();
    let (tx, rx) = mpsc::channel();
    let reader = std::thread::spawn(move || {
        let mut s = String::new();
        let _ = stdout.read_to_string(&mut s);
        let _ = tx.send(s);
    });
    let pid = child.id();
    let mut det = HangDetector::new(pid);
    let start = Instant::now();
    let verdict = loop {
        match child.try_wait() {
            Ok(Some(st)) => {
                let out = rx.recv_timeout(Duration::from_secs(5)).unwrap_or_default();
                let mut verdict = None;
                for line in out.lines() {
                    if let Some(rest) = line.strip_prefix("V ") {
                        if let Ok(v) = serde_json::from_str::<Value>(rest) {
                            verdict = Some(ChildVerdict::Violation(Violation {
                                what: v["what"].as_str().unwrap_or("").to_string(),
                                sig: v["sig"].as_str().unwrap_or("").to_string(),
                            }));
                        }
                    } else if line == "P" {
                        verdict = Some(ChildVerdict::Pass);
                    }
                }
                break match verdict {
                    Some(v) if st.success() || st.code() == Some(3) => v,
                    _ => ChildVerdict::Crash(describe_status(&st)),
                };
            }
            Ok(None) => {}
            Err(e) => break ChildVerdict::Inconclusive(format!("wait failed: {e}")),
        }
        if hang_detect && start.elapsed() > Duration::from_millis(700) && det.sample() {
            let d = det.describe();
            let _ = child.kill();
            let _ = child.wait();
            break ChildVerdict::Hang(d);
        }
        if hang_detect && start.elapsed() > Duration::from_secs(5) && det.sample_livelock() {
            let d = format!("livelock: {}", det.describe_livelock());
            let _ = child.kill();
            let _ = child.wait();
            break ChildVerdict::Hang(d);
        }
        if start.elapsed() > Duration::from_secs(cap_s) {
            let _ = child.kill();
            let _ = child.wait();
            break ChildVerdict::Inconclusive(format!("exceeded the hard cap of {cap_s} s"));
        }
        std::thread::sleep(Duration::from_millis(if start.elapsed() < Duration::from_millis(200) { 2 } else { 100 }));
    };
    let _ = reader.join();
    verdict
}

/// Entry point of `vcheck --run-case <ID> <repeats>`: case JSON on stdin.
pub fn run_case_main(prop: &dyn Prop, repeats: u32) -> i32 {
    let mut s = String::new();
    std::io::stdin().read_to_string(&mut s).expect("read case");
    let case: Value = serde_json::from_str(&s).expect("parse case");
    let o = run_repeated(prop, &case, repeats);
    match o.violation {
        Some(v) => {
            emit(&format!("V {}", json!({"sig": v.sig, "what": v.what})));
            3
        }
        None => {
            emit("P");
            0
        }
    }
}

/// Shrinks a case that crashes or wedges its process, executing each
/// candidate in a fresh child.
fn shrink_in_children(
    prop: &dyn Prop,
    mut tree: Box<dyn ValueTree<Value = Value>>,
    plan: &Plan,
    first: Violation,
) -> (Value, Violation) {
    let mut best = tree.current();
    let mut best_v = first;
    let start = Instant::now();
    let mut iters = 0;
    'outer: while iters < 300 && start.elapsed() < Duration::from_secs(75) {
        if !tree.simplify() {
            break;
        }
        loop {
            iters += 1;
            let cand = tree.current();
            let verdict = run_case_in_child(prop, &cand, plan.repeats, plan.hang_detect, plan.hard_cap_s);
            if let (true, Some(v)) = (verdict.is_failure(), verdict.to_violation()) {
                best = cand;
                best_v = v;
                break;
            }
            if !tree.complicate() {
                break 'outer;
            }
            if iters >= 300 || start.elapsed() >= Duration::from_secs(75) {
                break 'outer;
            }
        }
    }
    (best, best_v)
}

// ---------------------------------------------------------------------------
// supervisor

enum Msg {
    Line(usize, String),
    Eof(usize),
}

struct WorkerState {
    child: Child,
    w: u64,
    current: Option<(u64, Instant)>,
    next_from: u64,
    finished: bool,
    det: HangDetector,
    eof: bool,
    /// a failure the worker announced and is still shrinking
    pending: Option<Found>,
}

fn spawn_worker(prop: &str, tier: Tier, w: u64, nw: u64, from: u64, max_cases: u64, slot: usize, tx: &mpsc::Sender<Msg>) -> Child {
    let exe = std::env::current_exe().expect("current exe");
    let mut child = Command::new(exe)
        .arg("--worker")
        .arg(prop)
        .arg(tier.name())
        .arg(w.to_string())
        .arg(nw.to_string())
        .arg(from.to_string())
        .arg(max_cases.to_string())
        .stdin(Stdio::null())
        .stdout(Stdio::piped())
        .stderr(Stdio::null())
        .spawn()
        .expect("spawn worker");
    let stdout = child.stdout.take().unwrap();
    let tx = tx.clone();
    std::thread::spawn(move || {
        let rd = BufReader::new(stdout);
        for line in rd.lines() {
            match line {
                Ok(l) => {
                    if tx.send(Msg::Line(slot, l)).is_err() {
                        return;
                    }
                }
                Err(_) => break,
            }
        }
        let _ = tx.send(Msg::Eof(slot));
    });
    child
}

pub struct RunResult {
    pub exit: i32,
}

struct Found {
    idx: u64,
    case: Option<Value>,
    v: Violation,
}

pub fn write_replay(prop: &str, case: &Value, v: &Violation, seed: u64, idx: Option<u64>) -> String {
    let dir = verif_dir().join("replays_found").join(prop);
    let _ = std::fs::create_dir_all(&dir);
    let fp = fingerprint(case);
    let path = dir.join(format!("{fp:016x}.json"));
    let doc = json!({"property": prop, "sig": v.sig, "what": v.what, "seed": seed, "idx": idx, "case": case});
    let _ = std::fs::write(&path, serde_json::to_string_pretty(&doc).unwrap());
    path.display().to_string()
}

pub fn supervise(prop: &dyn Prop, tier: Tier) -> RunResult {
    let t0 = Instant::now();
    let seed = verif_seed();
    let plan = prop.plan(tier);
    let list = CaseList::build(prop, tier);
    let total = list.total();
    let nw = (plan.workers as u64).min(total.max(1)).max(1);
    let known = known_findings(prop.id());

    let (tx, rx) = mpsc::channel::<Msg>();
    let mut workers: Vec<WorkerState> = Vec::new();
    for w in 0..nw {
        let child = spawn_worker(prop.id(), tier, w, nw, 0, plan.cases_per_process, w as usize, &tx);
        let pid = child.id();
        workers.push(WorkerState {
            child,
            w,
            current: None,
            next_from: 0,
            finished: false,
            det: HangDetector::new(pid),
            eof: false,
            pending: None,
        });
    }

    let mut evaluations = 0u64;
    let mut nontrivial: HashSet<u64> = HashSet::new();
    let mut distinct: HashSet<u64> = HashSet::new();
    let mut labels: BTreeMap<String, u64> = BTreeMap::new();
    let mut samples: Vec<Value> = Vec::new();
    let mut excluded = 0u64;
    let mut sub_evals = 0u64;
    let mut known_hits: BTreeMap<String, (u64, String)> = BTreeMap::new();
    let mut found: Option<Found> = None;
    let mut inconclusive: Option<String> = None;
    let mut last_tick = Instant::now();

    'main: loop {
        if workers.iter().all(|w| w.finished) {
            break;
        }
        match rx.recv_timeout(Duration::from_millis(250)) {
            Ok(Msg::Line(slot, line)) => {
                let ws = &mut workers[slot];
                let (tag, rest) = match line.split_once(' ') {
                    Some((t, r)) => (t, r),
                    None => (line.as_str(), ""),
                };
                match tag {
                    "S" => {
                        if let Ok(idx) = rest.parse::<u64>() {
                            ws.current = Some((idx, Instant::now()));
                            ws.det.reset();
                        }
                    }
                    "R" => {
                        if let Ok(v) = serde_json::from_str::<Value>(rest) {
                            evaluations += 1;
                            let fp = u64::from_str_radix(v["fp"].as_str().unwrap_or("0"), 16).unwrap_or(0);
                            distinct.insert(fp);
                            if v["nt"].as_bool().unwrap_or(false) {
                                nontrivial.insert(fp);
                            }
                            excluded += v["ex"].as_u64().unwrap_or(0);
                            sub_evals += v["sub"].as_u64().unwrap_or(0);
                            if let Some(ls) = v["labels"].as_array() {
                                for l in ls {
                                    if let Some(l) = l.as_str() {
                                        *labels.entry(l.to_string()).or_default() += 1;
                                    }
                                }
                            }
                            if let Some(c) = v.get("case") {
                                if samples.len() < 6 {
                                    samples.push(c.clone());
                                }
                            }
                            if let Some(idx) = v["idx"].as_u64() {
                                ws.next_from = idx + 1;
                            }
                            ws.current = None;
                        }
                    }
                    "K" => {
                        if let Ok(v) = serde_json::from_str::<Value>(rest) {
                            let sig = v["sig"].as_str().unwrap_or("").to_string();
                            let e = known_hits.entry(sig).or_insert((0, v["what"].as_str().unwrap_or("").to_string()));
                            e.0 += 1;
                        }
                    }
                    "F" => {
                        if let Ok(v) = serde_json::from_str::<Value>(rest) {
                            let idx = v["idx"].as_u64().unwrap_or(0);
                            ws.pending = Some(Found {
                                idx,
                                case: v.get("case").cloned(),
                                v: Violation { what: v["what"].as_str().unwrap_or("").to_string(), sig: v["sig"].as_str().unwrap_or("").to_string() },
                            });
                            // the cap restarts for the shrinking phase
                            ws.current = Some((idx, Instant::now()));
                        }
                    }
                    "V" => {
                        if let Ok(v) = serde_json::from_str::<Value>(rest) {
                            evaluations += 1;
                            found = Some(Found {
                                idx: v["idx"].as_u64().unwrap_or(0),
                                case: v.get("case").cloned(),
                                v: Violation {
                                    what: v["what"].as_str().unwrap_or("").to_string(),
                                    sig: v["sig"].as_str().unwrap_or("").to_string(),
                                },
                            });
                            break 'main;
                        }
                    }
                    "N" => {
                        // worker reached its per-process case budget: respawn from the given index
                        if let Ok(idx) = rest.parse::<u64>() {
                            ws.next_from = idx;
                            ws.current = None;
                        }
                    }
                    "D" => {
                        ws.current = None;
                        ws.next_from = u64::MAX;
                    }
                    _ => {}
                }
            }
            Ok(Msg::Eof(slot)) => {
                workers[slot].eof = true;
            }
            Err(mpsc::RecvTimeoutError::Timeout) => {}
            Err(mpsc::RecvTimeoutError::Disconnected) => break,
        }

        // process exits / hangs
        let check_hang = last_tick.elapsed() >= Duration::from_millis(500);
        if check_hang {
            last_tick = Instant::now();
        }
        for slot in 0..workers.len() {
            if workers[slot].finished {
                continue;
            }
            if workers[slot].eof {
                let st = workers[slot].child.wait().expect("wait worker");
                let ws = &mut workers[slot];
                if let Some(p) = ws.pending.take() {
                    // died while shrinking an announced failure: report it unshrunk
                    evaluations += 1;
                    found = Some(p);
                    break 'main;
                } else if let Some((idx, _)) = ws.current {
                    // died while running a case
                    found = Some(Found {
                        idx,
                        case: None,
                        v: Violation {
                            what: format!("the worker process crashed while running the case: {}", describe_status(&st)),
                            sig: "crash".into(),
                        },
                    });
                    break 'main;
                } else if ws.next_from == u64::MAX || ws.next_from >= total {
                    ws.finished = true;
                } else if st.success() {
                    // respawn to continue
                    let from = ws.next_from;
                    let w = ws.w;
                    let child = spawn_worker(prop.id(), tier, w, nw, from, plan.cases_per_process, slot, &tx);
                    let pid = child.id();
                    let ws = &mut workers[slot];
                    ws.child = child;
                    ws.eof = false;
                    ws.det = HangDetector::new(pid);
                } else {
                    inconclusive = Some(format!("worker {} exited unexpectedly between cases: {}", ws.w, describe_status(&st)));
                    break 'main;
                }
                continue;
            }
            if check_hang {
                let ws = &mut workers[slot];
                if let Some((idx, started)) = ws.current {
                    if ws.pending.is_some() && (started.elapsed() > Duration::from_secs(plan.hard_cap_s) || (plan.hang_detect && started.elapsed() > Duration::from_millis(700) && ws.det.sample())) {
                        // shrinking did not finish: report the announced failure as it is
                        evaluations += 1;
                        found = ws.pending.take();
                        break 'main;
                    }
                    if plan.hang_detect && started.elapsed() > Duration::from_millis(700) && ws.det.sample() {
                        let d = ws.det.describe();
                        found = Some(Found {
                            idx,
                            case: None,
                            v: Violation {
                                what: format!("deadlock: {d}"),
                                sig: "deadlock".into(),
                            },
                        });
                        break 'main;
                    }
                    if plan.hang_detect && started.elapsed() > Duration::from_secs(5) && ws.det.sample_livelock() {
                        let d = ws.det.describe_livelock();
                        found = Some(Found {
                            idx,
                            case: None,
                            v: Violation {
                                what: format!("livelock: {d}"),
                                sig: "livelock".into(),
                            },
                        });
                        break 'main;
                    }
                    if started.elapsed() > Duration::from_secs(plan.hard_cap_s) {
                        inconclusive = Some(format!("case {idx} exceeded the hard cap of {} s without being blocked", plan.hard_cap_s));
                        break 'main;
                    }
                }
            }
        }
    }

    for ws in workers.iter_mut() {
        let _ = ws.child.kill();
        let _ = ws.child.wait();
    }

    // crash / hang found by the supervisor: regenerate, confirm and shrink in children
    let mut violation_line = None;
    if let Some(mut f) = found {
        if known.iter().any(|k| k.sig == f.v.sig) && f.case.is_none() {
            // a crash/deadlock class that is listed as known: cannot continue past it reliably
            known_hits.entry(f.v.sig.clone()).or_insert((0, f.v.what.clone())).0 += 1;
        } else {
            let strat = prop.strategy(tier);
            let case = match f.case.take() {
                Some(c) => c,
                None => {
                    match case_at(&list, &strat, seed, prop.id(), f.idx) {
                        CaseSrc::Fixed(c) => c,
                        CaseSrc::Tree(tree) => {
                            let (c, v) = shrink_in_children(prop, tree, &plan, f.v.clone());
                            f.v = v;
                            c
                        }
                    }
                }
            };
            let path = write_replay(prop.id(), &case, &f.v, seed, Some(f.idx));
            violation_line = Some((path, f.v.clone(), case));
        }
    }

    // evidence
    let wall = t0.elapsed().as_secs_f64();
    let mut missing_labels = Vec::new();
    if violation_line.is_none() && inconclusive.is_none() && tier == Tier::Thorough {
        for l in prop.required_labels() {
            let n = labels.get(l).copied().unwrap_or(0);
            if (n as f64) < 0.02 * evaluations as f64 {
                missing_labels.push(l.to_string());
            }
        }
    }
    let ev = json!({
        "property_id": prop.id(),
        "tier": std::env::var("VERIF_TIER_LABEL").ok().filter(|t| t == "quick" || t == "thorough").unwrap_or_else(|| tier.name().to_string()),
        "seed": seed as i64,
        "level": prop.level(),
        "wall_s": wall,
        "violations": if violation_line.is_some() { 1 } else { 0 },
        "assumptions": prop.assumptions(),
        "coverage": {
            "evaluations": evaluations,
            "distinct": distinct.len(),
            "distinct_nontrivial": nontrivial.len(),
            "rule": prop.rule(),
            "samples": samples,
            "label_histogram": labels,
            "regression_replays": list.regress.len(),
            "enumerated": {"cases": list.enumerated.len(), "exhaustive": !list.enumerated.is_empty(), "note": prop.enumerate_note(tier)},
            "exhaustive": false,
            "random_cases_planned": list.random,
            "excluded_by_construction": excluded,
            "executions_enumerated_inside_cases": sub_evals,
            "known_finding_hits": known_hits.iter().map(|(k, v)| json!({"sig": k, "count": v.0})).collect::<Vec<_>>(),
            "workers": nw,
            "build_config": build_config(),
            "inconclusive": inconclusive,
        }
    });
    let evdir = verif_dir().join("evidence");
    let _ = std::fs::create_dir_all(&evdir);
    let evpath = evdir.join(format!("{}.json", prop.id()));
    merge_and_write_evidence(&evpath, ev);

    // one line per listed finding, whether or not this run happened to hit it
    for k in &known {
        match known_hits.get(&k.sig) {
            Some((n, what)) => println!("KNOWN-FINDING: property={} signature={} hits={} {} (e.g. {})", prop.id(), k.sig, n, k.text, what),
            None => println!("KNOWN-FINDING: property={} signature={} hits=0 {} (not reached by the cases of this run)", prop.id(), k.sig, k.text),
        }
    }
    if let Some((path, v, _case)) = violation_line {
        println!("VIOLATION property={} replay={}", prop.id(), path);
        println!("  what: {}", v.what);
        println!("  signature: {}", v.sig);
        return RunResult { exit: 1 };
    }
    if let Some(msg) = inconclusive {
        println!("INCONCLUSIVE property={} {}", prop.id(), msg);
        return RunResult { exit: 2 };
    }
    if !missing_labels.is_empty() {
        println!("HARNESS-SELF-CHECK property={} generator classes below 2%: {:?}", prop.id(), missing_labels);
        return RunResult { exit: 2 };
    }
    println!(
        "OK property={} tier={} seed={} evaluations={} distinct_nontrivial={} wall={:.1}s config={}",
        prop.id(),
        tier.name(),
        seed,
        evaluations,
        nontrivial.len(),
        wall,
        build_config()
    );
    RunResult { exit: 0 }
}

pub fn build_config() -> String {
    let mut v = vec![];
    if let Ok(extra) = std::env::var("VERIF_CONFIG_NOTE") {
        return format!("{}+{}", build_config_base(), extra);
    }
    v.push("");
    v.clear();
    build_config_base()
}

fn build_config_base() -> String {
    let mut v = vec![];
    if cfg!(feature = "ahash") {
        v.push("ahash");
    } else {
        v.push("std-hash");
    }
    if cfg!(feature = "pl") {
        v.push("parking_lot");
    } else {
        v.push("std-locks");
    }
    v.join("+")
}

/// With VERIF_EVIDENCE_MERGE=1 the counts of this run are added to the
/// evidence file already present (used for the configuration matrix of the
/// thorough tier); otherwise the file is replaced.
fn merge_and_write_evidence(path: &std::path::Path, mut ev: Value) {
    if std::env::var("VERIF_EVIDENCE_MERGE").ok().as_deref() == Some("1") {
        if let Ok(s) = std::fs::read_to_string(path) {
            if let Ok(old) = serde_json::from_str::<Value>(&s) {
                let oc = &old["coverage"];
                let add = |k: &str, ev: &mut Value| {
                    let a = oc[k].as_u64().unwrap_or(0);
                    let b = ev["coverage"][k].as_u64().unwrap_or(0);
                    ev["coverage"][k] = json!(a + b);
                };
                // distinct_nontrivial: the same generated cases are re-run under another build
                // configuration, so keep the maximum, not the sum.
                let a = oc["distinct_nontrivial"].as_u64().unwrap_or(0);
                let b = ev["coverage"]["distinct_nontrivial"].as_u64().unwrap_or(0);
                ev["coverage"]["distinct_nontrivial"] = json!(a.max(b));
                add("evaluations", &mut ev);
                add("excluded_by_construction", &mut ev);
                add("executions_enumerated_inside_cases", &mut ev);
                let mut cfgs = match &oc["configs_covered"] {
                    Value::Array(a) => a.clone(),
                    _ => vec![oc["build_config"].clone()],
                };
                cfgs.push(ev["coverage"]["build_config"].clone());
                ev["coverage"]["configs_covered"] = Value::Array(cfgs);
                let w = old["wall_s"].as_f64().unwrap_or(0.0) + ev["wall_s"].as_f64().unwrap_or(0.0);
                ev["wall_s"] = json!(w);
                let v = old["violations"].as_i64().unwrap_or(0) + ev["violations"].as_i64().unwrap_or(0);
                ev["violations"] = json!(v);
                if let Some(extra) = oc.get("fuzz") {
                    ev["coverage"]["fuzz"] = extra.clone();
                }
            }
        }
    }
    let _ = std::fs::write(path, serde_json::to_string_pretty(&ev).unwrap());
}

/// `vcheck <ID> --replay FILE`
pub fn replay_main(prop: &dyn Prop, file: &str) -> i32 {
    let s = match std::fs::read_to_string(file) {
        Ok(s) => s,
        Err(e) => {
            println!("cannot read {file}: {e}");
            return 2;
        }
    };
    let doc: Value = match serde_json::from_str(&s) {
        Ok(v) => v,
        Err(e) => {
            println!("cannot parse {file}: {e}");
            return 2;
        }
    };
    let case = doc.get("case").cloned().unwrap_or(doc);
    let plan = prop.plan(Tier::Quick);
    let verdict = run_case_in_child(prop, &case, plan.repeats.max(5), plan.hang_detect, plan.hard_cap_s);
    match verdict.to_violation() {
        Some(v) => {
            println!("VIOLATION property={} replay={}", prop.id(), file);
            println!("  what: {}", v.what);
            println!("  signature: {}", v.sig);
            1
        }
        None => match verdict {
            ChildVerdict::Inconclusive(m) => {
                println!("INCONCLUSIVE property={} {}", prop.id(), m);
                2
            }
            _ => {
                println!("OK property={} replay={} passes", prop.id(), file);
                0
            }
        },
    }
}

/// The JSON of the case with the given index of a run (regressions, enumerated, then random).
pub fn print_case(prop: &dyn Prop, tier: Tier, idx: u64) -> String {
    let list = CaseList::build(prop, tier);
    let strat = prop.strategy(tier);
    let case = match case_at(&list, &strat, verif_seed(), prop.id(), idx) {
        CaseSrc::Fixed(v) => v,
        CaseSrc::Tree(t) => t.current(),
    };
    serde_json::to_string(&case).unwrap()
}
