use vharness::engine::{self, Tier};

#[cfg(feature = "checkalloc")]
#[global_allocator]
static GLOBAL: vharness::calloc::CheckAlloc = vharness::calloc::CheckAlloc;

fn usage() -> ! {
    eprintln!("usage: vcheck <ID> <quick|thorough> | vcheck <ID> --replay FILE | vcheck --list");
    std::process::exit(2)
}

fn main() {
    #[cfg(feature = "checkalloc")]
    {
        vharness::calloc::INSTALLED.store(true, std::sync::atomic::Ordering::Relaxed);
        vharness::calloc::enable();
    }
    // Panics the properties expect are caught by them; keep stderr quiet.
    if std::env::var("VERIF_VERBOSE_PANICS").is_err() {
        std::panic::set_hook(Box::new(|_| {}));
    }
    vharness::tracelog::install_if_requested();
    let args: Vec<String> = std::env::args().skip(1).collect();
    if args.is_empty() {
        usage();
    }
    let code = match args[0].as_str() {
        "--list" => {
            for p in vharness::props::all() {
                println!("{}", p.id());
            }
            0
        }
        "--worker" => {
            let prop = vharness::props::by_id(&args[1]).expect("property");
            let tier = Tier::parse(&args[2]).expect("tier");
            let w: u64 = args[3].parse().unwrap();
            let nw: u64 = args[4].parse().unwrap();
            let from: u64 = args[5].parse().unwrap();
            let max: u64 = args[6].parse().unwrap();
            engine::worker_main(&*prop, tier, w, nw, from, max)
        }
        "--print-case" => {
            // vcheck --print-case <ID> <tier> <idx>: the generated case of that index (with the current VERIF_SEED)
            let prop = vharness::props::by_id(&args[1]).expect("property");
            let tier = Tier::parse(&args[2]).expect("tier");
            let idx: u64 = args[3].parse().unwrap();
            println!("{}", engine::print_case(&*prop, tier, idx));
            0
        }
        "--gen-embed-trees" => {
            // (maintenance) writes the 12 fixed trees that c04 embeds at compile time
            vharness::props::c04::generate_fixed_trees(std::path::Path::new(&args[1]));
            0
        }
        "--fuzz-one" => {
            // vcheck --fuzz-one <ID> <file>: run one libFuzzer input through the fuzz driver (natively)
            let data = std::fs::read(&args[2]).unwrap_or_default();
            vharness::fuzz::fuzz_one(&args[1], &data);
            println!("ok");
            0
        }
        "--run-case" => {
            let prop = vharness::props::by_id(&args[1]).expect("property");
            let repeats: u32 = args[2].parse().unwrap();
            engine::run_case_main(&*prop, repeats)
        }
        id => {
            let prop = match vharness::props::by_id(id) {
                Some(p) => p,
                None => {
                    eprintln!("unknown property {id}");
                    std::process::exit(2)
                }
            };
            if args.len() >= 3 && args[1] == "--replay" {
                engine::replay_main(&*prop, &args[2])
            } else {
                let tier = args
                    .get(1)
                    .and_then(|s| Tier::parse(s))
                    .or_else(|| std::env::var("VERIF_TIER").ok().and_then(|s| Tier::parse(&s)))
                    .unwrap_or(Tier::Quick);
                engine::supervise(&*prop, tier).exit
            }
        }
    };
    std::process::exit(code);
}
