//! C08 - hot_reload always returns: no deadlock, no crash, any number of callers.

use super::hot::{self, Content, NodeDef, LEAVES};
use crate::engine::{from_case, to_case, Outcome, Plan, Prop, Tier};
use crate::memsrc::{self, OwnedEntry, Variant};
use crate::world::{self, Kind, ROp, SecondCache, World};
use proptest::prelude::*;
use serde::{Deserialize, Serialize};
use serde_json::Value;
use std::sync::atomic::{AtomicBool, AtomicU64, Ordering::SeqCst};
use std::sync::Arc;

#[derive(Debug, Clone, Serialize, Deserialize)]
pub struct Case {
    nodes: Vec<NodeDef>,
    callers: u8,
    iters: u16,
    loaders: u8,
    /// bursts of (leaf index, value) edits sent while the callers run
    bursts: Vec<Vec<(u8, u16)>>,
    batched: bool,
    /// a node loading `.0` leaves at first and `.1` (never seen before) after a rewrite sent with the first burst
    #[serde(default)]
    pack: Option<(u16, u16)>,
    /// the source drops its event sender after that many rounds of bursts (a watcher that dies): the reloader
    /// thread ends, later hot_reload calls must degrade to no-ops
    #[serde(default)]
    watcher_dies_after: Option<u8>,
}

static STARTED: AtomicU64 = AtomicU64::new(0);
static FINISHED: AtomicU64 = AtomicU64::new(0);
static IDLE_ACTIVITY: AtomicU64 = AtomicU64::new(0);
static MAX_IN_FLIGHT: AtomicU64 = AtomicU64::new(0);
static WATCH_TAG: AtomicU64 = AtomicU64::new(0);
static HARNESS_TIDS: std::sync::Mutex<Vec<u32>> = std::sync::Mutex::new(Vec::new());

pub struct C08;

fn cyclic_op(n: usize, kinds: Vec<Kind>) -> BoxedStrategy<ROp> {
    let k2 = kinds.clone();
    prop_oneof![
        4 => (0..LEAVES.len(), any::<bool>()).prop_map(|(i, tolerant)| ROp::L { kind: Kind::Leaf, id: LEAVES[i].to_string(), tolerant }),
        // look-ups of ANY node, including itself and nodes that look it up (cycles)
        6 => (0..n).prop_map(move |j| ROp::G { kind: kinds[j], id: format!("n{j}") }),
        2 => (0..LEAVES.len()).prop_map(|i| ROp::G { kind: Kind::Leaf, id: LEAVES[i].to_string() }),
        2 => (0u16..40).prop_map(ROp::Work),
        1 => (0..n).prop_map(move |j| ROp::NR(vec![ROp::G { kind: k2[j], id: format!("n{j}") }])),
    ]
    .boxed()
}

impl Prop for C08 {
    fn id(&self) -> &'static str {
        "C08"
    }

    fn rule(&self) -> String {
        "cases = (1..6 compound nodes whose recipes load leaves and get_cached ANY node - themselves and each other, so that look-up cycles of every length arise - with generated busy work in the loader; \
         1..8 threads each calling hot_reload 20..300 times; 0..3 threads loading and inserting concurrently; bursts of notified edits (single or batched) sent meanwhile; optionally a node that after a rewrite loads 100..1500 never-seen assets within one reload; in a fifth of the cases the source drops its event sender after 0..3 rounds (a watcher that dies: the reloader thread ends and the remaining calls must degrade to no-ops)). \
         Oracle: every call returns (the supervisor's blocked-state detector: all threads asleep with zero CPU while the case is unfinished = deadlock; never a timeout), the process does not abort (worker exit status), \
         and the reloader never loads or reads while no thread is inside hot_reload (a caller released by somebody else's answer leaves its own request to be served later), and after all callers returned a freshly notified change is still applied within 4000 calls (unless the watcher died). \
         non-trivial = at least two hot_reload requests were in flight at once, or a look-up cycle received an event; distinct = different canonical JSON"
            .into()
    }

    fn level(&self) -> &'static str {
        "exploration"
    }

    fn assumptions(&self) -> Vec<String> {
        vec![
            "liveness is decided as bounded safety: no all-blocked state and no abort in the explored executions".into(),
            "schedules are shaped (many callers, busy loaders, bursts) and sampled".into(),
        ]
    }

    fn plan(&self, tier: Tier) -> Plan {
        let mut p = Plan::new(match tier {
            Tier::Quick => 250,
            Tier::Thorough => 2500,
        });
        p.workers = 3;
        p.repeats = 3;
        p.cases_per_process = 60;
        p
    }

    fn strategy(&self, _tier: Tier) -> BoxedStrategy<Value> {
        prop::collection::vec(prop_oneof![Just(Kind::N0), Just(Kind::N1)], 1..6)
            .prop_flat_map(|kinds| {
                let n = kinds.len();
                let recipes: Vec<BoxedStrategy<Vec<ROp>>> = (0..n).map(|_| prop::collection::vec(cyclic_op(n, kinds.clone()), 1..5).boxed()).collect();
                (
                    Just(kinds),
                    recipes,
                    1u8..9,
                    20u16..300,
                    0u8..4,
                    prop::collection::vec(prop::collection::vec((0u8..LEAVES.len() as u8, 0u16..1000), 1..6), 1..8),
                    any::<bool>(),
                    prop_oneof![3 => Just(None), 1 => (0u16..20, 100u16..1500).prop_map(Some)],
                    prop_oneof![4 => Just(None), 1 => (0u8..4).prop_map(Some)],
                )
            })
            .prop_map(|(kinds, recipes, callers, iters, loaders, bursts, batched, pack, watcher_dies_after)| {
                let nodes = kinds.iter().enumerate().map(|(i, k)| NodeDef { kind: *k, id: format!("n{i}"), ops: recipes[i].clone() }).collect();
                to_case(&Case { nodes, callers, iters, loaders, bursts, batched, pack, watcher_dies_after })
            })
            .boxed()
    }

    fn run(&self, case: &Value) -> Outcome {
        let c: Case = from_case(case);
        let mut out = Outcome::new();
        let w = World::new(false, SecondCache::None);
        {
            let mut t = w.src.tree();
            for l in LEAVES {
                t.put(l, "la", Content::Ok(0).bytes(), Variant::Buffer);
            }
            for n in &c.nodes {
                t.put(&n.id, n.kind.recipe_ext(), world::recipe_bytes(&n.ops), Variant::Buffer);
            }
            if let Some((first, later)) = c.pack {
                for i in 0..first.max(later) {
                    t.put(&format!("m{i}"), "la", b"ok:m".to_vec(), Variant::Buffer);
                }
                t.put("pack", "n0", world::recipe_bytes(&[ROp::Many(first)]), Variant::Buffer);
            }
        }
        if c.pack.is_some() {
            let _ = w.top_load(Kind::N0, "pack");
        }
        // two rounds of loads so that look-ups of later nodes find them
        for _ in 0..2 {
            for n in &c.nodes {
                let _ = std::panic::catch_unwind(std::panic::AssertUnwindSafe(|| w.top_load(n.kind, &n.id)));
            }
            // second round: reload everything once so that G edges are recorded with all nodes cached
            for n in &c.nodes {
                w.src.send(&OwnedEntry::File(n.id.clone(), n.kind.recipe_ext().to_string()));
            }
        }
        STARTED.store(0, SeqCst);
        FINISHED.store(0, SeqCst);
        IDLE_ACTIVITY.store(0, SeqCst);
        MAX_IN_FLIGHT.store(0, SeqCst);
        WATCH_TAG.store(w.tag as u64, SeqCst);
        HARNESS_TIDS.lock().unwrap().clear();
        HARNESS_TIDS.lock().unwrap().push(crate::procfs::gettid());
        // watch source activity of the reloader thread against the in-flight bracket
        memsrc::set_observer(Some(Arc::new(|tag, _entry| {
            if tag as u64 != WATCH_TAG.load(SeqCst) {
                return;
            }
            thread_local! {
                static IS_HARNESS: std::cell::Cell<Option<bool>> = const { std::cell::Cell::new(None) };
            }
            let harness = IS_HARNESS.with(|c| match c.get() {
                Some(h) => h,
                None => {
                    let h = HARNESS_TIDS.lock().unwrap().contains(&crate::procfs::gettid());
                    c.set(Some(h));
                    h
                }
            });
            if harness {
                return;
            }
            let f = FINISHED.load(SeqCst);
            let s = STARTED.load(SeqCst);
            if s == f {
                IDLE_ACTIVITY.fetch_add(1, SeqCst);
            }
        })));
        let stop = AtomicBool::new(false);
        let done = (std::sync::Mutex::new(false), std::sync::Condvar::new());
        let cache = w.cache;
        let src = &w.src;
        std::thread::scope(|s| {
            let mut callers = Vec::new();
            for _ in 0..c.callers {
                callers.push(s.spawn(|| {
                    HARNESS_TIDS.lock().unwrap().push(crate::procfs::gettid());
                    for _ in 0..c.iters {
                        let st = STARTED.fetch_add(1, SeqCst) + 1;
                        MAX_IN_FLIGHT.fetch_max(st - FINISHED.load(SeqCst), SeqCst);
                        cache.hot_reload();
                        FINISHED.fetch_add(1, SeqCst);
                    }
                }));
            }
            for t in 0..c.loaders {
                let stop = &stop;
                let done = &done;
                s.spawn(move || {
                    HARNESS_TIDS.lock().unwrap().push(crate::procfs::gettid());
                    let mut i = 0u64;
                    while !stop.load(SeqCst) {
                        i += 1;
                        let _ = cache.load::<world::Leaf>(LEAVES[(i as usize) % LEAVES.len()]);
                        cache.get_or_insert::<u64>(&format!("t{t}_{i}"), i);
                        if i % 7 == 0 {
                            let _ = cache.load_owned::<world::Leaf>(LEAVES[(i as usize + 1) % LEAVES.len()]);
                        }
                        if i > 4000 {
                            // enough pressure: block (no CPU, so that a deadlock of the callers leaves every
                            // thread asleep) until the callers are done
                            let mut g = done.0.lock().unwrap();
                            while !*g {
                                g = done.1.wait(g).unwrap();
                            }
                        }
                    }
                });
            }
            // the event source
            {
                let stop = &stop;
                let c = &c;
                s.spawn(move || {
                    HARNESS_TIDS.lock().unwrap().push(crate::procfs::gettid());
                    let mut round = 0u32;
                    if let Some((_, later)) = c.pack {
                        // the pack now loads many assets nobody has seen yet, all within one reload
                        src.tree().put("pack", "n0", world::recipe_bytes(&[ROp::Many(later)]), Variant::Buffer);
                        src.send(&OwnedEntry::File("pack".to_string(), "n0".to_string()));
                    }
                    while !stop.load(SeqCst) && round < 200 {
                        if c.watcher_dies_after == Some(round.min(255) as u8) {
                            src.drop_sender();
                        }
                        for burst in &c.bursts {
                            let mut notes = Vec::new();
                            for (l, v) in burst {
                                let id = LEAVES[*l as usize];
                                src.tree().put(id, "la", format!("ok:v{}", *v as u32 + round).into_bytes(), Variant::Buffer);
                                notes.push(OwnedEntry::File(id.to_string(), "la".to_string()));
                            }
                            if c.batched {
                                src.send_multiple(&notes);
                            } else {
                                for n in &notes {
                                    src.send(n);
                                }
                            }
                            std::thread::yield_now();
                        }
                        round += 1;
                    }
                });
            }
            for cj in callers {
                let _ = cj.join();
            }
            stop.store(true, SeqCst);
            *done.0.lock().unwrap() = true;
            done.1.notify_all();
        });
        // a last synchronous pass: still answers
        STARTED.fetch_add(1, SeqCst);
        cache.hot_reload();
        FINISHED.fetch_add(1, SeqCst);
        // and the reloader still works: a change notified now is applied within a bounded number of calls
        // (a reloader wedged by a caller that left with somebody else's answer would never apply it)
        let mut w = w;
        if c.watcher_dies_after.is_none() {
            STARTED.fetch_add(1, SeqCst);
            let alive = w.barrier_bounded(4000);
            FINISHED.fetch_add(1, SeqCst);
            if !alive {
                out.fail("reloader-wedged", "after all callers returned, a notified change of a loaded asset was not applied by 4000 further hot_reload calls: the reloader no longer serves requests (calls return without their own request having been answered)");
            }
        }
        let idle = IDLE_ACTIVITY.load(SeqCst);
        if idle > 0 {
            out.fail("reloader-active-with-no-call-in-flight", format!("the reloader thread accessed the source {idle} time(s) while no thread was inside hot_reload: some caller was released before its own request was served"));
        }
        if MAX_IN_FLIGHT.load(SeqCst) >= 2 {
            out.nontrivial = true;
            out.label("requests-queued>=2");
        }
        // does the graph contain a look-up cycle?
        let n = c.nodes.len();
        let mut adj = vec![vec![false; n]; n];
        for (i, nd) in c.nodes.iter().enumerate() {
            for op in &nd.ops {
                let mut ops = vec![op];
                if let ROp::NR(sub) = op {
                    ops = sub.iter().collect();
                }
                for o in ops {
                    if let ROp::G { id, .. } = o {
                        if let Some(j) = id.strip_prefix('n').and_then(|x| x.parse::<usize>().ok()) {
                            if j < n && !matches!(op, ROp::NR(_)) {
                                adj[i][j] = true;
                            }
                        }
                    }
                }
            }
        }
        for k in 0..n {
            for i in 0..n {
                for j in 0..n {
                    if adj[i][k] && adj[k][j] {
                        adj[i][j] = true;
                    }
                }
            }
        }
        if (0..n).any(|i| adj[i][i]) {
            out.nontrivial = true;
            out.label("lookup-cycle");
        }
        if c.loaders > 0 {
            out.label("concurrent-loaders");
        }
        if c.pack.is_some() {
            out.label("many-new-assets-in-one-reload");
        }
        if c.watcher_dies_after.is_some() {
            out.label("watcher-died-while-callers-run");
        }
        let _ = hot::LEAVES;
        drop(w);
        out
    }

    fn required_labels(&self) -> Vec<&'static str> {
        vec!["requests-queued>=2", "lookup-cycle", "concurrent-loaders", "watcher-died-while-callers-run"]
    }
}
