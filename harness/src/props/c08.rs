//! C08 - hot_reload always returns: no deadlock, no crash, any number of callers.

use super::hot::{self, Content, NodeDef, LEAVES};
use crate::engine::{from_case, to_case, Outcome, Plan, Prop, Tier};
use crate::memsrc::{self, OwnedEntry, Variant};
use crate::world::{self, Kind, ROp, SecondCache, World};
use proptest::prelude::*;
use serde::{Deserialize, Serialize};
use serde_json::Value;
use std::sync::atomic::{AtomicBool, AtomicU64, Ordering::SeqCst};
use std::sync::Arc;

#[derive(Debug, Clone, Serialize, Deserialize)]
pub struct Case {
    nodes: Vec<NodeDef>,
    callers: u8,
    iters: u16,
    loaders: u8,
    /// bursts of (leaf index, value) edits sent while the callers run
    bursts: Vec<Vec<(u8, u16)>>,
    batched: bool,
    /// a node loading `.0` leaves at first and `.1` (never seen before) after a rewrite sent with the first burst
    #[serde(default)]
    pack: Option<(u16, u16)>,
    /// the source drops its event sender after that many rounds of bursts (a watcher that dies): the reloader
    /// thread ends, later hot_reload calls must degrade to no-ops
    #[serde(default)]
    watcher_dies_after: Option<u8>,
    /// afterwards: that many notifications of one leaf are sent back to back by a feeder thread while a single
    /// caller keeps calling hot_reload: one call is one pass, it reloads the leaf at most once
    #[serde(default)]
    stream: u16,
    /// afterwards: rounds of {fresh cache, 2..6 callers spinning on hot_reload, the source drops its sender at a
    /// swept moment}: every caller must come back (the reloader stops while requests are in flight)
    #[serde(default)]
    stop_races: u16,
    /// afterwards: that many threads flood the event channel with notifications nobody depends on while one
    /// hot_reload call is made: the call handles what was queued when it arrived, not the flood
    #[serde(default)]
    flood: u8,
    /// afterwards: a dependency chain of that many assets is reloaded by one call
    #[serde(default)]
    chain: u16,
}

static STARTED: AtomicU64 = AtomicU64::new(0);
static FINISHED: AtomicU64 = AtomicU64::new(0);
static IDLE_ACTIVITY: AtomicU64 = AtomicU64::new(0);
static MAX_IN_FLIGHT: AtomicU64 = AtomicU64::new(0);
static WATCH_TAG: AtomicU64 = AtomicU64::new(0);
static HARNESS_TIDS: std::sync::Mutex<Vec<u32>> = std::sync::Mutex::new(Vec::new());
static STREAM_READS: AtomicU64 = AtomicU64::new(0);

/// Link k of a chain loads link k-1; link 0 reads the file `chain.v`.
struct Link(u64);
impl assets_manager::Compound for Link {
    fn load(cache: assets_manager::AnyCache, id: &assets_manager::SharedString) -> Result<Self, assets_manager::BoxedError> {
        let k: usize = id[1..].parse()?;
        Ok(Link(if k == 0 { cache.load::<crate::props::common::Ver>("chain")?.read().0 } else { cache.load::<Link>(&format!("c{}", k - 1))?.read().0 + 1 }))
    }
}

/// A dependency chain of `len` assets, loaded bottom-up (no deep recursion on the loading thread); then the file at
/// its bottom changes: one hot_reload call re-loads the whole chain on the reloader thread (whose walk over the
/// graph is recursive) and returns; the top holds the new value.
fn deep_chain(len: u16, out: &mut Outcome) {
    use crate::memsrc::MemSource;
    use assets_manager::AssetCache;
    let src = MemSource::new(true);
    src.tree().put("chain", "v", b"0".to_vec(), Variant::Buffer);
    let cache = AssetCache::with_source(src.handle());
    for k in 0..=len {
        if cache.load::<Link>(&format!("c{k}")).is_err() {
            out.fail("harness", format!("chain link {k} did not load"));
            return;
        }
    }
    src.tree().put("chain", "v", b"100000".to_vec(), Variant::Buffer);
    src.send(&OwnedEntry::File("chain".into(), "v".into()));
    cache.hot_reload();
    let top = cache.get_cached::<Link>(&format!("c{len}")).map(|h| h.read().0);
    if top != Some(100_000 + len as u64) {
        out.fail(
            "reload-lost",
            format!("a chain of {len} assets: the file at its bottom changed and was notified before hot_reload was called; after the call the top link holds {top:?}, expected {}", 100_000 + len as u64),
        );
    }
    out.label("deep-dependency-chain");
}

/// A panic payload whose destructor panics too (unless its thread is already unwinding).
struct PayloadBomb;
impl Drop for PayloadBomb {
    fn drop(&mut self) {
        if !std::thread::panicking() {
            panic!("the destructor of a panic payload panics");
        }
    }
}
/// Loads a number; the number 666 makes the loader panic with a `PayloadBomb`.
struct Touchy(#[allow(dead_code)] u64);
impl assets_manager::loader::Loader<Touchy> for Touchy {
    fn load(content: std::borrow::Cow<[u8]>, _: &str) -> Result<Touchy, assets_manager::BoxedError> {
        let v: u64 = std::str::from_utf8(&content)?.trim().parse()?;
        if v == 666 {
            std::panic::panic_any(PayloadBomb);
        }
        Ok(Touchy(v))
    }
}
impl assets_manager::Asset for Touchy {
    const EXTENSION: &'static str = "tc";
    type Loader = Touchy;
}

/// A loader panics during a reload with a payload whose destructor panics when the payload is discarded: whatever
/// that does to the hot-reloading thread, the hot_reload call in flight returns, and so does the next one.
fn panicking_payload() {
    use crate::memsrc::MemSource;
    use assets_manager::AssetCache;
    let src = MemSource::new(true);
    src.tree().put("t", "tc", b"1".to_vec(), Variant::Buffer);
    let cache = AssetCache::with_source(src.handle());
    let _ = cache.load::<Touchy>("t");
    src.tree().put("t", "tc", b"666".to_vec(), Variant::Buffer);
    src.send(&OwnedEntry::File("t".into(), "tc".into()));
    std::thread::scope(|s| {
        // a call that is never answered blocks here for good: the blocked-state detector reports it
        s.spawn(|| cache.hot_reload());
    });
    cache.hot_reload();
}

/// Threads call hot_reload while another thread switches the ('static) cache to enhance_hot_reloading, at a swept
/// instant: every call returns ("subsequent calls to hot_reload have no effect" - they still return). The caches
/// are leaked, as a 'static cache is; their reloaders sleep once the trial is over.
fn enhance_races(trials: u8, callers: u8) {
    use crate::memsrc::MemSource;
    use assets_manager::AssetCache;
    for trial in 0..trials as u64 {
        let src = MemSource::new(true);
        src.tree().put("a", "v", b"1".to_vec(), Variant::Buffer);
        let cache: &'static AssetCache<MemSource> = Box::leak(Box::new(AssetCache::with_source(src.handle())));
        let _ = cache.load::<crate::props::common::Ver>("a");
        let go = AtomicBool::new(false);
        std::thread::scope(|s| {
            for _ in 0..callers {
                s.spawn(|| {
                    while !go.load(SeqCst) {
                        std::hint::spin_loop();
                    }
                    for _ in 0..60 {
                        cache.hot_reload();
                    }
                });
            }
            go.store(true, SeqCst);
            for _ in 0..(trial * 37) % 600 {
                std::hint::spin_loop();
            }
            cache.enhance_hot_reloading();
            // a caller that is never answered blocks here for good: the blocked-state detector reports it
        });
    }
}

/// One hot_reload call against `producers` threads flooding the event channel. Progress is counted in events
/// sent, not in time: the call must be back before the producers have sent `LIMIT` more events.
fn flood(producers: u8, out: &mut Outcome) {
    use crate::memsrc::MemSource;
    use assets_manager::AssetCache;
    const LIMIT: u64 = 5_000_000;
    let src = MemSource::new(true);
    src.tree().put("a", "v", b"1".to_vec(), Variant::Buffer);
    let cache = AssetCache::with_source(src.handle());
    let _ = cache.load::<crate::props::common::Ver>("a");
    let Some(sender) = src.sender() else { return };
    let sent = AtomicU64::new(0);
    let stop = AtomicBool::new(false);
    let during = std::thread::scope(|s| {
        for _ in 0..producers {
            let (sender, sent, stop) = (sender.clone(), &sent, &stop);
            s.spawn(move || {
                let e = assets_manager::source::OwnedDirEntry::File("a".into(), "zz".into());
                while !stop.load(SeqCst) && sent.load(SeqCst) < 2 * LIMIT {
                    let _ = sender.send(e.clone());
                    sent.fetch_add(1, SeqCst);
                }
            });
        }
        // let the flood build up a little
        while sent.load(SeqCst) < 20_000 {
            std::hint::spin_loop();
        }
        let before = sent.load(SeqCst);
        cache.hot_reload();
        let during = sent.load(SeqCst) - before;
        stop.store(true, SeqCst);
        during
    });
    if during >= LIMIT {
        out.fail(
            "call-lasts-as-long-as-the-flood",
            format!("{producers} threads were sending notifications (for an entry nothing depends on) when hot_reload was called: the call returned only after {during} more notifications had been sent - it is not a bounded amount of work"),
        );
    }
    out.label("notification-flood");
}

/// The source handed to the reloader thread: its destructor (run when that thread stops, just before the thread
/// tells the waiting callers that it is gone) parks until the harness releases it, so that the stop can be aimed
/// at the instant the callers enter hot_reload.
struct ParkedOnDrop {
    inner: Box<dyn assets_manager::source::Source + Send>,
    gate: Arc<StopGate>,
}
#[derive(Default)]
struct StopGate {
    parked: AtomicBool,
    released: AtomicBool,
}
impl assets_manager::source::Source for ParkedOnDrop {
    fn read(&self, id: &str, ext: &str) -> std::io::Result<assets_manager::source::FileContent<'_>> {
        self.inner.read(id, ext)
    }
    fn read_dir(&self, id: &str, f: &mut dyn FnMut(assets_manager::source::DirEntry)) -> std::io::Result<()> {
        self.inner.read_dir(id, f)
    }
    fn exists(&self, entry: assets_manager::source::DirEntry) -> bool {
        self.inner.exists(entry)
    }
}
impl Drop for ParkedOnDrop {
    fn drop(&mut self) {
        self.gate.parked.store(true, SeqCst);
        let mut spins = 0u64;
        while !self.gate.released.load(SeqCst) && spins < 50_000_000 {
            spins += 1;
            if spins % 256 == 0 {
                std::thread::yield_now();
            } else {
                std::hint::spin_loop();
            }
        }
    }
}
struct GateSource {
    inner: crate::memsrc::MemSource,
    gate: Arc<StopGate>,
}
impl assets_manager::source::Source for GateSource {
    fn read(&self, id: &str, ext: &str) -> std::io::Result<assets_manager::source::FileContent<'_>> {
        self.inner.read(id, ext)
    }
    fn read_dir(&self, id: &str, f: &mut dyn FnMut(assets_manager::source::DirEntry)) -> std::io::Result<()> {
        self.inner.read_dir(id, f)
    }
    fn exists(&self, entry: assets_manager::source::DirEntry) -> bool {
        self.inner.exists(entry)
    }
    fn make_source(&self) -> Option<Box<dyn assets_manager::source::Source + Send>> {
        Some(Box::new(ParkedOnDrop { inner: self.inner.make_source()?, gate: self.gate.clone() }))
    }
    fn configure_hot_reloading(&self, events: assets_manager::hot_reloading::EventSender) -> Result<(), assets_manager::BoxedError> {
        self.inner.configure_hot_reloading(events)
    }
}

/// Rounds of a reloader that stops (its source lets go of the sender) at the instant callers enter hot_reload.
fn stop_races(rounds: u16, callers: u8) {
    use crate::memsrc::MemSource;
    use assets_manager::AssetCache;
    for round in 0..rounds as u32 {
        let src = MemSource::new(true);
        src.tree().put("a", "v", b"1".to_vec(), Variant::Buffer);
        let gate = Arc::new(StopGate::default());
        let cache = AssetCache::with_source(GateSource { inner: src.handle(), gate: gate.clone() });
        let _ = cache.load::<crate::props::common::Ver>("a");
        cache.hot_reload();
        // the watcher dies: the reloader leaves its loop and parks in the destructor of its source
        src.drop_sender();
        let mut spins = 0u64;
        while !gate.parked.load(SeqCst) && spins < 20_000_000 {
            spins += 1;
            std::hint::spin_loop();
        }
        let sb = crate::props::common::SpinBarrier::new(callers as usize + 1);
        std::thread::scope(|s| {
            for k in 0..callers as u32 {
                let (cache, sb) = (&cache, &sb);
                s.spawn(move || {
                    sb.wait();
                    for _ in 0..((round * 13 + k * 29) % 61) * 3 {
                        std::hint::spin_loop();
                    }
                    // a caller that is never released leaves every thread asleep: blocked-state detector
                    cache.hot_reload();
                    cache.hot_reload();
                });
            }
            sb.wait();
            for _ in 0..((round * 7) % 53) * 3 {
                std::hint::spin_loop();
            }
            gate.released.store(true, SeqCst);
        });
    }
}

pub struct C08;

fn cyclic_op(n: usize, kinds: Vec<Kind>) -> BoxedStrategy<ROp> {
    let k2 = kinds.clone();
    prop_oneof![
        4 => (0..LEAVES.len(), any::<bool>()).prop_map(|(i, tolerant)| ROp::L { kind: Kind::Leaf, id: LEAVES[i].to_string(), tolerant }),
        // look-ups of ANY node, including itself and nodes that look it up (cycles)
        6 => (0..n).prop_map(move |j| ROp::G { kind: kinds[j], id: format!("n{j}") }),
        2 => (0..LEAVES.len()).prop_map(|i| ROp::G { kind: Kind::Leaf, id: LEAVES[i].to_string() }),
        2 => (0u16..40).prop_map(ROp::Work),
        1 => (0..n).prop_map(move |j| ROp::NR(vec![ROp::G { kind: k2[j], id: format!("n{j}") }])),
    ]
    .boxed()
}

impl Prop for C08 {
    fn id(&self) -> &'static str {
        "C08"
    }

    fn rule(&self) -> String {
        "cases = (1..6 compound nodes whose recipes load leaves and get_cached ANY node - themselves and each other, so that look-up cycles of every length arise - with generated busy work in the loader; \
         1..8 threads each calling hot_reload 20..300 times; 0..3 threads loading and inserting concurrently; bursts of notified edits (single or batched) sent meanwhile; optionally a node that after a rewrite loads 100..1500 never-seen assets within one reload; in a fifth of the cases the source drops its event sender after 0..3 rounds (a watcher that dies: the reloader thread ends and the remaining calls must degrade to no-ops); in a third of the cases 100..600 notifications of one leaf are then sent back to back while one caller keeps calling (one call = one pass: the leaf is read at most once per call); in a quarter 100..500 rounds of {fresh cache whose reloader is parked in the destructor of its source after the sender was dropped, then released at a swept instant against 2..6 callers entering hot_reload}; in a sixth one hot_reload call against 3..6 threads flooding the event channel (the call must be back before 5 million more notifications were sent). \
         in one case in twelve 2..4 threads call hot_reload on a leaked ('static) cache while another thread calls enhance_hot_reloading at a swept instant (6 trials); in a fifth of the cases a loader panics during a reload with a payload whose own destructor panics; Oracle: every call returns (the supervisor's blocked-state detector: all threads asleep with zero CPU while the case is unfinished = deadlock; never a timeout), the process does not abort (worker exit status), \
         and the reloader never loads or reads while no thread is inside hot_reload (a caller released by somebody else's answer leaves its own request to be served later), and after all callers returned a freshly notified change is still applied within 4000 calls (unless the watcher died). \
         non-trivial = at least two hot_reload requests were in flight at once, or a look-up cycle received an event; distinct = different canonical JSON"
            .into()
    }

    fn level(&self) -> &'static str {
        "exploration"
    }

    fn assumptions(&self) -> Vec<String> {
        vec![
            "liveness is decided as bounded safety: no all-blocked state and no abort in the explored executions".into(),
            "schedules are shaped (many callers, busy loaders, bursts) and sampled".into(),
        ]
    }

    fn plan(&self, tier: Tier) -> Plan {
        let mut p = Plan::new(match tier {
            Tier::Quick => 250,
            Tier::Thorough => 2500,
        });
        p.workers = 3;
        p.repeats = 3;
        p.cases_per_process = 60;
        p
    }

    fn strategy(&self, _tier: Tier) -> BoxedStrategy<Value> {
        prop::collection::vec(prop_oneof![Just(Kind::N0), Just(Kind::N1)], 1..6)
            .prop_flat_map(|kinds| {
                let n = kinds.len();
                let recipes: Vec<BoxedStrategy<Vec<ROp>>> = (0..n).map(|_| prop::collection::vec(cyclic_op(n, kinds.clone()), 1..5).boxed()).collect();
                (
                    Just(kinds),
                    recipes,
                    1u8..9,
                    20u16..300,
                    0u8..4,
                    prop::collection::vec(prop::collection::vec((0u8..LEAVES.len() as u8, 0u16..1000), 1..6), 1..8),
                    any::<bool>(),
                    prop_oneof![3 => Just(None), 1 => (0u16..20, 100u16..1500).prop_map(Some)],
                    prop_oneof![4 => Just(None), 1 => (0u8..4).prop_map(Some)],
                    prop_oneof![2 => Just(0u16), 1 => 100u16..600],
                    prop_oneof![3 => Just(0u16), 1 => 100u16..500],
                    (prop_oneof![5 => Just(0u8), 1 => 3u8..7], prop_oneof![5 => Just(0u16), 1 => 1500u16..3000]),
                )
            })
            .prop_map(|(kinds, recipes, callers, iters, loaders, bursts, batched, pack, watcher_dies_after, stream, stop_races, (flood, chain))| {
                let nodes = kinds.iter().enumerate().map(|(i, k)| NodeDef { kind: *k, id: format!("n{i}"), ops: recipes[i].clone() }).collect();
                to_case(&Case { nodes, callers, iters, loaders, bursts, batched, pack, watcher_dies_after, stream, stop_races, flood, chain })
            })
            .boxed()
    }

    fn run(&self, case: &Value) -> Outcome {
        let c: Case = from_case(case);
        let mut out = Outcome::new();
        let w = World::new(false, SecondCache::None);
        {
            let mut t = w.src.tree();
            for l in LEAVES {
                t.put(l, "la", Content::Ok(0).bytes(), Variant::Buffer);
            }
            for n in &c.nodes {
                t.put(&n.id, n.kind.recipe_ext(), world::recipe_bytes(&n.ops), Variant::Buffer);
            }
            if let Some((first, later)) = c.pack {
                for i in 0..first.max(later) {
                    t.put(&format!("m{i}"), "la", b"ok:m".to_vec(), Variant::Buffer);
                }
                t.put("pack", "n0", world::recipe_bytes(&[ROp::Many(first)]), Variant::Buffer);
            }
        }
        if c.pack.is_some() {
            let _ = w.top_load(Kind::N0, "pack");
        }
        // two rounds of loads so that look-ups of later nodes find them
        for _ in 0..2 {
            for n in &c.nodes {
                let _ = std::panic::catch_unwind(std::panic::AssertUnwindSafe(|| w.top_load(n.kind, &n.id)));
            }
            // second round: reload everything once so that G edges are recorded with all nodes cached
            for n in &c.nodes {
                w.src.send(&OwnedEntry::File(n.id.clone(), n.kind.recipe_ext().to_string()));
            }
        }
        STARTED.store(0, SeqCst);
        FINISHED.store(0, SeqCst);
        IDLE_ACTIVITY.store(0, SeqCst);
        MAX_IN_FLIGHT.store(0, SeqCst);
        WATCH_TAG.store(w.tag as u64, SeqCst);
        HARNESS_TIDS.lock().unwrap().clear();
        HARNESS_TIDS.lock().unwrap().push(crate::procfs::gettid());
        // watch source activity of the reloader thread against the in-flight bracket
        memsrc::set_observer(Some(Arc::new(|tag, _entry| {
            if tag as u64 != WATCH_TAG.load(SeqCst) {
                return;
            }
            thread_local! {
                static IS_HARNESS: std::cell::Cell<Option<bool>> = const { std::cell::Cell::new(None) };
            }
            let harness = IS_HARNESS.with(|c| match c.get() {
                Some(h) => h,
                None => {
                    let h = HARNESS_TIDS.lock().unwrap().contains(&crate::procfs::gettid());
                    c.set(Some(h));
                    h
                }
            });
            if harness {
                return;
            }
            if matches!(_entry, OwnedEntry::File(i, x) if i == "l0" && x == "la") {
                STREAM_READS.fetch_add(1, SeqCst);
            }
            let f = FINISHED.load(SeqCst);
            let s = STARTED.load(SeqCst);
            if s == f {
                IDLE_ACTIVITY.fetch_add(1, SeqCst);
            }
        })));
        let stop = AtomicBool::new(false);
        let done = (std::sync::Mutex::new(false), std::sync::Condvar::new());
        let cache = w.cache;
        let src = &w.src;
        std::thread::scope(|s| {
            let mut callers = Vec::new();
            for _ in 0..c.callers {
                callers.push(s.spawn(|| {
                    HARNESS_TIDS.lock().unwrap().push(crate::procfs::gettid());
                    for _ in 0..c.iters {
                        let st = STARTED.fetch_add(1, SeqCst) + 1;
                        MAX_IN_FLIGHT.fetch_max(st - FINISHED.load(SeqCst), SeqCst);
                        cache.hot_reload();
                        FINISHED.fetch_add(1, SeqCst);
                    }
                }));
            }
            for t in 0..c.loaders {
                let stop = &stop;
                let done = &done;
                s.spawn(move || {
                    HARNESS_TIDS.lock().unwrap().push(crate::procfs::gettid());
                    let mut i = 0u64;
                    while !stop.load(SeqCst) {
                        i += 1;
                        let _ = cache.load::<world::Leaf>(LEAVES[(i as usize) % LEAVES.len()]);
                        cache.get_or_insert::<u64>(&format!("t{t}_{i}"), i);
                        if i % 7 == 0 {
                            let _ = cache.load_owned::<world::Leaf>(LEAVES[(i as usize + 1) % LEAVES.len()]);
                        }
                        if i > 4000 {
                            // enough pressure: block (no CPU, so that a deadlock of the callers leaves every
                            // thread asleep) until the callers are done
                            let mut g = done.0.lock().unwrap();
                            while !*g {
                                g = done.1.wait(g).unwrap();
                            }
                        }
                    }
                });
            }
            // the event source
            {
                let stop = &stop;
                let c = &c;
                s.spawn(move || {
                    HARNESS_TIDS.lock().unwrap().push(crate::procfs::gettid());
                    let mut round = 0u32;
                    if let Some((_, later)) = c.pack {
                        // the pack now loads many assets nobody has seen yet, all within one reload
                        src.tree().put("pack", "n0", world::recipe_bytes(&[ROp::Many(later)]), Variant::Buffer);
                        src.send(&OwnedEntry::File("pack".to_string(), "n0".to_string()));
                    }
                    while !stop.load(SeqCst) && round < 200 {
                        if c.watcher_dies_after == Some(round.min(255) as u8) {
                            src.drop_sender();
                        }
                        for burst in &c.bursts {
                            let mut notes = Vec::new();
                            for (l, v) in burst {
                                let id = LEAVES[*l as usize];
                                src.tree().put(id, "la", format!("ok:v{}", *v as u32 + round).into_bytes(), Variant::Buffer);
                                notes.push(OwnedEntry::File(id.to_string(), "la".to_string()));
                            }
                            if c.batched {
                                src.send_multiple(&notes);
                            } else {
                                for n in &notes {
                                    src.send(n);
                                }
                            }
                            std::thread::yield_now();
                        }
                        round += 1;
                    }
                });
            }
            for cj in callers {
                let _ = cj.join();
            }
            stop.store(true, SeqCst);
            *done.0.lock().unwrap() = true;
            done.1.notify_all();
        });
        // a last synchronous pass: still answers
        STARTED.fetch_add(1, SeqCst);
        cache.hot_reload();
        FINISHED.fetch_add(1, SeqCst);
        // a sustained stream of notifications: a call is one pass
        if c.stream > 0 && c.watcher_dies_after.is_none() && !out.failed() {
            let _ = w.top_load(Kind::Leaf, "l0");
            let feeding = AtomicBool::new(true);
            let mut worst = 0u64;
            std::thread::scope(|s| {
                let feeding = &feeding;
                let n = c.stream;
                s.spawn(move || {
                    HARNESS_TIDS.lock().unwrap().push(crate::procfs::gettid());
                    for k in 0..n {
                        src.tree().put("l0", "la", format!("ok:s{k}").into_bytes(), Variant::Buffer);
                        src.send(&OwnedEntry::File("l0".to_string(), "la".to_string()));
                    }
                    feeding.store(false, SeqCst);
                });
                let mut calls = 0u32;
                while feeding.load(SeqCst) || calls < 3 {
                    let before = STREAM_READS.load(SeqCst);
                    STARTED.fetch_add(1, SeqCst);
                    cache.hot_reload();
                    FINISHED.fetch_add(1, SeqCst);
                    worst = worst.max(STREAM_READS.load(SeqCst) - before);
                    calls += 1;
                    if calls > 1_000_000 {
                        break;
                    }
                }
            });
            if worst > 1 {
                out.fail("several-passes-in-one-call", format!("while {} notifications of one leaf were sent back to back, a single hot_reload call read that leaf's file {worst} times: one call must be one pass (a bounded amount of work), whatever arrives meanwhile", c.stream));
            }
            out.label("sustained-notification-stream");
        }
        // and the reloader still works: a change notified now is applied within a bounded number of calls
        // (a reloader wedged by a caller that left with somebody else's answer would never apply it)
        let mut w = w;
        if c.watcher_dies_after.is_none() {
            STARTED.fetch_add(1, SeqCst);
            let alive = w.barrier_bounded(4000);
            FINISHED.fetch_add(1, SeqCst);
            if !alive {
                out.fail("reloader-wedged", "after all callers returned, a notified change of a loaded asset was not applied by 4000 further hot_reload calls: the reloader no longer serves requests (calls return without their own request having been answered)");
            }
        }
        let idle = IDLE_ACTIVITY.load(SeqCst);
        if idle > 0 {
            out.fail("reloader-active-with-no-call-in-flight", format!("the reloader thread accessed the source {idle} time(s) while no thread was inside hot_reload: some caller was released before its own request was served"));
        }
        if MAX_IN_FLIGHT.load(SeqCst) >= 2 {
            out.nontrivial = true;
            out.label("requests-queued>=2");
        }
        // does the graph contain a look-up cycle?
        let n = c.nodes.len();
        let mut adj = vec![vec![false; n]; n];
        for (i, nd) in c.nodes.iter().enumerate() {
            for op in &nd.ops {
                let mut ops = vec![op];
                if let ROp::NR(sub) = op {
                    ops = sub.iter().collect();
                }
                for o in ops {
                    if let ROp::G { id, .. } = o {
                        if let Some(j) = id.strip_prefix('n').and_then(|x| x.parse::<usize>().ok()) {
                            if j < n && !matches!(op, ROp::NR(_)) {
                                adj[i][j] = true;
                            }
                        }
                    }
                }
            }
        }
        for k in 0..n {
            for i in 0..n {
                for j in 0..n {
                    if adj[i][k] && adj[k][j] {
                        adj[i][j] = true;
                    }
                }
            }
        }
        if (0..n).any(|i| adj[i][i]) {
            out.nontrivial = true;
            out.label("lookup-cycle");
        }
        if c.loaders > 0 {
            out.label("concurrent-loaders");
        }
        if c.pack.is_some() {
            out.label("many-new-assets-in-one-reload");
        }
        if c.watcher_dies_after.is_some() {
            out.label("watcher-died-while-callers-run");
        }
        let _ = hot::LEAVES;
        drop(w);
        memsrc::set_observer(None);
        if c.flood > 0 && !out.failed() {
            flood(c.flood, &mut out);
        }
        if c.chain > 0 && !out.failed() {
            deep_chain(c.chain, &mut out);
        }
        if c.watcher_dies_after.is_some() && !out.failed() {
            panicking_payload();
            out.label("panic-payload-with-panicking-destructor");
        }
        if c.chain % 2 == 1 && !out.failed() {
            enhance_races(6, 2 + (c.callers % 3));
            out.label("hot_reload-races-enhance_hot_reloading");
        }
        if c.stop_races > 0 && !out.failed() {
            stop_races(c.stop_races, 2 + (c.callers % 5));
            out.label("reloader-stops-under-callers");
        }
        out
    }

    fn required_labels(&self) -> Vec<&'static str> {
        vec!["requests-queued>=2", "lookup-cycle", "concurrent-loaders", "watcher-died-while-callers-run", "sustained-notification-stream", "reloader-stops-under-callers", "notification-flood", "deep-dependency-chain", "hot_reload-races-enhance_hot_reloading"]
    }
}
