//! C01 - one stable handle per (id, type), whatever the thread interleaving.

use crate::engine::{from_case, to_case, Outcome, Plan, Prop, Tier};
use crate::ledger::{self, Tracked};
use crate::memsrc::{MemSource, Variant};
use crate::procfs;
use assets_manager::{loader::Loader, Asset, AssetCache, BoxedError, Handle, LocalAssetCache, Storable};
use proptest::prelude::*;
use serde::{Deserialize, Serialize};
use serde_json::Value;
use std::borrow::Cow;
use std::cell::Cell;
use std::collections::{BTreeMap, HashMap};
use std::sync::atomic::{AtomicBool, AtomicU64, AtomicUsize, Ordering::SeqCst};
use std::sync::{Arc, Mutex};

pub struct L1 {
    tok: Tracked,
    key: String,
}
pub struct SV {
    tok: Tracked,
    key: String,
}
impl Storable for SV {}

/// While armed, every dropped L1 / SV panics in its destructor. It is armed only during the racing phase,
/// in which nothing is removed: the only values dropped then are the ones that lose an insertion race.
static GRUMPY: AtomicBool = AtomicBool::new(false);
thread_local! {
    static GRUMPY_FIRED: Cell<bool> = const { Cell::new(false) };
}
fn grumpy_drop() {
    if GRUMPY.load(SeqCst) && !std::thread::panicking() {
        GRUMPY_FIRED.with(|f| f.set(true));
        panic!("destructor of a value that lost the insertion race panics");
    }
}
impl Drop for L1 {
    fn drop(&mut self) {
        grumpy_drop();
    }
}
impl Drop for SV {
    fn drop(&mut self) {
        grumpy_drop();
    }
}

struct Gate {
    expected: HashMap<String, usize>,
    arrived: HashMap<String, AtomicUsize>,
    max_together: AtomicUsize,
}

static GATE: Mutex<Option<Arc<Gate>>> = Mutex::new(None);
/// tokens created by the loader / offered by racers: token -> (type tag, key)
static CREATED: Mutex<Vec<(u64, u8, String)>> = Mutex::new(Vec::new());

thread_local! {
    static FIRST_OP: Cell<bool> = const { Cell::new(false) };
}

pub struct L1Loader;
impl Loader<L1> for L1Loader {
    fn load(content: Cow<[u8]>, _ext: &str) -> Result<L1, BoxedError> {
        let key = String::from_utf8(content.to_vec())?;
        let gate = GATE.lock().unwrap_or_else(|e| e.into_inner()).clone();
        if let (Some(g), true) = (gate, FIRST_OP.with(|f| f.get())) {
            if let (Some(&exp), Some(arr)) = (g.expected.get(&key), g.arrived.get(&key)) {
                let now = arr.fetch_add(1, SeqCst) + 1;
                g.max_together.fetch_max(now, SeqCst);
                // bounded wait: every loader that passed the miss waits for the others
                let mut spins = 0u32;
                while arr.load(SeqCst) < exp && spins < 400_000 {
                    spins += 1;
                    if spins % 64 == 0 {
                        std::thread::yield_now();
                    } else {
                        std::hint::spin_loop();
                    }
                }
            }
        }
        let tok = Tracked::new();
        CREATED.lock().unwrap_or_else(|e| e.into_inner()).push((tok.token, 0, key.clone()));
        Ok(L1 { tok, key })
    }
}
impl Asset for L1 {
    const EXTENSION: &'static str = "l";
    type Loader = L1Loader;
}

#[derive(Debug, Clone, Copy, Serialize, Deserialize, PartialEq, Eq)]
pub enum Kind {
    Load,
    GetCached,
    GetOrInsert,
    Contains,
}

#[derive(Debug, Clone, Copy, Serialize, Deserialize, PartialEq, Eq)]
pub struct Op {
    kind: Kind,
    /// false = L1 (asset), true = SV (storable)
    storable: bool,
    key: u8,
    any: bool,
}

#[derive(Debug, Clone, Serialize, Deserialize)]
pub struct Case {
    threads: Vec<Vec<Op>>,
    keys: u8,
    gate: bool,
    /// unrelated insertions performed concurrently and afterwards (map growth / rehash)
    filler: u32,
    cpus: u8,
    local: bool,
    hot: bool,
    /// values that lose an insertion race panic in their destructor
    #[serde(default)]
    grumpy: bool,
    /// after the racing phase: that many removals of ids that were never in the cache (twice each)
    #[serde(default)]
    ghost_removals: u16,
}

#[derive(Debug, Clone)]
struct Rec {
    thread: usize,
    idx: usize,
    op: Op,
    start: u64,
    end: u64,
    /// Some((pointer, token, key read through the handle)) for a returned handle
    handle: Option<(usize, u64, String)>,
    present: bool,
    /// the call unwound (only legitimate when the destructor of this thread's own losing value panicked)
    panicked: bool,
}

/// Key 1 is longer than 32 bytes, keys 2..5 have empty components or a '/': ids are keys verbatim, each has its own file in the source.
fn key_name(k: u8) -> String {
    match k {
        1 => "k1.environment.forest.trees.oak_large_01.k1".to_string(),
        2 => "k0.".to_string(),
        3 => ".k0".to_string(),
        4 => "k0..k1".to_string(),
        5 => "k0/k1".to_string(),
        _ => format!("k{k}"),
    }
}

struct ExitProbe {
    cache: usize,
    id: String,
    out: Arc<Mutex<Option<Vec<usize>>>>,
}
impl Drop for ExitProbe {
    fn drop(&mut self) {
        // the spawning thread joins this one before the cache can go away
        let cache = unsafe { &*(self.cache as *const AssetCache<MemSource>) };
        let id = self.id.clone();
        let r = std::panic::catch_unwind(std::panic::AssertUnwindSafe(|| {
            let a = cache.load::<L1>(&id).ok().map_or(0, |h| h as *const Handle<L1> as usize);
            let b = cache.get_cached::<L1>(&id).map_or(0, |h| h as *const Handle<L1> as usize);
            let c = cache.as_any_cache().get_cached::<L1>(&id).map_or(0, |h| h as *const Handle<L1> as usize);
            vec![a, b, c]
        }));
        *self.out.lock().unwrap_or_else(|e| e.into_inner()) = r.ok();
    }
}
thread_local! {
    static EXIT_PROBE: std::cell::RefCell<Option<ExitProbe>> = const { std::cell::RefCell::new(None) };
}

/// Handles returned to look-ups made while the calling thread's thread-locals are being destroyed.
fn lookups_from_thread_local_destructor(cache: &AssetCache<MemSource>, id: &str, probe_first: bool) -> Option<Vec<usize>> {
    let out = Arc::new(Mutex::new(None));
    let (addr, id, out2) = (cache as *const AssetCache<MemSource> as usize, id.to_string(), out.clone());
    let t = std::thread::spawn(move || {
        let cache = unsafe { &*(addr as *const AssetCache<MemSource>) };
        if probe_first {
            EXIT_PROBE.with(|p| p.borrow().is_none());
        }
        let _ = cache.get_cached::<L1>(&id).is_some();
        let _ = cache.load::<L1>(&id).is_ok();
        EXIT_PROBE.with(|p| *p.borrow_mut() = Some(ExitProbe { cache: addr, id, out: out2 }));
    });
    // join returns when the thread is gone, destructors of its thread-locals included
    let _ = t.join();
    let r = out.lock().unwrap_or_else(|e| e.into_inner()).clone();
    r
}

fn run_op(cache: &AssetCache<MemSource>, op: Op, ticket: &AtomicU64, thread: usize, idx: usize) -> Rec {
    let id = key_name(op.key);
    let start = ticket.fetch_add(1, SeqCst);
    let mut handle = None;
    let mut present = false;
    macro_rules! h {
        ($h:expr) => {{
            let h: &Handle<_> = $h;
            let g = h.read();
            handle = Some((h as *const _ as usize, g.tok.token, g.key.clone()));
            g.tok.touch();
            present = true;
        }};
    }
    let any = cache.as_any_cache();
    match (op.kind, op.storable, op.any) {
        (Kind::Load, _, false) => {
            if let Ok(hh) = cache.load::<L1>(&id) {
                h!(hh)
            }
        }
        (Kind::Load, _, true) => {
            if let Ok(hh) = any.load::<L1>(&id) {
                h!(hh)
            }
        }
        (Kind::GetCached, false, false) => {
            if let Some(hh) = cache.get_cached::<L1>(&id) {
                h!(hh)
            }
        }
        (Kind::GetCached, false, true) => {
            if let Some(hh) = any.get_cached::<L1>(&id) {
                h!(hh)
            }
        }
        (Kind::GetCached, true, false) => {
            if let Some(hh) = cache.get_cached::<SV>(&id) {
                h!(hh)
            }
        }
        (Kind::GetCached, true, true) => {
            if let Some(hh) = any.get_cached::<SV>(&id) {
                h!(hh)
            }
        }
        (Kind::GetOrInsert, false, a) => {
            let tok = Tracked::new();
            CREATED.lock().unwrap().push((tok.token, 0, id.clone()));
            let v = L1 { tok, key: id.clone() };
            let hh = if a { any.get_or_insert(&id, v) } else { cache.get_or_insert(&id, v) };
            h!(hh)
        }
        (Kind::GetOrInsert, true, a) => {
            let tok = Tracked::new();
            CREATED.lock().unwrap().push((tok.token, 1, id.clone()));
            let v = SV { tok, key: id.clone() };
            let hh = if a { any.get_or_insert(&id, v) } else { cache.get_or_insert(&id, v) };
            h!(hh)
        }
        (Kind::Contains, false, false) => present = cache.contains::<L1>(&id),
        (Kind::Contains, false, true) => present = any.contains::<L1>(&id),
        (Kind::Contains, true, false) => present = cache.contains::<SV>(&id),
        (Kind::Contains, true, true) => present = any.contains::<SV>(&id),
    }
    let end = ticket.fetch_add(1, SeqCst);
    Rec { thread, idx, op, start, end, handle, present, panicked: false }
}

fn run_op_local(cache: &LocalAssetCache<MemSource>, op: Op, ticket: &AtomicU64, idx: usize) -> Rec {
    let id = key_name(op.key);
    let start = ticket.fetch_add(1, SeqCst);
    let mut handle = None;
    let mut present = false;
    macro_rules! h {
        ($h:expr) => {{
            let h: &Handle<_> = $h;
            let g = h.read();
            handle = Some((h as *const _ as usize, g.tok.token, g.key.clone()));
            g.tok.touch();
            present = true;
        }};
    }
    let any = cache.as_any_cache();
    match (op.kind, op.storable, op.any) {
        (Kind::Load, _, false) => {
            if let Ok(hh) = cache.load::<L1>(&id) {
                h!(hh)
            }
        }
        (Kind::Load, _, true) => {
            if let Ok(hh) = any.load::<L1>(&id) {
                h!(hh)
            }
        }
        (Kind::GetCached, false, false) => {
            if let Some(hh) = cache.get_cached::<L1>(&id) {
                h!(hh)
            }
        }
        (Kind::GetCached, false, true) => {
            if let Some(hh) = any.get_cached::<L1>(&id) {
                h!(hh)
            }
        }
        (Kind::GetCached, true, false) => {
            if let Some(hh) = cache.get_cached::<SV>(&id) {
                h!(hh)
            }
        }
        (Kind::GetCached, true, true) => {
            if let Some(hh) = any.get_cached::<SV>(&id) {
                h!(hh)
            }
        }
        (Kind::GetOrInsert, false, a) => {
            let tok = Tracked::new();
            CREATED.lock().unwrap().push((tok.token, 0, id.clone()));
            let v = L1 { tok, key: id.clone() };
            let hh = if a { any.get_or_insert(&id, v) } else { cache.get_or_insert(&id, v) };
            h!(hh)
        }
        (Kind::GetOrInsert, true, a) => {
            let tok = Tracked::new();
            CREATED.lock().unwrap().push((tok.token, 1, id.clone()));
            let v = SV { tok, key: id.clone() };
            let hh = if a { any.get_or_insert(&id, v) } else { cache.get_or_insert(&id, v) };
            h!(hh)
        }
        (Kind::Contains, false, false) => present = cache.contains::<L1>(&id),
        (Kind::Contains, false, true) => present = any.contains::<L1>(&id),
        (Kind::Contains, true, false) => present = cache.contains::<SV>(&id),
        (Kind::Contains, true, true) => present = any.contains::<SV>(&id),
    }
    let end = ticket.fetch_add(1, SeqCst);
    Rec { thread: 0, idx, op, start, end, handle, present, panicked: false }
}

fn make_source(keys: u8, hot: bool) -> MemSource {
    let src = MemSource::new(hot);
    {
        let mut t = src.tree();
        for k in 0..keys {
            t.put(&key_name(k), "l", key_name(k).into_bytes(), Variant::Buffer);
        }
    }
    src
}

/// Checks the joined log; `canonical` gives the handle a fresh lookup returns now.
fn check_log(out: &mut Outcome, log: &[Rec], canonical: &BTreeMap<(bool, u8), Option<(usize, u64, String)>>, phase: &str) -> usize {
    let mut losers = 0;
    let created = CREATED.lock().unwrap().clone();
    for (&(storable, key), canon) in canonical {
        let recs: Vec<&Rec> = log.iter().filter(|r| r.op.storable_key() == (storable, key) && !r.panicked).collect();
        // (1) pointer identity and (3) one winning value
        let mut seen: Option<(usize, u64)> = canon.as_ref().map(|c| (c.0, c.1));
        for r in &recs {
            if let Some((p, tok, k)) = &r.handle {
                if k != &key_name(key) {
                    out.fail("handle-wrong-content", format!("{phase}: thread {} op {} {:?}: the handle for key {:?} reads a value of key {k:?}", r.thread, r.idx, r.op, key_name(key)));
                    return losers;
                }
                match seen {
                    None => seen = Some((*p, *tok)),
                    Some((p0, t0)) => {
                        if p0 != *p {
                            out.fail("handle-identity", format!("{phase}: key ({}, {:?}): thread {} op {} {:?} got handle {p:#x}, another lookup got {p0:#x}", if storable { "SV" } else { "L1" }, key_name(key), r.thread, r.idx, r.op));
                            return losers;
                        }
                        if t0 != *tok {
                            out.fail("two-winners", format!("{phase}: key {:?}: two different values were observed through the same key (tokens {t0} and {tok})", key_name(key)));
                            return losers;
                        }
                    }
                }
            }
        }
        if canon.is_none() && recs.iter().any(|r| r.present) {
            out.fail("presence-flipped", format!("{phase}: key {:?} was reported present during the run but is absent afterwards (no removal happened)", key_name(key)));
            return losers;
        }
        // (2) presence is monotone along happens-before (tickets)
        for a in &recs {
            if !a.present {
                continue;
            }
            for b in &recs {
                if b.start > a.end && !b.present {
                    out.fail(
                        "presence-flipped",
                        format!("{phase}: key ({}, {:?}): thread {} op {} {:?} found it present (finished at ticket {}), yet thread {} op {} {:?} started later (ticket {}) and found it absent", if storable { "SV" } else { "L1" }, key_name(key), a.thread, a.idx, a.op, a.end, b.thread, b.idx, b.op, b.start),
                    );
                    return losers;
                }
            }
        }
        // ledger: exactly the winner is alive among the values created for this key
        let mine: Vec<u64> = created.iter().filter(|(_, t, k)| (*t == 1) == storable && k == &key_name(key)).map(|(tok, _, _)| *tok).collect();
        let alive: Vec<u64> = mine.iter().copied().filter(|t| ledger::is_alive(*t)).collect();
        match seen {
            Some((_, w)) => {
                if alive != vec![w] {
                    out.fail("loser-not-dropped", format!("{phase}: key {:?}: values created {mine:?}, winner {w}, but alive are {alive:?} (every loser must be dropped exactly once, the winner must be alive)", key_name(key)));
                    return losers;
                }
                losers += mine.len() - 1;
            }
            None => {
                if !alive.is_empty() {
                    out.fail("loser-not-dropped", format!("{phase}: key {:?} is absent but values {alive:?} created for it are alive", key_name(key)));
                    return losers;
                }
            }
        }
    }
    if ledger::double_drops() != 0 || ledger::use_after_drop() != 0 {
        out.fail("double-drop", format!("{phase}: {} double drop(s), {} read(s) of a dropped value through a handle", ledger::double_drops(), ledger::use_after_drop()));
    }
    losers
}

impl Op {
    fn storable_key(&self) -> (bool, u8) {
        // Load always targets L1
        (self.storable && self.kind != Kind::Load, self.key)
    }
}

fn run_shared(c: &Case, out: &mut Outcome) {
    let src = make_source(c.keys, c.hot);
    let old = procfs::set_cpus(c.cpus.max(1) as usize);
    let mut cache = AssetCache::with_source(src);
    if let Some(old) = &old {
        procfs::restore_cpus(old);
    }
    let ticket = AtomicU64::new(1);
    // gate: count threads whose first op is a Load per key
    let mut expected: HashMap<String, usize> = HashMap::new();
    if c.gate {
        for t in &c.threads {
            if let Some(op) = t.first() {
                if op.kind == Kind::Load {
                    *expected.entry(key_name(op.key)).or_default() += 1;
                }
            }
        }
        expected.retain(|_, n| *n >= 2);
    }
    let gate = Arc::new(Gate {
        arrived: expected.keys().map(|k| (k.clone(), AtomicUsize::new(0))).collect(),
        expected,
        max_together: AtomicUsize::new(0),
    });
    *GATE.lock().unwrap() = Some(gate.clone());
    let barrier = super::common::SpinBarrier::new(c.threads.len() + 1);
    let mut log: Vec<Rec> = Vec::new();
    let innocent: Mutex<Vec<String>> = Mutex::new(Vec::new());
    let concurrent_fill = (c.filler / 2).min(20_000);
    GRUMPY.store(c.grumpy, SeqCst);
    std::thread::scope(|s| {
        let mut joins = Vec::new();
        for (t, prog) in c.threads.iter().enumerate() {
            let (cache, ticket, barrier, innocent) = (&cache, &ticket, &barrier, &innocent);
            joins.push(s.spawn(move || {
                let mut recs = Vec::new();
                barrier.wait();
                for (i, op) in prog.iter().enumerate() {
                    FIRST_OP.with(|f| f.set(i == 0));
                    GRUMPY_FIRED.with(|f| f.set(false));
                    match std::panic::catch_unwind(std::panic::AssertUnwindSafe(|| run_op(cache, *op, ticket, t, i))) {
                        Ok(r) => recs.push(r),
                        Err(_) => {
                            let own = GRUMPY_FIRED.with(|f| f.get());
                            let end = ticket.fetch_add(1, SeqCst);
                            recs.push(Rec { thread: t, idx: i, op: *op, start: end, end, handle: None, present: false, panicked: true });
                            if !own {
                                innocent.lock().unwrap().push(format!("thread {t} op {i} {op:?}"));
                            }
                        }
                    }
                }
                FIRST_OP.with(|f| f.set(false));
                recs
            }));
        }
        let filler = {
            let (cache, barrier, innocent) = (&cache, &barrier, &innocent);
            s.spawn(move || {
                barrier.wait();
                let r = std::panic::catch_unwind(std::panic::AssertUnwindSafe(|| {
                    for i in 0..concurrent_fill {
                        cache.get_or_insert::<u64>(&format!("fill{i}"), i as u64);
                    }
                }));
                if r.is_err() {
                    innocent.lock().unwrap().push("the thread inserting unrelated entries".to_string());
                }
            })
        };
        for j in joins {
            log.extend(j.join().expect("worker thread"));
        }
        filler.join().expect("filler");
    });
    *GATE.lock().unwrap() = None;
    GRUMPY.store(false, SeqCst);
    if let Some(first) = innocent.lock().unwrap().first() {
        out.fail("innocent-racer-panicked", format!("{first} panicked although no value of its own was dropped (another racer's losing value panicked in its destructor; every other racer must still observe the winner)"));
        return;
    }
    if log.iter().any(|r| r.panicked) {
        out.label("loser-destructor-panicked");
    }

    let canon_now = |cache: &AssetCache<MemSource>| -> BTreeMap<(bool, u8), Option<(usize, u64, String)>> {
        let mut m = BTreeMap::new();
        for k in 0..c.keys {
            let id = key_name(k);
            m.insert((false, k), cache.get_cached::<L1>(&id).map(|h| (h as *const _ as usize, h.read().tok.token, h.read().key.clone())));
            m.insert((true, k), cache.get_cached::<SV>(&id).map(|h| (h as *const _ as usize, h.read().tok.token, h.read().key.clone())));
        }
        m
    };
    let canonical = canon_now(&cache);
    let losers = check_log(out, &log, &canonical, "after the racing phase");
    if out.failed() {
        return;
    }
    // removals of keys that were never there leave no trace: every entry is still found under its handle
    for i in 0..c.ghost_removals {
        let id = format!("ghost{i}");
        if cache.remove::<L1>(&id) || cache.take::<SV>(&id).is_some() || cache.remove::<L1>(&id) {
            out.fail("ghost-removed", format!("remove/take of {id:?}, which was never in the cache, reported success"));
            return;
        }
    }
    if c.ghost_removals > 0 && canon_now(&cache) != canonical {
        out.fail("presence-flipped", format!("after removing {} ids that were never in the cache, a fresh lookup of the racing phase's keys no longer returns the same handles (entries vanished or moved without having been removed)", c.ghost_removals));
        return;
    }
    // growth: many unrelated insertions, then every retained handle must still be the one and readable
    for i in concurrent_fill..c.filler {
        cache.get_or_insert::<u64>(&format!("fill{i}"), i as u64);
    }
    let after = canon_now(&cache);
    if after != canonical {
        out.fail("handle-moved", format!("after {} unrelated insertions a fresh lookup returns a different handle or value than before", c.filler));
        return;
    }
    for r in &log {
        if let Some((p, tok, key)) = &r.handle {
            let (st, k) = r.op.storable_key();
            // safe to dereference only because it is pointer-equal to a handle the cache returns right now
            if after[&(st, k)].as_ref().map(|c| c.0) != Some(*p) {
                out.fail("handle-identity", format!("a handle retained from the racing phase ({p:#x}) is not the handle of key {key:?} any more"));
                return;
            }
            let ok = if st {
                let h = unsafe { &*(*p as *const Handle<SV>) };
                h.id().as_str() == key && h.read().tok.token == *tok
            } else {
                let h = unsafe { &*(*p as *const Handle<L1>) };
                h.id().as_str() == key && h.read().tok.token == *tok
            };
            if !ok {
                out.fail("handle-corrupted", format!("a retained handle of key {key:?} no longer reads its id/value after {} insertions", c.filler));
                return;
            }
        }
    }
    // filler entries themselves
    for i in (0..c.filler).step_by(97) {
        if cache.get_cached::<u64>(&format!("fill{i}")).map(|h| h.copied()) != Some(i as u64) {
            out.fail("filler-lost", format!("unrelated entry fill{i} is missing or wrong"));
            return;
        }
    }
    // "from any thread" includes a thread that is going away: look-ups made by the destructor of a thread-local
    // (registered before or after the thread's first use of the cache) return the entry's handle too
    if c.hot {
        if let Some((st, k)) = after.iter().find(|((st, _), v)| !*st && v.is_some()).map(|(k, _)| *k) {
            let _ = st;
            let id = key_name(k);
            let want = after[&(false, k)].as_ref().map(|c| c.0).unwrap_or(0);
            for probe_first in [true, false] {
                let got = lookups_from_thread_local_destructor(&cache, &id, probe_first);
                let ok = matches!(&got, Some(v) if v.len() == 3 && v.iter().all(|p| *p == want));
                if !ok {
                    out.fail(
                        "exiting-thread-lookup",
                        format!("key {id:?} is cached (handle {want:#x}); load / get_cached / get_or_insert made by the destructor of a thread-local of an exiting thread (thread-local first used {} the thread's first cache call) gave {got:?} (None = the look-ups panicked)", if probe_first { "before" } else { "after" }),
                    );
                    return;
                }
            }
            out.label("lookups-from-exiting-thread");
        }
    }
    if crate::calloc::error_count() != 0 {
        out.fail("allocator", crate::calloc::describe_errors());
    }
    let together = gate.max_together.load(SeqCst);
    if together >= 2 {
        out.label("simultaneous-miss");
        out.nontrivial = true;
    }
    if losers >= 1 {
        out.label("lost-race");
        out.nontrivial = true;
    }
    drop(cache);
    if ledger::alive_count() != 0 || ledger::double_drops() != 0 {
        out.fail("drop-accounting", format!("after dropping the cache: {} tracked values alive, {} double drops", ledger::alive_count(), ledger::double_drops()));
    }
}

fn run_local(c: &Case, out: &mut Outcome) {
    let src = make_source(c.keys, false);
    let cache = LocalAssetCache::with_source(src);
    let ticket = AtomicU64::new(1);
    let mut log = Vec::new();
    let ops: Vec<Op> = c.threads.iter().flatten().copied().collect();
    for (i, op) in ops.iter().enumerate() {
        log.push(run_op_local(&cache, *op, &ticket, i));
        if i % 3 == 0 {
            for j in 0..(c.filler.min(3000) / (ops.len() as u32 + 1)) {
                cache.get_or_insert::<u64>(&format!("fill{i}_{j}"), j as u64);
            }
        }
    }
    let canon_now = |cache: &LocalAssetCache<MemSource>| -> BTreeMap<(bool, u8), Option<(usize, u64, String)>> {
        let mut m = BTreeMap::new();
        for k in 0..c.keys {
            let id = key_name(k);
            m.insert((false, k), cache.get_cached::<L1>(&id).map(|h| (h as *const _ as usize, h.read().tok.token, h.read().key.clone())));
            m.insert((true, k), cache.get_cached::<SV>(&id).map(|h| (h as *const _ as usize, h.read().tok.token, h.read().key.clone())));
        }
        m
    };
    let canonical = canon_now(&cache);
    check_log(out, &log, &canonical, "LocalAssetCache");
    if out.failed() {
        return;
    }
    for i in 0..c.filler.min(20_000) {
        cache.get_or_insert::<u64>(&format!("fill{i}"), i as u64);
    }
    if canon_now(&cache) != canonical {
        out.fail("handle-moved", "LocalAssetCache: after unrelated insertions a fresh lookup returns a different handle or value");
        return;
    }
    out.label("local-cache");
    if c.filler >= 1000 {
        out.nontrivial = true;
    }
    drop(cache);
    if ledger::alive_count() != 0 || ledger::double_drops() != 0 {
        out.fail("drop-accounting", format!("after dropping the local cache: {} tracked values alive, {} double drops", ledger::alive_count(), ledger::double_drops()));
    }
}

pub struct C01;

fn op_strategy(keys: u8) -> impl Strategy<Value = Op> {
    (
        prop_oneof![4 => Just(Kind::Load), 3 => Just(Kind::GetCached), 3 => Just(Kind::GetOrInsert), 2 => Just(Kind::Contains)],
        any::<bool>(),
        0..keys,
        any::<bool>(),
    )
        .prop_map(|(kind, storable, key, any)| Op { kind, storable, key, any })
}

impl Prop for C01 {
    fn id(&self) -> &'static str {
        "C01"
    }

    fn rule(&self) -> String {
        "cases = (2..8 thread programs of load / get_cached / get_or_insert / contains on 1..6 overlapping keys of an asset type and a storable type, through AssetCache or its AnyCache view; \
         optional gate: loaders that passed the cache miss wait (bounded) for each other inside the harness loader, forcing simultaneous misses; 0..20000 (thorough: up to 300000) unrelated insertions \
         concurrently and afterwards; shard count via CPU affinity 1/2/3/4/5/6/7/12/16 at construction; with or without a reloader; keys include a 44-byte id and ids with empty components or a '/' (k0., .k0, k0..k1, k0/k1), each with its own file; in a third of the cases 50..600 ids that were never cached are removed (twice) after the racing phase (nothing may vanish); \
         in a quarter of the cases every value that loses a race panics in its destructor (the unwinding call is the loser's own, every other call must be unaffected); a single-threaded LocalAssetCache variant). \
         Oracle over the joined logs: one pointer and one value per key, presence monotone along a ticket-based happens-before order, ledger: exactly the winner alive and every loser dropped once, \
         retained handles still identical and readable after growth; look-ups made by the destructor of a thread-local of an exiting thread return the same handle. non-trivial = >= 2 loaders provably inside the miss window of one key, or >= 1 value that lost an insertion race, or (local variant) >= 1000 growth insertions; distinct = different canonical JSON"
            .into()
    }

    fn assumptions(&self) -> Vec<String> {
        vec![
            "schedules are shaped (rendezvous inside the harness loader, barriers) and sampled, not enumerated".into(),
            "a fresh RandomState per cache gives a new hash seed / shard assignment per case".into(),
        ]
    }

    fn plan(&self, tier: Tier) -> Plan {
        let mut p = Plan::new(match tier {
            Tier::Quick => 3000,
            Tier::Thorough => 40_000,
        });
        p.workers = 5;
        p.repeats = 3;
        p
    }

    fn strategy(&self, tier: Tier) -> BoxedStrategy<Value> {
        let big = if tier == Tier::Thorough { 300_000u32 } else { 20_000 };
        (1u8..7)
            .prop_flat_map(move |keys| {
                (
                    prop::collection::vec(prop::collection::vec(op_strategy(keys), 1..8), 2..8),
                    Just(keys),
                    prop::bool::weighted(0.7),
                    prop_oneof![3 => 0u32..200, 2 => 200u32..5000, 1 => 5000u32..big],
                    prop_oneof![Just(1u8), Just(2), Just(4), Just(16), Just(3), Just(5), Just(6), Just(7), Just(12)],
                    prop::bool::weighted(0.12),
                    any::<bool>(),
                    prop::bool::weighted(0.25),
                    prop_oneof![2 => Just(0u16), 1 => 50u16..600],
                )
            })
            .prop_map(|(mut threads, keys, gate, filler, cpus, local, hot, grumpy, ghost_removals)| {
                if gate {
                    // make the first op of most threads a load of one hot key
                    let hot_key = threads[0][0].key;
                    let n = threads.len();
                    for (i, t) in threads.iter_mut().enumerate() {
                        if i < n.max(2) - (n / 4) {
                            t[0] = Op { kind: Kind::Load, storable: false, key: hot_key, any: i % 2 == 1 };
                        }
                    }
                }
                to_case(&Case { threads, keys, gate, filler, cpus, local, hot, grumpy: grumpy && !local, ghost_removals })
            })
            .boxed()
    }

    fn run(&self, case: &Value) -> Outcome {
        let c: Case = from_case(case);
        let mut out = Outcome::new();
        ledger::reset();
        crate::calloc::reset_errors();
        CREATED.lock().unwrap().clear();
        if c.local {
            run_local(&c, &mut out);
        } else if c.grumpy {
            // the destructor panics are caught where they are legitimate; whatever else unwinds is a call that no value of its own made panic
            let r = std::panic::catch_unwind(std::panic::AssertUnwindSafe(|| run_shared(&c, &mut out)));
            GRUMPY.store(false, SeqCst);
            if let Err(p) = r {
                let msg = p.downcast_ref::<String>().cloned().or_else(|| p.downcast_ref::<&str>().map(|s| s.to_string())).unwrap_or_default();
                out.fail("innocent-racer-panicked", format!("a cache call of the main thread (look-ups after the racing phase, growth, drop) panicked: {msg}; only the call whose own losing value panicked in its destructor may unwind"));
            }
        } else {
            run_shared(&c, &mut out);
        }
        out.label(format!("cpus:{}", c.cpus));
        if c.filler >= 5000 {
            out.label("growth>=5000");
        }
        if c.ghost_removals > 0 && !c.local {
            out.label("ghost-removals-first");
        }
        out
    }

    fn required_labels(&self) -> Vec<&'static str> {
        vec!["simultaneous-miss", "lost-race", "local-cache", "growth>=5000", "loser-destructor-panicked"]
    }
}
