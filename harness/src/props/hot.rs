//! Shared machinery of the hot-reloading properties (C05, C06, C14, ...):
//! generated worlds (dependency DAGs as recipes), edit/notification steps,
//! the step runner with its quiescence barrier, and the common oracles.

use crate::engine::Outcome;
use crate::memsrc::{OwnedEntry, Variant};
use crate::world::{self, affected, AKey, Dep, Ev, Fresh, Kind, ROp, SecondCache, World, SENTINEL};
use assets_manager::{ReloadId, ReloadWatcher};
use proptest::prelude::*;
use serde::{Deserialize, Serialize};
use std::collections::{BTreeMap, BTreeSet, HashMap};

pub const LEAVES: [&str; 7] = ["l0", "l1", "l2", "d.l3", "d.l4", "d.e.l5", "g.l6"];
pub const STATIC_LEAVES: [&str; 2] = ["s0", "d.s1"];
pub const DIRS: [&str; 4] = ["", "d", "d.e", "g"];

#[derive(Clone, Debug, Serialize, Deserialize, PartialEq)]
pub enum Content {
    Ok(u16),
    Bad,
    Panic,
}

impl Content {
    pub fn bytes(&self) -> Vec<u8> {
        match self {
            Content::Ok(v) => format!("ok:v{v}").into_bytes(),
            Content::Bad => b"bad".to_vec(),
            Content::Panic => b"panic".to_vec(),
        }
    }
}

#[derive(Clone, Debug, Serialize, Deserialize)]
pub struct NodeDef {
    pub kind: Kind,
    pub id: String,
    pub ops: Vec<ROp>,
}

#[derive(Clone, Debug, Serialize, Deserialize)]
pub enum Edit {
    /// write a leaf file (`ext` = la | lb | ls)
    SetFile { id: String, ext: String, content: Content },
    DeleteFile { id: String, ext: String },
    /// rewrite a node's recipe (dependency rewiring)
    Rewire { kind: Kind, id: String, ops: Vec<ROp> },
    CorruptRecipe { kind: Kind, id: String },
    MkDir { id: String },
    /// repair everything that is broken now: bad / panicking leaf files get a valid value, corrupted
    /// recipes get their last good version back (resolved by the runner)
    RepairAll { value: u16 },
}

impl Edit {
    /// The entries a filesystem watcher would report for this edit.
    pub fn notifications(&self, existed: bool) -> Vec<OwnedEntry> {
        let parent = |id: &str| OwnedEntry::Dir(crate::memsrc::parent_of(id).unwrap_or("").to_string());
        match self {
            Edit::SetFile { id, ext, .. } => {
                let mut v = vec![OwnedEntry::File(id.clone(), ext.clone())];
                if !existed {
                    v.push(parent(id));
                }
                v
            }
            Edit::DeleteFile { id, ext } => vec![OwnedEntry::File(id.clone(), ext.clone()), parent(id)],
            Edit::Rewire { kind, id, .. } | Edit::CorruptRecipe { kind, id } => vec![OwnedEntry::File(id.clone(), kind.recipe_ext().to_string())],
            Edit::MkDir { id } => vec![OwnedEntry::Dir(id.clone()), parent(id)],
            Edit::RepairAll { .. } => vec![],
        }
    }
}

#[derive(Clone, Debug, Serialize, Deserialize)]
pub struct Step {
    pub edits: Vec<Edit>,
    /// per edit: is it notified? (C05: always)
    pub notified: Vec<bool>,
    pub batched: bool,
    pub duplicate: bool,
    /// unrelated / unknown entries notified as well
    pub noise: Vec<OwnedEntry>,
    /// shuffle key for the order of notifications
    pub order: u16,
}

#[derive(Clone, Debug, Serialize, Deserialize)]
pub struct WCase {
    /// initial leaf files: (id, ext, content)
    pub files: Vec<(String, String, Content)>,
    pub nodes: Vec<NodeDef>,
    /// top-level loads (kind, id, owned)
    pub top: Vec<(Kind, String, bool)>,
    pub static_mode: bool,
    pub second: SecondCache,
    /// files of the second source
    pub files2: Vec<(String, String, Content)>,
    pub steps: Vec<Step>,
    /// C14 only: a history over a tree of directories whose assets are selected by a custom DirLoadable
    #[serde(default)]
    pub dir_ops: Vec<DirOp>,
    /// C05 only: (rounds, microseconds at schedule point 0, microseconds at schedule point 1) of the
    /// widened-windows scenario (the reloader's loop is slowed down at its two schedule points)
    #[serde(default)]
    pub windows: Option<(u8, u16, u16)>,
}

#[derive(Clone, Debug, Serialize, Deserialize, PartialEq, Eq)]
pub enum DirOp {
    /// creates `<parent>.<name>` with a manifest listing `ids` (edits the manifest if the directory exists)
    AddDir { parent: u8, name: u8, ids: Vec<u8> },
    /// removes a directory without sub-directories (never the root of the tree)
    RemoveDir { dir: u8 },
    EditManifest { dir: u8, ids: Vec<u8> },
}

// ---------------------------------------------------------------------------
// generators

#[derive(Clone, Copy, Debug)]
pub struct GenOpts {
    /// weight of NR / TH / OC / Catch blocks
    pub blocks: u32,
    /// allow un-notified edits and noise (C06)
    pub unnotified: bool,
    pub max_nodes: usize,
    pub max_steps: usize,
    pub faults: bool,
}

fn leaf_target() -> impl Strategy<Value = (Kind, String)> {
    prop_oneof![
        8 => (0..LEAVES.len()).prop_map(|i| (Kind::Leaf, LEAVES[i].to_string())),
        2 => (0..STATIC_LEAVES.len()).prop_map(|i| (Kind::LeafS, STATIC_LEAVES[i].to_string())),
    ]
}

fn dir_target() -> impl Strategy<Value = String> {
    (0..DIRS.len()).prop_map(|i| DIRS[i].to_string())
}

/// Ops that do not reference other nodes.
fn basic_op(faults: bool) -> BoxedStrategy<ROp> {
    prop_oneof![
        10 => (leaf_target(), prop::bool::weighted(0.4)).prop_map(|((kind, id), tolerant)| ROp::L { kind, id, tolerant }),
        3 => leaf_target().prop_map(|(kind, id)| ROp::G { kind, id }),
        3 => (leaf_target(), prop::bool::weighted(0.4)).prop_map(|((kind, id), tolerant)| ROp::O { kind, id, tolerant }),
        2 => dir_target().prop_map(|id| ROp::L { kind: Kind::Dir, id, tolerant: true }),
        2 => dir_target().prop_map(|id| ROp::L { kind: Kind::Rec, id, tolerant: true }),
        2 => ((0..LEAVES.len()), prop_oneof![Just("la"), Just("lb"), Just("raw")]).prop_map(|(i, ext)| ROp::F { id: LEAVES[i].to_string(), ext: ext.to_string() }),
        1 => dir_target().prop_map(|id| ROp::X { id }),
        if faults { 1 } else { 0 } => Just(ROp::Fail),
    ]
    .boxed()
}

/// An op of node number `i` (may reference nodes with a smaller number through
/// load / load_owned, any node through get_cached).
fn node_op(i: usize, kinds: Vec<Kind>, opts: GenOpts) -> BoxedStrategy<ROp> {
    let lower = i;
    let kinds2 = kinds.clone();
    let kinds3 = kinds.clone();
    let sub = prop::collection::vec(basic_op(opts.faults), 1..3);
    let catch_sub = (prop::collection::vec(basic_op(opts.faults), 0..3), prop::bool::weighted(0.6), 0u8..4).prop_map(|(mut v, p, wrap)| {
        if p {
            v.push(ROp::Panic);
        }
        // the panic may come out of a no_record block (entered through this or the other cache)
        match wrap {
            0 => vec![ROp::NR(v)],
            1 => vec![ROp::NRO(v)],
            _ => v,
        }
    });
    prop_oneof![
        10 => basic_op(opts.faults),
        if lower > 0 { 10 } else { 0 } => (0..lower.max(1), prop::bool::weighted(0.3)).prop_map(move |(j, tolerant)| ROp::L { kind: kinds[j], id: format!("n{j}"), tolerant }),
        if lower > 0 { 3 } else { 0 } => (0..lower.max(1), prop::bool::weighted(0.3)).prop_map(move |(j, tolerant)| ROp::O { kind: kinds2[j], id: format!("n{j}"), tolerant }),
        // look-ups stay acyclic here (cyclic look-ups are C08's domain: no fixed point exists for values)
        if lower > 0 { 3 } else { 0 } => (0..lower.max(1)).prop_map(move |j| ROp::G { kind: kinds3[j], id: format!("n{j}") }),
        opts.blocks => sub.clone().prop_map(ROp::NR),
        opts.blocks => sub.clone().prop_map(ROp::NRO),
        opts.blocks => sub.clone().prop_map(ROp::TH),
        opts.blocks => sub.prop_map(ROp::OC),
        opts.blocks => catch_sub.prop_map(ROp::Catch),
    ]
    .boxed()
}

fn content() -> impl Strategy<Value = Content> {
    prop_oneof![12 => (0u16..1000).prop_map(Content::Ok), 3 => Just(Content::Bad), 1 => Just(Content::Panic)]
}

fn node_kinds(max_nodes: usize) -> impl Strategy<Value = Vec<Kind>> {
    prop::collection::vec(prop_oneof![5 => Just(Kind::N0), 4 => Just(Kind::N1), 1 => Just(Kind::NS)], 1..=max_nodes)
}

fn recipe(i: usize, kinds: Vec<Kind>, opts: GenOpts) -> BoxedStrategy<Vec<ROp>> {
    prop::collection::vec(node_op(i, kinds, opts), 1..5).boxed()
}

fn edit_strategy(kinds: Vec<Kind>, opts: GenOpts) -> BoxedStrategy<Edit> {
    let n = kinds.len();
    let k1 = kinds.clone();
    let k2 = kinds.clone();
    let rewire = (0..n).prop_flat_map(move |i| {
        let kind = k1[i];
        recipe(i, k1.clone(), opts).prop_map(move |ops| Edit::Rewire { kind, id: format!("n{i}"), ops })
    });
    prop_oneof![
        10 => ((0..LEAVES.len()), prop_oneof![4 => Just("la"), 1 => Just("lb")], content()).prop_map(|(i, ext, content)| Edit::SetFile { id: LEAVES[i].to_string(), ext: ext.to_string(), content }),
        1 => ((0..STATIC_LEAVES.len()), content()).prop_map(|(i, content)| Edit::SetFile { id: STATIC_LEAVES[i].to_string(), ext: "ls".to_string(), content }),
        3 => ((0..LEAVES.len()), prop_oneof![4 => Just("la"), 1 => Just("lb")]).prop_map(|(i, ext)| Edit::DeleteFile { id: LEAVES[i].to_string(), ext: ext.to_string() }),
        5 => rewire,
        2 => (0..n).prop_map(move |i| Edit::CorruptRecipe { kind: k2[i], id: format!("n{i}") }),
        1 => prop_oneof![Just("d.f"), Just("h"), Just("d.e.k")].prop_map(|id| Edit::MkDir { id: id.to_string() }),
        3 => (0u16..1000).prop_map(|value| Edit::RepairAll { value }),
        1 => (prop_oneof![Just("d.f.x0"), Just("h.x1"), Just("d.x2")], content()).prop_map(|(id, content)| Edit::SetFile { id: id.to_string(), ext: "la".to_string(), content }),
    ]
    .boxed()
}

fn noise_entry() -> impl Strategy<Value = OwnedEntry> {
    prop_oneof![
        (0..LEAVES.len()).prop_map(|i| OwnedEntry::File(LEAVES[i].to_string(), "la".to_string())),
        (0..LEAVES.len()).prop_map(|i| OwnedEntry::File(LEAVES[i].to_string(), "zz".to_string())),
        Just(OwnedEntry::File("unknown".to_string(), "la".to_string())),
        Just(OwnedEntry::Dir("nodir".to_string())),
        dir_target().prop_map(OwnedEntry::Dir),
    ]
}

fn step_strategy(kinds: Vec<Kind>, opts: GenOpts) -> BoxedStrategy<Step> {
    (
        prop::collection::vec(edit_strategy(kinds, opts), 1..4),
        prop::collection::vec(if opts.unnotified { prop::bool::weighted(0.7).boxed() } else { Just(true).boxed() }, 4),
        any::<bool>(),
        prop::bool::weighted(0.3),
        prop::collection::vec(noise_entry(), 0..3),
        any::<u16>(),
    )
        .prop_map(|(edits, notified, batched, duplicate, noise, order)| Step { edits, notified, batched, duplicate, noise, order })
        .boxed()
}

pub fn wcase_strategy(opts: GenOpts, static_prob: f64) -> BoxedStrategy<WCase> {
    node_kinds(opts.max_nodes)
        .prop_flat_map(move |kinds| {
            let n = kinds.len();
            let recipes: Vec<BoxedStrategy<Vec<ROp>>> = (0..n).map(|i| recipe(i, kinds.clone(), opts)).collect();
            let files = prop::collection::vec((0..LEAVES.len(), prop_oneof![5 => Just("la"), 1 => Just("lb")], content()), 3..10);
            let sfiles = prop::collection::vec((0..STATIC_LEAVES.len(), content()), 0..3);
            let top = prop::collection::vec((0..n + 2, prop::bool::weighted(0.12)), n..2 * n + 3);
            let second = if opts.blocks > 0 {
                prop_oneof![2 => Just(SecondCache::WithReloader), 1 => Just(SecondCache::WithoutReloader), 1 => Just(SecondCache::None)].boxed()
            } else {
                Just(SecondCache::None).boxed()
            };
            let steps = prop::collection::vec(step_strategy(kinds.clone(), opts), 1..=opts.max_steps);
            (Just(kinds), recipes, files, sfiles, top, prop::bool::weighted(static_prob), second, steps)
        })
        .prop_map(|(kinds, recipes, files, sfiles, top, static_mode, second, steps)| {
            let n = kinds.len();
            let nodes: Vec<NodeDef> = (0..n).map(|i| NodeDef { kind: kinds[i], id: format!("n{i}"), ops: recipes[i].clone() }).collect();
            let mut f: Vec<(String, String, Content)> = files.into_iter().map(|(i, ext, c)| (LEAVES[i].to_string(), ext.to_string(), c)).collect();
            f.extend(sfiles.into_iter().map(|(i, c)| (STATIC_LEAVES[i].to_string(), "ls".to_string(), c)));
            let top = top
                .into_iter()
                .map(|(i, owned)| {
                    if i < n {
                        (kinds[i], format!("n{i}"), owned)
                    } else {
                        let l = (i - n) % LEAVES.len();
                        (Kind::Leaf, LEAVES[l].to_string(), owned)
                    }
                })
                .collect();
            // the second source holds a copy of the leaves with other values
            let files2 = f.iter().map(|(i, e, c)| (i.clone(), e.clone(), match c { Content::Ok(v) => Content::Ok(v + 5000), o => o.clone() })).collect();
            // OC blocks must not be used in static mode (the second cache does not outlive the case)
            let second = if static_mode { SecondCache::None } else { second };
            WCase { files: f, nodes, top, static_mode, second, files2, steps, dir_ops: vec![], windows: None }
        })
        .boxed()
}

// ---------------------------------------------------------------------------
// runner

pub struct Watch {
    pub watcher: ReloadWatcher<'static>,
    pub last_id: ReloadId,
    /// growths observed by polling after every pass, since the last check
    pub growths: u32,
    /// growths since the watcher / global flag were last asked
    pub since_asked: u32,
}

pub struct Runner {
    pub world: World,
    /// every (kind, id) that may ever be cached in this case
    pub candidates: BTreeSet<AKey>,
    pub watches: BTreeMap<AKey, Watch>,
    /// last good recipe per node (to tell a rewiring from a no-op)
    pub values_before: BTreeMap<AKey, String>,
    pub reloader_tid: Option<u32>,
    main_tid: u32,
    /// events of the current step, split in passes (one per hot_reload call)
    pub passes: Vec<Vec<Ev>>,
    /// last well-formed recipe of every node
    pub good_recipes: BTreeMap<AKey, Vec<ROp>>,
    /// thread dump taken when a barrier gave up in enhance_hot_reloading mode
    pub lost_detail: String,
    /// hot_reload mode: barriers whose first hot_reload call returned without the sentinel's change (notified
    /// before the call, by the calling thread) having been applied, and the number of further calls it took
    pub late_applications: Vec<u64>,
}

pub fn candidates_of(c: &WCase) -> BTreeSet<AKey> {
    let mut s = BTreeSet::new();
    s.insert((Kind::Leaf, SENTINEL.to_string()));
    for l in LEAVES {
        s.insert((Kind::Leaf, l.to_string()));
    }
    for l in ["d.f.x0", "h.x1", "d.x2"] {
        s.insert((Kind::Leaf, l.to_string()));
    }
    for l in STATIC_LEAVES {
        s.insert((Kind::LeafS, l.to_string()));
    }
    for n in &c.nodes {
        s.insert((n.kind, n.id.clone()));
    }
    for d in DIRS.iter().copied().chain(["d.f", "h", "d.e.k"]) {
        s.insert((Kind::Dir, d.to_string()));
        s.insert((Kind::Rec, d.to_string()));
    }
    s
}

impl Runner {
    pub fn new(c: &WCase) -> Runner {
        let world = World::new(c.static_mode, c.second);
        {
            let mut t = world.src.tree();
            for (id, ext, content) in &c.files {
                t.put(id, ext, content.bytes(), Variant::Buffer);
            }
            for n in &c.nodes {
                t.put(&n.id, n.kind.recipe_ext(), world::recipe_bytes(&n.ops), Variant::Buffer);
            }
            for d in DIRS {
                t.mkdirs(d);
            }
        }
        if let Some(s2) = &world.src2 {
            let mut t = s2.tree();
            for (id, ext, content) in &c.files2 {
                t.put(id, ext, content.bytes(), Variant::Buffer);
            }
        }
        Runner {
            world,
            candidates: candidates_of(c),
            watches: BTreeMap::new(),
            values_before: BTreeMap::new(),
            reloader_tid: None,
            main_tid: crate::procfs::gettid(),
            passes: Vec::new(),
            good_recipes: c.nodes.iter().map(|n| ((n.kind, n.id.clone()), n.ops.clone())).collect(),
            lost_detail: String::new(),
            late_applications: Vec::new(),
        }
    }

    /// Runs the top-level loads (panics of loaders are caught: they unwind to the caller).
    pub fn initial_loads(&mut self, c: &WCase) {
        for (kind, id, owned) in &c.top {
            let w = &self.world;
            let _ = std::panic::catch_unwind(std::panic::AssertUnwindSafe(|| {
                if *owned {
                    let _ = w.top_load_owned(*kind, id);
                } else {
                    let _ = w.top_load(*kind, id);
                }
            }));
        }
        self.refresh_watches();
        self.snapshot_values();
        // events of the initial phase are not part of any pass
        let _ = self.world.take_events();
    }

    pub fn cached(&self) -> BTreeSet<AKey> {
        self.world.cached_keys(&self.candidates)
    }

    /// A new watcher (never asked) on the cached asset, and the asset's current reload id
    pub fn new_watcher(&self, key: &AKey) -> Option<(ReloadWatcher<'static>, ReloadId)> {
        let any = self.world.any();
        let (kind, id) = key;
        macro_rules! w {
            ($t:ty) => {
                any.get_cached::<$t>(id).map(|h| (h.reload_watcher(), h.last_reload_id()))
            };
        }
        match kind {
            Kind::Leaf => w!(world::Leaf),
            Kind::LeafS => w!(world::LeafS),
            Kind::N0 => w!(world::N0),
            Kind::N1 => w!(world::N1),
            Kind::NS => w!(world::NS),
            Kind::Dir => w!(assets_manager::Directory<world::Leaf>),
            Kind::Rec => w!(assets_manager::RecursiveDirectory<world::Leaf>),
        }
    }

    pub fn refresh_watches(&mut self) {
        for key in self.cached() {
            if !self.watches.contains_key(&key) {
                let any = self.world.any();
                let got = self.new_watcher(&key);
                if let Some((watcher, last_id)) = got {
                    // start from a clean global flag (the asset may have been cached and re-loaded within one step)
                    if !self.watches.is_empty() {
                        let _ = world::typed_reloaded_global(any, key.0, &key.1);
                    }
                    self.watches.insert(key, Watch { watcher, last_id, growths: 0, since_asked: 0 });
                }
            }
        }
    }

    pub fn snapshot_values(&mut self) {
        self.values_before.clear();
        for key in self.cached() {
            if let Some(v) = self.world.cached_value(self.world.tag, key.0, &key.1) {
                self.values_before.insert(key, v);
            }
        }
    }

    /// Polls every watched reload id; counts a growth when it changed.
    fn poll_ids(&mut self) {
        let any = self.world.any();
        for (key, w) in self.watches.iter_mut() {
            if let Some(id) = world::typed_reload_id(any, key.0, &key.1) {
                if id != w.last_id {
                    w.growths += 1;
                    w.since_asked += 1;
                    w.last_id = id;
                }
            }
        }
    }

    /// Applies the edits of a step to the source; returns the notifications to send.
    pub fn apply_edits(&mut self, step: &Step) -> Vec<OwnedEntry> {
        let mut notes = Vec::new();
        for (k, e) in step.edits.iter().enumerate() {
            let existed;
            {
                let mut t = self.world.src.tree();
                match e {
                    Edit::SetFile { id, ext, content } => {
                        existed = t.files.contains_key(&(id.clone(), ext.clone()));
                        t.put(id, ext, content.bytes(), Variant::Buffer);
                    }
                    Edit::DeleteFile { id, ext } => {
                        existed = t.remove(id, ext);
                    }
                    Edit::Rewire { kind, id, ops } => {
                        existed = true;
                        t.put(id, kind.recipe_ext(), world::recipe_bytes(ops), Variant::Buffer);
                        self.good_recipes.insert((*kind, id.clone()), ops.clone());
                    }
                    Edit::RepairAll { value } => {
                        existed = true;
                        let broken: Vec<(String, String)> = t
                            .files
                            .iter()
                            .filter(|(_, c)| matches!(&c.bytes[..], b"bad" | b"panic" | b"garbage"))
                            .map(|(k, _)| k.clone())
                            .collect();
                        for (id, ext) in broken {
                            let kind = match ext.as_str() {
                                "n0" => Some(Kind::N0),
                                "n1" => Some(Kind::N1),
                                "ns" => Some(Kind::NS),
                                _ => None,
                            };
                            match kind {
                                Some(k) => {
                                    if let Some(ops) = self.good_recipes.get(&(k, id.clone())) {
                                        t.put(&id, &ext, world::recipe_bytes(ops), Variant::Buffer);
                                    }
                                }
                                None => t.put(&id, &ext, format!("ok:v{value}").into_bytes(), Variant::Buffer),
                            }
                            if step.notified.get(k).copied().unwrap_or(true) {
                                notes.push(OwnedEntry::File(id, ext));
                            }
                        }
                    }
                    Edit::CorruptRecipe { kind, id } => {
                        existed = true;
                        t.put(id, kind.recipe_ext(), b"garbage".to_vec(), Variant::Buffer);
                    }
                    Edit::MkDir { id } => {
                        existed = t.dir_exists(id);
                        t.mkdirs(id);
                    }
                }
            }
            if step.notified.get(k).copied().unwrap_or(true) {
                notes.extend(e.notifications(existed));
            }
        }
        notes
    }

    /// Sends the notifications of a step (order, duplicates, noise, batching as generated).
    pub fn send(&self, step: &Step, mut notes: Vec<OwnedEntry>) -> Vec<OwnedEntry> {
        notes.extend(step.noise.iter().cloned());
        if step.duplicate {
            let d = notes.clone();
            notes.extend(d);
        }
        // deterministic shuffle from the generated key
        let mut key = step.order as u64 + 1;
        for i in (1..notes.len()).rev() {
            key = key.wrapping_mul(6364136223846793005).wrapping_add(1442695040888963407);
            let j = (key >> 33) as usize % (i + 1);
            notes.swap(i, j);
        }
        self.world.sender_send(&notes, step.batched);
        notes
    }

    /// Quiescence barrier; collects the events of every pass and polls reload ids after every pass.
    /// Returns `false` if the sentinel's notified change was never applied (a lost reload): in hot_reload()
    /// mode after 4000 complete request/answer round trips that all started after the notification was sent;
    /// in enhance_hot_reloading mode when every other thread of the process is asleep with zero CPU over five samples spaced by >= 300 ms.
    #[must_use]
    pub fn barrier(&mut self) -> bool {
        self.passes.clear();
        let mut rounds = 0u64;
        let mut idle_samples = 0u32;
        let mut last_sample: Option<(std::time::Instant, u64)> = None;
        let mut lost = false;
        let w = &mut self.world;
        let before = w.cache.get_cached::<world::Leaf>(SENTINEL).expect("sentinel").last_reload_id();
        let version = w.barrier_calls + 1_000_000;
        w.src.tree().put(SENTINEL, "la", format!("ok:S{version}").into_bytes(), Variant::Buffer);
        w.src.send(&OwnedEntry::File(SENTINEL.to_string(), "la".to_string()));
        loop {
            if !self.world.static_mode {
                self.world.cache.hot_reload();
                self.world.barrier_calls += 1;
            } else {
                // sleep rather than spin: this loop takes the recorder's lock at every turn, and an unfair mutex
                // lets a spinning poller starve the reloader thread for as long as it spins (the reloader would
                // then look asleep with zero CPU to the lost-reload criterion below)
                std::thread::sleep(std::time::Duration::from_micros(if rounds < 50 { 50 } else { 500 }));
            }
            let evs = self.world.take_events();
            if !evs.is_empty() || !self.world.static_mode {
                self.passes.push(evs);
            }
            self.poll_ids();
            let now = self.world.cache.get_cached::<world::Leaf>(SENTINEL).expect("sentinel").last_reload_id();
            if now != before {
                break;
            }
            rounds += 1;
            if !self.world.static_mode {
                if rounds > 4000 {
                    lost = true;
                    break;
                }
            } else if rounds % 64 == 0 {
                // is every other thread of this process (the reloader, helper threads of recipes, ...) asleep
                // without having consumed any CPU since the last sample? Then nothing can apply the change any more.
                let me = crate::procfs::self_threads();
                let my_tid = crate::procfs::gettid();
                let st: Vec<_> = me.iter().filter(|t| t.tid != my_tid).collect();
                let all_asleep = st.iter().any(|t| t.comm.starts_with("assets_hot_relo")) && st.iter().all(|t| t.state == 'S');
                let ticks: u64 = st.iter().map(|t| t.ticks).sum();
                match last_sample {
                    Some((t0, ticks0)) if all_asleep && ticks0 == ticks => {
                        if t0.elapsed() >= std::time::Duration::from_millis(300) {
                            idle_samples += 1;
                            last_sample = Some((std::time::Instant::now(), ticks));
                        }
                    }
                    _ => {
                        idle_samples = 0;
                        last_sample = Some((std::time::Instant::now(), ticks));
                    }
                }
                if idle_samples >= 5 {
                    lost = true;
                    // diagnostics: what every thread is waiting in
                    let dump: Vec<String> = me
                        .iter()
                        .map(|t| {
                            let w = std::fs::read_to_string(format!("/proc/self/task/{}/wchan", t.tid)).unwrap_or_default();
                            format!("{}:{}:{}:{}", t.comm, t.tid, t.state, w.trim())
                        })
                        .collect();
                    self.lost_detail = dump.join(" ");
                    break;
                }
            }
        }
        if !self.world.static_mode && rounds > 0 {
            self.late_applications.push(rounds);
        }
        // (enhance_hot_reloading mode) the sentinel may have been rewritten between the poll and the test above
        self.poll_ids();
        let evs = self.world.take_events();
        if !evs.is_empty() {
            self.passes.push(evs);
        }
        // learn the reloader's thread id from the sentinel's self-read
        if self.reloader_tid.is_none() {
            for p in &self.passes {
                for e in p {
                    if let Ev::SelfRead { id, tid, .. } = e {
                        if id == SENTINEL && *tid != self.main_tid {
                            self.reloader_tid = Some(*tid);
                        }
                    }
                }
            }
        }
        // commit what the crate read while re-loading leaves by itself
        let grown: BTreeSet<String> = self.watches.iter().filter(|(k, w)| k.0 == Kind::Leaf && w.growths > 0).map(|(k, _)| k.1.clone()).collect();
        self.world.commit_self_reloads(&|id| grown.contains(id));
        self.refresh_watches();
        let reloaded: BTreeSet<AKey> = self.watches.iter().filter(|(_, w)| w.growths > 0).map(|(k, _)| k.clone()).collect();
        self.world.sync_analytic(&self.cached(), &reloaded);
        !lost
    }

    pub fn all_events(&self) -> impl Iterator<Item = &Ev> {
        self.passes.iter().flatten()
    }

    pub fn harness_violations(&self) -> Vec<String> {
        self.all_events()
            .filter_map(|e| match e {
                Ev::Violation(m) => Some(m.clone()),
                _ => None,
            })
            .collect()
    }

    /// Keys (re)loaded successfully / unsuccessfully on the reloader thread, per pass, in order.
    pub fn reload_attempts(&self) -> Vec<Vec<(AKey, Option<bool>)>> {
        let rt = self.reloader_tid;
        let mut out = Vec::new();
        for p in &self.passes {
            let mut v: Vec<(AKey, Option<bool>)> = Vec::new();
            for e in p {
                match e {
                    Ev::Loaded { key, tid, ok, tag, depth, .. } if Some(*tid) == rt && *tag == self.world.tag && *depth == 0 => {
                        // nested loads of uncached assets during a reload are loads, not reloads: keep only
                        // keys that were cached before the step
                        v.push((key.clone(), Some(*ok)));
                    }
                    Ev::SelfRead { id, tid, ext, .. } if Some(*tid) == rt => {
                        let key = (Kind::Leaf, id.clone());
                        // one attempt per leaf per pass ("la" is always read first)
                        if ext == "la" {
                            v.push((key, None));
                        }
                    }
                    _ => {}
                }
            }
            out.push(v);
        }
        out
    }
}

// ---------------------------------------------------------------------------
// oracles shared by C05 / C06

/// Convergence (C05): every cached reloadable asset equals a fresh evaluation.
/// Returns the number of assets checked.
/// Removes the text of `NR[..]`, `TH[..]` and `OC[..]` blocks: what is read there is not tracked by design,
/// so the cached value may legitimately lag behind in those parts.
pub fn strip_untracked(s: &str) -> String {
    let b = s.as_bytes();
    let mut out = String::with_capacity(s.len());
    let mut i = 0;
    while i < b.len() {
        let rest = &s[i..];
        if rest.starts_with("NR[") || rest.starts_with("TH[") || rest.starts_with("OC[") {
            let mut depth = 0i32;
            let mut j = i + 2;
            while j < b.len() {
                if b[j] == b'[' {
                    depth += 1;
                } else if b[j] == b']' {
                    depth -= 1;
                    if depth == 0 {
                        break;
                    }
                }
                j += 1;
            }
            out.push_str(&s[i..i + 2]);
            out.push_str("[..]");
            i = j + 1;
        } else {
            let ch = rest.chars().next().unwrap();
            out.push(ch);
            i += ch.len_utf8();
        }
    }
    out
}

pub fn check_convergence(r: &Runner, out: &mut Outcome, step_no: usize, grew: &BTreeMap<AKey, u32>, deps_before: &HashMap<(u32, AKey), BTreeSet<Dep>>, notes: &[OwnedEntry]) -> u32 {
    let tag = r.world.tag;
    let deps_now = r.world.shadow_deps();
    // assets that recorded (before the step or by a reload during it) a dependency chain to a notified entry
    let mut union = deps_before.clone();
    for (k, v) in &deps_now {
        union.entry(k.clone()).or_default().extend(v.iter().cloned());
    }
    let affected_now = affected(&union, tag, notes);
    let tolerated = r.world.shadow_tolerated();
    let failed_extra = r.world.shadow_failed_extra();
    let mut checked = 0;
    let attempts = r.reload_attempts();
    for key in r.cached() {
        let (kind, id) = &key;
        if !kind.type_reloadable() {
            continue;
        }
        // an asset whose latest load looked up (kind, id) - successfully or not: the look-up itself is the recorded
        // dependency - is reloaded whenever that entry is reloaded
        if grew.get(&key).copied().unwrap_or(0) == 0 && r.values_before.contains_key(&key) {
            if let Some(ds) = deps_before.get(&(tag, key.clone())) {
                // only edges that still exist after the step: an owned load of the same key during the step replaces
                // the recorded set (in the crate and in the shadow graph alike)
                let still = deps_now.get(&(tag, key.clone()));
                for d in ds.iter().filter(|d| still.map_or(false, |n| n.contains(*d))) {
                    if let Dep::Asset(dk, di) = d {
                        let dkey = (*dk, di.clone());
                        if dkey == key || grew.get(&dkey).copied().unwrap_or(0) == 0 {
                            continue;
                        }
                        let attempted = failed_extra.get(&(tag, key.clone())).map_or(false, |s| !s.is_empty()) || attempts.iter().any(|p| p.iter().any(|(k, _)| k == &key));
                        if !attempted {
                            out.fail(
                                "dependent-not-reloaded",
                                format!("step {step_no}: {kind:?} {id:?} looked up {dk:?} {di:?} in its latest load (a recorded dependency, whatever that look-up returned); {dk:?} {di:?} was reloaded in this step but {kind:?} {id:?} was not"),
                            );
                            return checked;
                        }
                    }
                }
            }
        }
        if !affected_now.contains(&key) {
            continue;
        }
        let cached = match r.world.cached_value(tag, *kind, id) {
            Some(v) => strip_untracked(&v),
            None => continue,
        };
        let fresh = r.world.fresh(*kind, id);
        let had_failed_attempt = failed_extra.get(&(tag, key.clone())).map_or(false, |s| !s.is_empty());
        let tol = tolerated.get(&(tag, key.clone())).copied().unwrap_or(false);
        match fresh {
            Fresh::Ok(v) => {
                let v = strip_untracked(&v);
                if cached != v {
                    if tol || had_failed_attempt {
                        // by design: a tolerated nested failure / absent look-up is not tracked, and entries
                        // only touched by a failed attempt are not part of the recorded dependencies
                        out.excluded += 1;
                        continue;
                    }
                    let new_dep_reloaded = explained_by_d11(r, &key, deps_before, &deps_now, grew);
                    let sig = if new_dep_reloaded { "new-dependency-reloaded-in-same-batch" } else { "not-converged" };
                    out.fail(
                        sig,
                        format!("step {step_no}: after the barrier {kind:?} {id:?} holds {cached:?} but loading it afresh from the current source and cache gives {v:?}"),
                    );
                    return checked;
                }
                checked += 1;
            }
            Fresh::Err | Fresh::Panic => {
                let g = grew.get(&key).copied().unwrap_or(0);
                if g == 0 {
                    if let Some(prev) = r.values_before.get(&key) {
                        if strip_untracked(prev) != cached {
                            out.fail("failed-reload-changed-value", format!("step {step_no}: {kind:?} {id:?} cannot be loaded from the current source, yet its value changed from {prev:?} to {cached:?} without a reload being reported"));
                            return checked;
                        }
                    }
                    checked += 1;
                } else {
                    out.excluded += 1;
                }
            }
            Fresh::Unknown => out.excluded += 1,
        }
    }
    checked
}

/// Known finding D11: the asset (or one it depends on) learned a *new* dependency in this step - or was loaded
/// for the first time in it - and that dependency was itself reloaded in the same step (the reload order was
/// computed before the new edge existed).
pub fn explained_by_d11(r: &Runner, key: &AKey, deps_before: &HashMap<(u32, AKey), BTreeSet<Dep>>, deps_now: &HashMap<(u32, AKey), BTreeSet<Dep>>, grew: &BTreeMap<AKey, u32>) -> bool {
    let tag = r.world.tag;
    let empty = BTreeSet::new();
    let learned_late = |k: &AKey| -> bool {
        let before = deps_before.get(&(tag, k.clone())).unwrap_or(&empty);
        deps_now.get(&(tag, k.clone())).map_or(false, |now| {
            now.iter().any(|d| match d {
                Dep::Asset(dk, di) if !before.contains(d) => {
                    let start = (*dk, di.clone());
                    grew.get(&start).copied().unwrap_or(0) > 0 || grew.iter().any(|(g, n)| *n > 0 && depends_on(deps_now, tag, &start, g))
                }
                _ => false,
            })
        })
    };
    learned_late(key) || deps_now.keys().any(|(t, k)| *t == tag && k != key && learned_late(k) && depends_on(deps_now, tag, key, k))
}

/// Dependencies-before-dependents inside every pass (hot_reload mode).
pub fn check_order(r: &Runner, out: &mut Outcome, step_no: usize, deps_before: &HashMap<(u32, AKey), BTreeSet<Dep>>) {
    // only edges that existed before the step and still exist after it are demanded
    // (an edge learned during the pass cannot have ordered it)
    let now = r.world.shadow_deps();
    let mut deps: HashMap<(u32, AKey), BTreeSet<Dep>> = HashMap::new();
    for (k, v) in deps_before {
        if let Some(n) = now.get(k) {
            deps.insert(k.clone(), v.intersection(n).cloned().collect());
        }
    }
    let tag = r.world.tag;
    for (pn, pass) in r.reload_attempts().iter().enumerate() {
        let keys: Vec<&AKey> = pass.iter().map(|(k, _)| k).collect();
        for i in 0..keys.len() {
            for j in i + 1..keys.len() {
                if keys[i] == keys[j] {
                    continue;
                }
                // does keys[i] depend (transitively) on keys[j]?
                if depends_on(&deps, tag, keys[i], keys[j]) {
                    out.fail(
                        "dependent-before-dependency",
                        format!("step {step_no}, pass {pn}: {:?} was reloaded before its dependency {:?}", keys[i], keys[j]),
                    );
                    return;
                }
            }
        }
    }
}

pub fn depends_on(deps: &HashMap<(u32, AKey), BTreeSet<Dep>>, tag: u32, a: &AKey, b: &AKey) -> bool {
    let mut stack = vec![a.clone()];
    let mut seen = BTreeSet::new();
    while let Some(k) = stack.pop() {
        if !seen.insert(k.clone()) {
            continue;
        }
        if let Some(ds) = deps.get(&(tag, k)) {
            for d in ds {
                if let Dep::Asset(kind, id) = d {
                    let key = (*kind, id.clone());
                    if &key == b {
                        return true;
                    }
                    stack.push(key);
                }
            }
        }
    }
    false
}

/// The assets affected by the notified entries according to the shadow graph
/// (lower bound: recorded by the latest successful load; upper bound: plus
/// what failed attempts touched).
pub fn affected_sets(r: &Runner, deps_before: &HashMap<(u32, AKey), BTreeSet<Dep>>, extra_before: &HashMap<(u32, AKey), BTreeSet<Dep>>, notes: &[OwnedEntry]) -> (BTreeSet<AKey>, BTreeSet<AKey>) {
    let tag = r.world.tag;
    let lower = affected(deps_before, tag, notes);
    let mut upper_deps = deps_before.clone();
    for (k, v) in extra_before {
        upper_deps.entry(k.clone()).or_default().extend(v.iter().cloned());
    }
    let upper = affected(&upper_deps, tag, notes);
    (lower, upper)
}
