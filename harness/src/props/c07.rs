//! C07 - readers are isolated from reloads: guards pin values, no torn reads.

use crate::engine::{from_case, to_case, Outcome, Plan, Prop, Tier};
use crate::memsrc::{MemSource, OwnedEntry, Variant};
use assets_manager::{loader::Loader, Asset, AssetCache, AssetReadGuard, BoxedError, Handle};
use proptest::prelude::*;
use serde::{Deserialize, Serialize};
use serde_json::Value;
use std::borrow::Cow;
use std::sync::atomic::{AtomicBool, AtomicU64, Ordering::SeqCst};
use std::sync::Mutex;

const MAGIC: u64 = 0x5EED_C0DE_F00D_BA5E;

pub trait Words: Send + Sync + Copy + 'static {
    fn words(&self) -> &[u64];
    fn make(version: u64) -> Self;
}

macro_rules! big {
    ($name:ident, $n:expr) => {
        #[derive(Clone, Copy)]
        pub struct $name(pub [u64; $n]);
        impl Words for $name {
            fn words(&self) -> &[u64] {
                &self.0
            }
            fn make(version: u64) -> Self {
                let mut a = [version; $n];
                a[$n - 1] = version ^ MAGIC;
                $name(a)
            }
        }
        impl Loader<$name> for WLoader {
            fn load(content: Cow<[u8]>, _: &str) -> Result<$name, BoxedError> {
                let v: u64 = std::str::from_utf8(&content)?.trim().parse()?;
                Ok(<$name as Words>::make(v))
            }
        }
        impl Asset for $name {
            const EXTENSION: &'static str = "w";
            type Loader = WLoader;
        }
    };
}

pub struct WLoader;
big!(W8, 8);
big!(W512, 512);
big!(W8192, 8192);

/// Returns the version if the value is complete (all words equal, checksum right).
fn validate(w: &[u64]) -> Result<u64, String> {
    let n = w.len();
    let v = w[0];
    for (i, x) in w[..n - 1].iter().enumerate() {
        if *x != v {
            return Err(format!("torn value: words[0] = {v} but words[{i}] = {x}"));
        }
    }
    if w[n - 1] != v ^ MAGIC {
        return Err(format!("torn value: version {v} but the checksum word belongs to version {}", w[n - 1] ^ MAGIC));
    }
    Ok(v)
}

#[derive(Debug, Clone, Copy, Serialize, Deserialize, PartialEq, Eq)]
pub enum Style {
    Short,
    Held { yields: u8 },
    Mapped,
    TryMapped,
    Copied,
    Watcher,
    /// samples (value, id) twice while no hot_reload call is in flight
    Bracket,
}

#[derive(Debug, Clone, Serialize, Deserialize)]
pub struct Case {
    size: u8,
    readers: Vec<Style>,
    reloads: u16,
}

struct Shared {
    stop: AtomicBool,
    started: AtomicU64,
    finished: AtomicU64,
    err: Mutex<Option<(String, String)>>,
    overlaps: AtomicU64,
}

impl Shared {
    fn fail(&self, sig: &str, what: String) {
        let mut e = self.err.lock().unwrap();
        if e.is_none() {
            *e = Some((sig.to_string(), what));
        }
        self.stop.store(true, SeqCst);
    }
}

fn reader<T: Words + Asset>(h: &Handle<T>, style: Style, sh: &Shared) {
    let mut seen_min = u64::MAX;
    let mut seen_max = 0u64;
    let mut watcher = h.reload_watcher();
    let mut reports = 0u64;
    let mut last_version = 0u64;
    while !sh.stop.load(SeqCst) {
        let version = match style {
            Style::Short => {
                let g = h.read();
                validate(g.words())
            }
            Style::Held { yields } => {
                let g = h.read();
                let id0 = h.last_reload_id();
                let v0 = validate(g.words());
                let mut r = v0.clone();
                for _ in 0..yields {
                    std::thread::yield_now();
                    let id = h.last_reload_id();
                    let v = validate(g.words());
                    if v != v0 {
                        r = Err(format!("the value behind a live read guard changed from {v0:?} to {v:?}"));
                        break;
                    }
                    if id != id0 {
                        sh.fail("id-moved-under-guard", format!("the reload id moved from {id0:?} to {id:?} while a read guard (value version {v0:?}) was alive"));
                        return;
                    }
                }
                r
            }
            Style::Mapped => {
                let g = AssetReadGuard::map(h.read(), |t| t.words());
                let a = validate(&g);
                std::thread::yield_now();
                let b = validate(&g);
                if a != b {
                    Err(format!("the value behind a live mapped guard changed from {a:?} to {b:?}"))
                } else {
                    a
                }
            }
            Style::TryMapped => match AssetReadGuard::try_map(h.read(), |t| Some(t.words())) {
                Ok(g) => {
                    let a = validate(&g);
                    std::thread::yield_now();
                    let b = validate(&g);
                    if a != b {
                        Err(format!("the value behind a live try_map guard changed from {a:?} to {b:?}"))
                    } else {
                        a
                    }
                }
                Err(_) => Err("try_map returned the original guard although the closure returned Some".into()),
            },
            Style::Copied => {
                let c = h.copied();
                validate(c.words())
            }
            Style::Watcher => {
                if watcher.reloaded() {
                    reports += 1;
                    let v = validate(h.read().words());
                    if let Ok(v) = v {
                        // every report stands for at least one more rewrite, and every rewrite installs the next version
                        if v < reports {
                            sh.fail("stale-after-report", format!("ReloadWatcher::reloaded() returned true for the {reports}th time, yet the value read right after still is version {v}"));
                            return;
                        }
                    }
                    v
                } else {
                    validate(h.read().words())
                }
            }
            Style::Bracket => {
                let f0 = sh.finished.load(SeqCst);
                let (v1, id1) = (validate(h.read().words()), h.last_reload_id());
                let (v2, id2) = (validate(h.read().words()), h.last_reload_id());
                let s1 = sh.started.load(SeqCst);
                if s1 == f0 && (v1 != v2 || id1 != id2) {
                    sh.fail(
                        "changed-outside-hot-reload",
                        format!("no thread was inside hot_reload (calls started = finished = {f0}) yet the value/id changed from ({v1:?}, {id1:?}) to ({v2:?}, {id2:?})"),
                    );
                    return;
                }
                v2
            }
        };
        match version {
            Ok(v) => {
                if v < last_version {
                    sh.fail("version-went-back", format!("a reader saw version {last_version} and later version {v}"));
                    return;
                }
                last_version = v;
                seen_min = seen_min.min(v);
                seen_max = seen_max.max(v);
            }
            Err(e) => {
                sh.fail("torn-or-unpinned-read", format!("{style:?}: {e}"));
                return;
            }
        }
    }
    if seen_max > seen_min {
        sh.overlaps.fetch_add(1, SeqCst);
    }
}

fn run_sized<T: Words + Asset>(c: &Case, out: &mut Outcome) {
    let src = MemSource::new(true);
    src.tree().put("big", "w", b"0".to_vec(), Variant::Buffer);
    let cache = AssetCache::with_source(src.handle());
    let h = cache.load::<T>("big").expect("load big");
    let sh = Shared { stop: AtomicBool::new(false), started: AtomicU64::new(0), finished: AtomicU64::new(0), err: Mutex::new(None), overlaps: AtomicU64::new(0) };
    let bracket = c.readers.iter().any(|s| matches!(s, Style::Bracket));
    std::thread::scope(|s| {
        for style in &c.readers {
            let (sh, style) = (&sh, *style);
            s.spawn(move || reader(h, style, sh));
        }
        // the writer: version i, notify, hot_reload until applied
        for i in 1..=c.reloads as u64 {
            if sh.stop.load(SeqCst) {
                break;
            }
            let before = h.last_reload_id();
            src.tree().put("big", "w", i.to_string().into_bytes(), Variant::Buffer);
            src.send(&OwnedEntry::File("big".into(), "w".into()));
            let mut rounds = 0;
            loop {
                sh.started.fetch_add(1, SeqCst);
                cache.hot_reload();
                sh.finished.fetch_add(1, SeqCst);
                if bracket {
                    // leave a window in which provably no call is in flight (for the bracket samplers)
                    for _ in 0..3000 {
                        std::hint::spin_loop();
                    }
                }
                if h.last_reload_id() != before {
                    break;
                }
                rounds += 1;
                if rounds > 4000 {
                    sh.fail("reload-lost", format!("version {i} was notified but never applied in 4000 hot_reload calls"));
                    break;
                }
            }
            // hot_reload returned: the reload it triggered is finished, the value is the new one
            match validate(h.read().words()) {
                Ok(v) if v == i => {}
                other => {
                    sh.fail("reload-not-finished", format!("hot_reload returned with the reload id advanced, but the value read by the same thread is {other:?}, expected version {i}"));
                    break;
                }
            }
        }
        sh.stop.store(true, SeqCst);
    });
    if let Some((sig, what)) = sh.err.lock().unwrap().take() {
        out.fail(sig, what);
    }
    if sh.overlaps.load(SeqCst) > 0 {
        out.nontrivial = true;
        out.label("read-overlapped-reloads");
    }
}

pub struct C07;

impl Prop for C07 {
    fn id(&self) -> &'static str {
        "C07"
    }

    fn rule(&self) -> String {
        "cases = (value size 64 B / 4 KiB / 64 KiB of self-checking words, 1..7 reader threads of styles {short read, guard held across k yields, mapped guard, try_map guard, copied(), polling watcher, in-flight bracket sampler}, \
         30..2000 reloads driven by one writer thread: write version i, notify, hot_reload until applied). Oracle: every read sees all words equal with a valid checksum; value and reload id are constant while a guard lives; \
         versions never go back; after the k-th true from ReloadWatcher::reloaded the value read is at least version k; two samples taken while started == finished hot_reload counters are equal; when hot_reload returns with the id advanced the writer reads the new version. \
         non-trivial = some reader saw at least two different versions (its reads overlapped reloads); distinct = different canonical JSON"
            .into()
    }

    fn assumptions(&self) -> Vec<String> {
        vec![
            "interleavings are sampled by the OS scheduler (many reloads x many readers), not enumerated".into(),
            "readers never hold two guards of one handle and the writer never holds a guard while calling hot_reload (documented preconditions)".into(),
        ]
    }

    fn plan(&self, tier: Tier) -> Plan {
        let mut p = Plan::new(match tier {
            Tier::Quick => 120,
            Tier::Thorough => 1500,
        });
        p.workers = 3;
        p.repeats = 3;
        p
    }

    fn strategy(&self, tier: Tier) -> BoxedStrategy<Value> {
        let max = if tier == Tier::Quick { 700u16 } else { 2000 };
        let style = prop_oneof![
            2 => Just(Style::Short),
            3 => (1u8..6).prop_map(|yields| Style::Held { yields }),
            1 => Just(Style::Mapped),
            1 => Just(Style::TryMapped),
            2 => Just(Style::Copied),
            2 => Just(Style::Watcher),
            2 => Just(Style::Bracket),
        ];
        (0u8..3, prop::collection::vec(style, 1..7), 30u16..max).prop_map(|(size, readers, reloads)| to_case(&Case { size, readers, reloads })).boxed()
    }

    fn run(&self, case: &Value) -> Outcome {
        let c: Case = from_case(case);
        let mut out = Outcome::new();
        match c.size {
            0 => run_sized::<W8>(&c, &mut out),
            1 => run_sized::<W512>(&c, &mut out),
            _ => run_sized::<W8192>(&c, &mut out),
        }
        out.label(format!("size:{}", ["64B", "4KiB", "64KiB"][c.size.min(2) as usize]));
        for s in &c.readers {
            out.label(match s {
                Style::Short => "short",
                Style::Held { .. } => "held-guard",
                Style::Mapped => "mapped",
                Style::TryMapped => "try-mapped",
                Style::Copied => "copied",
                Style::Watcher => "watcher",
                Style::Bracket => "bracket",
            });
        }
        out
    }

    fn required_labels(&self) -> Vec<&'static str> {
        vec!["read-overlapped-reloads", "held-guard", "copied", "watcher", "bracket"]
    }
}

/// A polling-reader race reused by C06: `ReloadWatcher::reloaded(); read()` against a stream of reloads,
/// with a guard-holding reader widening the window between publication and installation.
pub fn watcher_race(reloads: u16, size: u8) -> Option<(String, String)> {
    let c = Case { size, readers: vec![Style::Watcher, Style::Held { yields: 3 }, Style::Watcher, Style::Held { yields: 1 }], reloads };
    let mut out = Outcome::new();
    match size {
        0 => run_sized::<W8>(&c, &mut out),
        _ => run_sized::<W512>(&c, &mut out),
    }
    out.violation.map(|v| (v.sig, v.what))
}
