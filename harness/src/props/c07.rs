//! C07 - readers are isolated from reloads: guards pin values, no torn reads.

use crate::engine::{from_case, to_case, Outcome, Plan, Prop, Tier};
use crate::memsrc::{MemSource, OwnedEntry, Variant};
use assets_manager::{loader::Loader, AnyCache, Asset, AssetCache, AssetReadGuard, BoxedError, Compound, Handle, ReloadId, SharedString};
use proptest::prelude::*;
use serde::{Deserialize, Serialize};
use serde_json::Value;
use std::borrow::Cow;
use std::sync::atomic::{AtomicBool, AtomicU64, AtomicUsize, Ordering::SeqCst};
use std::sync::{Arc, Mutex};

const MAGIC: u64 = 0x5EED_C0DE_F00D_BA5E;

pub trait Words: Send + Sync + Copy + 'static {
    fn words(&self) -> &[u64];
    fn make(version: u64) -> Self;
}

macro_rules! big {
    ($name:ident, $n:expr) => {
        #[derive(Clone, Copy)]
        pub struct $name(pub [u64; $n]);
        impl Words for $name {
            fn words(&self) -> &[u64] {
                &self.0
            }
            fn make(version: u64) -> Self {
                let mut a = [version; $n];
                a[$n - 1] = version ^ MAGIC;
                $name(a)
            }
        }
        impl Loader<$name> for WLoader {
            fn load(content: Cow<[u8]>, _: &str) -> Result<$name, BoxedError> {
                let v: u64 = std::str::from_utf8(&content)?.trim().parse()?;
                if v >= RACE_BASE {
                    race_rendezvous();
                } else if v >= SLOW_BASE {
                    SLOW_STARTED.store(true, SeqCst);
                    let t = std::time::Instant::now();
                    while t.elapsed().as_millis() < 12 {
                        std::hint::spin_loop();
                    }
                }
                slow_loader();
                Ok(<$name as Words>::make(v))
            }
        }
        impl Asset for $name {
            const EXTENSION: &'static str = "w";
            type Loader = WLoader;
        }
    };
}

pub struct WLoader;

/// A plain-data value whose size (180 bytes) is not a multiple of 8 and whose alignment is 4: every cell holds the
/// version. (Entries are rewritten by swapping bytes: whatever unit the swap uses, the tail belongs to the value.)
#[derive(Clone, Copy)]
pub struct Odd(pub [u32; 45]);
impl Loader<Odd> for WLoader {
    fn load(content: Cow<[u8]>, _: &str) -> Result<Odd, BoxedError> {
        let v: u64 = std::str::from_utf8(&content)?.trim().parse()?;
        Ok(Odd([v as u32; 45]))
    }
}
impl Asset for Odd {
    const EXTENSION: &'static str = "od";
    type Loader = WLoader;
}

/// Versions from here on belong to the first-load race: their loaders wait (bounded) for each other,
/// so that every racer is past its cache miss before any of them inserts.
const RACE_BASE: u64 = 1 << 40;
static RACE_EXPECTED: AtomicUsize = AtomicUsize::new(0);
static RACE_ARRIVED: AtomicUsize = AtomicUsize::new(0);
fn race_rendezvous() {
    let exp = RACE_EXPECTED.load(SeqCst);
    RACE_ARRIVED.fetch_add(1, SeqCst);
    let mut spins = 0u32;
    while RACE_ARRIVED.load(SeqCst) < exp && spins < 400_000 {
        spins += 1;
        if spins % 64 == 0 {
            std::thread::yield_now();
        } else {
            std::hint::spin_loop();
        }
    }
}

/// Versions in SLOW_BASE..RACE_BASE take 12 ms to load (and say when they start).
const SLOW_BASE: u64 = 1 << 30;
static SLOW_STARTED: AtomicBool = AtomicBool::new(false);

/// A notification about a file that no asset uses is examined by a hot_reload request while a second request is
/// queued behind it; during the (slow) pass of the first request an asset that reads that file is loaded for the
/// first time. It was loaded after the notification: nothing may reload it. Reused by C06.
pub fn late_registration() -> Option<(String, String)> {
    use assets_manager::hot_reloading::verif;
    let src = MemSource::new(true);
    src.tree().put("g", "w", b"0".to_vec(), Variant::Buffer);
    src.tree().put("x", "w", b"5".to_vec(), Variant::Buffer);
    let mut cache = AssetCache::with_source(src.handle());
    // Before anything else: a notification about a loaded asset's file is examined by the idle reloader, then the
    // cache is cleared and the asset loaded again: that load read what the notification was about, and clear()
    // forgets what was pending: hot_reload does not reload it.
    {
        src.tree().put("z", "w", b"7".to_vec(), Variant::Buffer);
        let _ = cache.load::<W8>("z").expect("load z");
        std::thread::sleep(std::time::Duration::from_millis(2));
        let takes = Arc::new(AtomicU64::new(0));
        let t2 = takes.clone();
        verif::set_schedule_hook(Some(Arc::new(move |point| {
            if point == 1 {
                t2.fetch_add(1, SeqCst);
            }
        })));
        src.tree().put("z", "w", b"8".to_vec(), Variant::Buffer);
        src.send(&OwnedEntry::File("z".into(), "w".into()));
        src.send(&OwnedEntry::File("z_other".into(), "w".into()));
        let t = std::time::Instant::now();
        while takes.load(SeqCst) < 2 && t.elapsed().as_millis() < 100 {
            std::thread::sleep(std::time::Duration::from_micros(200));
        }
        let examined = takes.load(SeqCst) >= 2;
        verif::set_schedule_hook(None);
        cache.clear();
        let z = cache.load::<W8>("z").expect("load z again");
        cache.hot_reload();
        cache.hot_reload();
        if examined && (z.last_reload_id() != ReloadId::NEVER || z.reloaded_global()) {
            return Some((
                "reloaded-without-notification".into(),
                format!("a change of z was notified and examined, then the cache was cleared and z loaded again: nothing was notified since, yet hot_reload reloaded z (last_reload_id {:?})", z.last_reload_id()),
            ));
        }
    }
    // An asset is registered right behind a request that examines the notification about its file (the reloader
    // dawdles when it wakes up, so that the registration is queued behind the request): the asset is reloaded by
    // the next hot_reload call, not in between - once the caller is back and nobody calls, nothing moves.
    {
        src.tree().put("q", "w", b"5".to_vec(), Variant::Buffer);
        std::thread::sleep(std::time::Duration::from_millis(2));
        let woke = Arc::new(AtomicBool::new(false));
        let w2 = woke.clone();
        verif::set_schedule_hook(Some(Arc::new(move |point| {
            if point == 0 {
                w2.store(true, SeqCst);
                std::thread::sleep(std::time::Duration::from_millis(5));
            }
        })));
        let moved = std::thread::scope(|s| {
            let a = s.spawn(|| cache.hot_reload());
            let t = std::time::Instant::now();
            while !woke.load(SeqCst) && t.elapsed().as_millis() < 100 {
                std::hint::spin_loop();
            }
            let q = cache.load::<W8>("q").expect("load q");
            src.tree().put("q", "w", b"9".to_vec(), Variant::Buffer);
            src.send(&OwnedEntry::File("q".into(), "w".into()));
            let _ = a.join();
            verif::set_schedule_hook(None);
            // the only hot_reload call has returned: whatever q is now, it stays
            let (v1, id1) = (validate(q.read().words()), q.last_reload_id());
            std::thread::sleep(std::time::Duration::from_millis(6));
            let (v2, id2) = (validate(q.read().words()), q.last_reload_id());
            cache.hot_reload();
            let v3 = validate(q.read().words());
            if v1 != v2 || id1 != id2 {
                Some(format!("q was loaded and its change notified while a hot_reload request was being served; after that call had returned, and with nobody calling hot_reload, q went from ({v1:?}, {id1:?}) to ({v2:?}, {id2:?})"))
            } else if v3 != Ok(9) {
                Some(format!("q's change was notified before this hot_reload call: after it q reads {v3:?}"))
            } else {
                None
            }
        });
        verif::set_schedule_hook(None);
        if let Some(what) = moved {
            return Some(("changed-outside-hot-reload".into(), what));
        }
    }
    let _g = cache.load::<W8>("g").expect("load g");
    // Then the simple order: a notification about a file nobody uses is examined while the reloader is idle (the
    // second wake-up of the reloader proves that the first event has been examined); then an asset reading that
    // file is loaded; it was loaded after the notification: hot_reload does not reload it.
    {
        src.tree().put("y", "w", b"6".to_vec(), Variant::Buffer);
        std::thread::sleep(std::time::Duration::from_millis(2));
        let wakes = Arc::new(AtomicU64::new(0));
        let w2 = wakes.clone();
        verif::set_schedule_hook(Some(Arc::new(move |point| {
            // point 1 = right before the reloader takes one event: the second time it gets there, the first
            // event (they are taken in order) has been examined
            if point == 1 {
                w2.fetch_add(1, SeqCst);
            }
        })));
        src.send(&OwnedEntry::File("y".into(), "w".into()));
        src.send(&OwnedEntry::File("y_other".into(), "w".into()));
        let t = std::time::Instant::now();
        while wakes.load(SeqCst) < 2 && t.elapsed().as_millis() < 100 {
            std::thread::sleep(std::time::Duration::from_micros(200));
        }
        let examined = wakes.load(SeqCst) >= 2;
        verif::set_schedule_hook(None);
        let y = cache.load::<W8>("y").expect("load y");
        cache.hot_reload();
        cache.hot_reload();
        if examined && (y.last_reload_id() != ReloadId::NEVER || y.reloaded_global()) {
            return Some((
                "reloaded-without-notification".into(),
                format!("y was loaded for the first time after the notification about its file had been sent and examined by the idle reloader: nothing was notified since, yet hot_reload reloaded y (last_reload_id {:?})", y.last_reload_id()),
            ));
        }
    }
    // let the reloader register g and go back to sleep; then it dawdles when it wakes up, so that both requests
    // are queued before it looks at the first
    std::thread::sleep(std::time::Duration::from_millis(3));
    verif::set_schedule_hook(Some(Arc::new(|point| {
        if point == 0 {
            std::thread::sleep(std::time::Duration::from_millis(4));
        }
    })));
    SLOW_STARTED.store(false, SeqCst);
    src.tree().put("g", "w", (SLOW_BASE + 1).to_string().into_bytes(), Variant::Buffer);
    src.send(&OwnedEntry::File("g".into(), "w".into()));
    src.send(&OwnedEntry::File("x".into(), "w".into()));
    let x_state = std::thread::scope(|s| {
        let t1 = s.spawn(|| cache.hot_reload());
        let t2 = s.spawn(|| cache.hot_reload());
        // while g is being reloaded by the first request, x is loaded for the first time
        let mut spins = 0u64;
        while !SLOW_STARTED.load(SeqCst) && spins < 50_000_000 {
            spins += 1;
            std::hint::spin_loop();
        }
        // (if the pass did not start in time the notification may be examined after x is registered, and reloading
        // x is then legitimate: the scenario says nothing)
        let examined_before_load = SLOW_STARTED.load(SeqCst);
        let x = cache.load::<W8>("x").expect("load x");
        let _ = (t1.join(), t2.join());
        verif::set_schedule_hook(None);
        // whatever was left pending is applied now
        cache.hot_reload();
        cache.hot_reload();
        (x.last_reload_id(), x.reloaded_global(), examined_before_load)
    });
    verif::set_schedule_hook(None);
    if x_state.2 && (x_state.0 != ReloadId::NEVER || x_state.1) {
        return Some((
            "reloaded-without-notification".into(),
            format!("x was loaded for the first time after the notification about its file had been sent (and examined by a request, with a second request queued behind): nothing was notified since, yet x was reloaded (last_reload_id {:?}, reloaded_global {})", x_state.0, x_state.1),
        ));
    }
    None
}

/// Three requests in a row (the first two made slow by a slow loader) while a file that nobody uses yet is
/// notified twice - once before and once after an asset reading it is loaded behind the last request. The second
/// notification came after that load: the next hot_reload call applies it. Used by C05.
pub fn notified_twice_behind_queued_requests() -> Option<(String, String)> {
    let src = MemSource::new(true);
    src.tree().put("g", "w", b"0".to_vec(), Variant::Buffer);
    src.tree().put("f", "w", b"5".to_vec(), Variant::Buffer);
    let cache = AssetCache::with_source(src.handle());
    let _g = cache.load::<W8>("g").expect("load g");
    std::thread::sleep(std::time::Duration::from_millis(2));
    let wait_slow = || {
        let t = std::time::Instant::now();
        while !SLOW_STARTED.load(SeqCst) && t.elapsed().as_millis() < 100 {
            std::hint::spin_loop();
        }
        SLOW_STARTED.load(SeqCst)
    };
    SLOW_STARTED.store(false, SeqCst);
    src.tree().put("g", "w", (SLOW_BASE + 1).to_string().into_bytes(), Variant::Buffer);
    src.send(&OwnedEntry::File("g".into(), "w".into()));
    let got = std::thread::scope(|s| {
        let t0 = s.spawn(|| cache.hot_reload());
        let in_first = wait_slow();
        SLOW_STARTED.store(false, SeqCst);
        let t1 = s.spawn(|| cache.hot_reload());
        let t2 = s.spawn(|| cache.hot_reload());
        std::thread::sleep(std::time::Duration::from_millis(1));
        src.tree().put("g", "w", (SLOW_BASE + 2).to_string().into_bytes(), Variant::Buffer);
        src.send(&OwnedEntry::File("g".into(), "w".into()));
        src.send(&OwnedEntry::File("f".into(), "w".into()));
        let in_second = wait_slow();
        let y = cache.load::<W8>("f").expect("load f");
        src.tree().put("f", "w", b"9".to_vec(), Variant::Buffer);
        src.send(&OwnedEntry::File("f".into(), "w".into()));
        let _ = (t0.join(), t1.join(), t2.join());
        cache.hot_reload();
        (validate(y.read().words()), in_first && in_second)
    });
    if got.0 != Ok(9) {
        return Some((
            "reload-lost".into(),
            format!("f was loaded (reading version 5), then changed to version 9 and notified, then hot_reload was called: f reads {:?} (three requests were queued meanwhile and f had been notified once before it was loaded; windows hit: {})", got.0, got.1),
        ));
    }
    None
}

/// Spins for about that many microseconds in every load (0 = off): widens the window in which a reload
/// triggered by a stale request can be observed.
static SLOW_LOADER_US: AtomicU64 = AtomicU64::new(0);
fn slow_loader() {
    let us = SLOW_LOADER_US.load(SeqCst);
    if us > 0 {
        let t = std::time::Instant::now();
        while (t.elapsed().as_micros() as u64) < us {
            std::hint::spin_loop();
        }
    }
}

/// Several threads call hot_reload (each call under the read side of a gate) while a writer keeps notifying new
/// versions; an observer takes the write side of the gate - no thread is inside hot_reload then - and the value
/// and the reload id must stay fixed for as long as it holds it. Returns the number of windows observed.
pub fn gated_callers(callers: u8, rounds: u16, slow_us: u64) -> Result<u64, (String, String)> {
    let src = MemSource::new(true);
    src.tree().put("big", "w", b"0".to_vec(), Variant::Buffer);
    let cache = AssetCache::with_source(src.handle());
    let h = cache.load::<W8>("big").expect("load big");
    let gate = std::sync::RwLock::new(());
    let stop = AtomicBool::new(false);
    let problem: Mutex<Option<(String, String)>> = Mutex::new(None);
    let windows = AtomicU64::new(0);
    SLOW_LOADER_US.store(slow_us, SeqCst);
    std::thread::scope(|s| {
        for c in 0..callers {
            let (cache, src, gate, stop, problem) = (&cache, &src, &gate, &stop, &problem);
            s.spawn(move || {
                // each caller also has an asset of its own: it changes it, notifies, calls hot_reload and then
                // reads it: the call does not return before that change is applied, whoever else is calling
                let mine = format!("p{c}");
                src.tree().put(&mine, "w", b"0".to_vec(), Variant::Buffer);
                let own = cache.load::<W8>(&mine).expect("load own asset");
                let mut v = 0u64;
                while !stop.load(SeqCst) {
                    let _inside = gate.read().unwrap();
                    v += 1;
                    if v < SLOW_BASE {
                        src.tree().put(&mine, "w", v.to_string().into_bytes(), Variant::Buffer);
                        src.send(&OwnedEntry::File(mine.clone(), "w".into()));
                    }
                    cache.hot_reload();
                    let got = validate(own.read().words());
                    if v < SLOW_BASE && got != Ok(v) {
                        problem.lock().unwrap().get_or_insert((
                            "hot-reload-returned-before-notified-change".into(),
                            format!("{callers} threads call hot_reload at the same time; one of them changed its own asset to version {v} and notified it before its call: after the call returned the asset reads {got:?}"),
                        ));
                        stop.store(true, SeqCst);
                    }
                }
            });
        }
        // notifications keep coming, whoever is inside
        s.spawn(|| {
            let mut i = 0u64;
            while !stop.load(SeqCst) {
                i += 1;
                src.tree().put("big", "w", i.to_string().into_bytes(), Variant::Buffer);
                src.send(&OwnedEntry::File("big".into(), "w".into()));
                for _ in 0..200 {
                    std::hint::spin_loop();
                }
            }
        });
        for _ in 0..rounds {
            {
                let _alone = gate.write().unwrap();
                let (v1, id1) = (validate(h.read().words()), h.last_reload_id());
                let t = std::time::Instant::now();
                while (t.elapsed().as_micros() as u64) < slow_us * 3 + 100 {
                    std::hint::spin_loop();
                }
                let (v2, id2) = (validate(h.read().words()), h.last_reload_id());
                windows.fetch_add(1, SeqCst);
                if v1 != v2 || id1 != id2 {
                    problem.lock().unwrap().get_or_insert((
                        "changed-outside-hot-reload".into(),
                        format!("{callers} threads call hot_reload under the read side of a gate; while the observer held the write side (no thread inside hot_reload) the value/id changed from ({v1:?}, {id1:?}) to ({v2:?}, {id2:?}): a request was served after its caller had been released"),
                    ));
                    break;
                }
            }
            // let the callers in again
            for _ in 0..20 {
                std::thread::yield_now();
            }
        }
        stop.store(true, SeqCst);
    });
    SLOW_LOADER_US.store(0, SeqCst);
    match problem.into_inner().unwrap() {
        Some(p) => Err(p),
        None => Ok(windows.load(SeqCst)),
    }
}

/// A file of the second cache whose change makes `Cross` reload.
pub struct Tick(pub u64);
impl Loader<Tick> for WLoader {
    fn load(content: Cow<[u8]>, _: &str) -> Result<Tick, BoxedError> {
        Ok(Tick(std::str::from_utf8(&content)?.trim().parse()?))
    }
}
impl Asset for Tick {
    const EXTENSION: &'static str = "tk";
    type Loader = WLoader;
}
type CrossFn = Arc<dyn Fn() + Send + Sync>;
static CROSS: Mutex<Option<CrossFn>> = Mutex::new(None);
static CROSS_RUNS: AtomicU64 = AtomicU64::new(0);
/// A compound of a second cache whose load function reads a handle of the first cache: when it is
/// reloaded, that read happens on the second cache's reloader thread.
pub struct Cross;
impl Compound for Cross {
    fn load(cache: AnyCache, _id: &SharedString) -> Result<Self, BoxedError> {
        let _ = cache.load::<Tick>("tick")?.read().0;
        let f = CROSS.lock().unwrap_or_else(|e| e.into_inner()).clone();
        if let Some(f) = f {
            f();
        }
        Ok(Cross)
    }
}

big!(W8, 8);
big!(W512, 512);
big!(W8192, 8192);

/// Returns the version if the value is complete (all words equal, checksum right).
fn validate(w: &[u64]) -> Result<u64, String> {
    let n = w.len();
    let v = w[0];
    for (i, x) in w[..n - 1].iter().enumerate() {
        if *x != v {
            return Err(format!("torn value: words[0] = {v} but words[{i}] = {x}"));
        }
    }
    if w[n - 1] != v ^ MAGIC {
        return Err(format!("torn value: version {v} but the checksum word belongs to version {}", w[n - 1] ^ MAGIC));
    }
    Ok(v)
}

#[derive(Debug, Clone, Copy, Serialize, Deserialize, PartialEq, Eq)]
pub enum Style {
    Short,
    Held { yields: u8 },
    Mapped,
    TryMapped,
    Copied,
    Watcher,
    /// samples (value, id) twice while no hot_reload call is in flight
    Bracket,
}

#[derive(Debug, Clone, Serialize, Deserialize)]
pub struct Case {
    size: u8,
    readers: Vec<Style>,
    reloads: u16,
    /// 2..: that many threads race for the first load of one asset (rendezvous inside the loader) before any hot_reload call
    #[serde(default)]
    first_load_race: u8,
    /// 1..: a compound of a second hot-reloaded cache reads the handle (guard held over that many yields) and is
    /// reloaded continuously, i.e. the read runs on the other cache's reloader thread
    #[serde(default)]
    cross: u8,
    /// afterwards: (callers, rounds, loader delay in us) of the gated-callers scenario
    #[serde(default)]
    gated: Option<(u8, u16, u16)>,
    /// afterwards: a guard is held on another thread for that many milliseconds across one hot_reload call
    #[serde(default)]
    long_guard_ms: u16,
    /// afterwards: (guards taken one after the other by ONE thread while nothing is in flight, index of the one
    /// that is kept, kept guard is mapped) - the others are dropped, then a reload is attempted
    #[serde(default)]
    nested: Option<(u8, u8, bool)>,
}

struct Shared {
    stop: AtomicBool,
    started: AtomicU64,
    finished: AtomicU64,
    err: Mutex<Option<(String, String)>>,
    overlaps: AtomicU64,
}

impl Shared {
    fn fail(&self, sig: &str, what: String) {
        let mut e = self.err.lock().unwrap();
        if e.is_none() {
            *e = Some((sig.to_string(), what));
        }
        self.stop.store(true, SeqCst);
    }
}

fn reader<T: Words + Asset>(h: &Handle<T>, style: Style, sh: &Shared) {
    let mut seen_min = u64::MAX;
    let mut seen_max = 0u64;
    let mut watcher = h.reload_watcher();
    let mut reports = 0u64;
    let mut last_version = 0u64;
    // progress of the writer, counted in this reader's own read sections (never in time): a hot_reload call
    // that is in flight must get the entry's write lock although readers keep coming
    let (mut iters, mut stuck_since, mut call_seen) = (0u64, 0u64, 0u64);
    while !sh.stop.load(SeqCst) {
        iters += 1;
        if iters % 4096 == 0 {
            let (s, f) = (sh.started.load(SeqCst), sh.finished.load(SeqCst));
            if s > f && s == call_seen {
                if iters - stuck_since > 30_000_000 {
                    sh.fail("writer-starved", format!("one hot_reload call (the {s}th) has been in flight while this reader alone completed {} read sections: readers keep the reloader from ever getting the entry's write lock", iters - stuck_since));
                    return;
                }
            } else {
                call_seen = s;
                stuck_since = iters;
            }
        }
        let version = match style {
            Style::Short => {
                let g = h.read();
                validate(g.words())
            }
            Style::Held { yields } => {
                let g = h.read();
                let id0 = h.last_reload_id();
                let v0 = validate(g.words());
                let mut r = v0.clone();
                for k in 0..yields {
                    std::thread::yield_now();
                    if k % 2 == 1 {
                        // asking whether the asset was reloaded does not move its reload id either
                        let _ = h.reloaded_global();
                    }
                    let id = h.last_reload_id();
                    let v = validate(g.words());
                    if v != v0 {
                        r = Err(format!("the value behind a live read guard changed from {v0:?} to {v:?}"));
                        break;
                    }
                    if id != id0 {
                        sh.fail("id-moved-under-guard", format!("the reload id moved from {id0:?} to {id:?} while a read guard (value version {v0:?}) was alive"));
                        return;
                    }
                }
                r
            }
            Style::Mapped => {
                let g = AssetReadGuard::map(h.read(), |t| t.words());
                let a = validate(&g);
                std::thread::yield_now();
                let b = validate(&g);
                if a != b {
                    Err(format!("the value behind a live mapped guard changed from {a:?} to {b:?}"))
                } else {
                    a
                }
            }
            Style::TryMapped => match AssetReadGuard::try_map(h.read(), |t| Some(t.words())) {
                Ok(g) => {
                    let a = validate(&g);
                    std::thread::yield_now();
                    let b = validate(&g);
                    if a != b {
                        Err(format!("the value behind a live try_map guard changed from {a:?} to {b:?}"))
                    } else {
                        a
                    }
                }
                Err(_) => Err("try_map returned the original guard although the closure returned Some".into()),
            },
            Style::Copied => {
                let c = h.copied();
                validate(c.words())
            }
            Style::Watcher => {
                if watcher.reloaded() {
                    reports += 1;
                    let v = validate(h.read().words());
                    if let Ok(v) = v {
                        // every report stands for at least one more rewrite, and every rewrite installs the next version
                        if v < reports {
                            sh.fail("stale-after-report", format!("ReloadWatcher::reloaded() returned true for the {reports}th time, yet the value read right after still is version {v}"));
                            return;
                        }
                    }
                    v
                } else {
                    validate(h.read().words())
                }
            }
            Style::Bracket => {
                let f0 = sh.finished.load(SeqCst);
                let (v1, id1) = (validate(h.read().words()), h.last_reload_id());
                let (v2, id2) = (validate(h.read().words()), h.last_reload_id());
                let s1 = sh.started.load(SeqCst);
                if s1 == f0 && (v1 != v2 || id1 != id2) {
                    sh.fail(
                        "changed-outside-hot-reload",
                        format!("no thread was inside hot_reload (calls started = finished = {f0}) yet the value/id changed from ({v1:?}, {id1:?}) to ({v2:?}, {id2:?})"),
                    );
                    return;
                }
                v2
            }
        };
        match version {
            Ok(v) => {
                if v < last_version {
                    sh.fail("version-went-back", format!("a reader saw version {last_version} and later version {v}"));
                    return;
                }
                last_version = v;
                seen_min = seen_min.min(v);
                seen_max = seen_max.max(v);
            }
            Err(e) => {
                sh.fail("torn-or-unpinned-read", format!("{style:?}: {e}"));
                return;
            }
        }
    }
    if seen_max > seen_min {
        sh.overlaps.fetch_add(1, SeqCst);
    }
}

fn first_load_race<T: Words + Asset>(c: &Case, cache: &AssetCache<MemSource>, src: &MemSource, out: &mut Outcome) {
    let n = c.first_load_race as usize;
    src.tree().put("race", "w", RACE_BASE.to_string().into_bytes(), Variant::Buffer);
    RACE_EXPECTED.store(n, SeqCst);
    RACE_ARRIVED.store(0, SeqCst);
    let barrier = super::common::SpinBarrier::new(n);
    let mut seen: Vec<(Result<u64, String>, ReloadId)> = Vec::new();
    std::thread::scope(|s| {
        let joins: Vec<_> = (0..n)
            .map(|i| {
                let barrier = &barrier;
                s.spawn(move || {
                    barrier.wait();
                    // every racer reads different bytes
                    src.tree().put("race", "w", (RACE_BASE + 1 + i as u64).to_string().into_bytes(), Variant::Buffer);
                    let h = cache.load::<T>("race").expect("load race");
                    let r = (validate(h.read().words()), h.last_reload_id());
                    std::thread::yield_now();
                    r
                })
            })
            .collect();
        for j in joins {
            seen.push(j.join().expect("racer"));
        }
    });
    RACE_EXPECTED.store(0, SeqCst);
    let h = cache.get_cached::<T>("race").expect("race cached");
    let last = (validate(h.read().words()), h.last_reload_id());
    if let Some(bad) = seen.iter().find(|s| **s != last) {
        out.fail(
            "changed-outside-hot-reload",
            format!("first-load race of {n} threads, hot_reload never called: one racer read (value {:?}, reload id {:?}) through the handle it was given, the handle now reads (value {:?}, reload id {:?})", bad.0, bad.1, last.0, last.1),
        );
        return;
    }
    if last.1 != ReloadId::NEVER || h.reloaded_global() {
        out.fail(
            "changed-outside-hot-reload",
            format!("first-load race of {n} threads, hot_reload never called: the entry reports a reload (last_reload_id {:?}, expected ReloadId::NEVER)", last.1),
        );
        return;
    }
    if RACE_ARRIVED.load(SeqCst) >= 2 {
        out.label("first-load-race");
    }
}

fn run_sized<T: Words + Asset>(c: &Case, out: &mut Outcome) {
    let src = MemSource::new(true);
    src.tree().put("big", "w", b"0".to_vec(), Variant::Buffer);
    let cache = AssetCache::with_source(src.handle());
    if c.first_load_race >= 2 {
        first_load_race::<T>(c, &cache, &src, out);
        if out.failed() {
            return;
        }
    }
    let h = cache.load::<T>("big").expect("load big");
    src.tree().put("odd", "od", b"0".to_vec(), Variant::Buffer);
    let odd = cache.load::<Odd>("odd").expect("load odd");
    let sh = Shared { stop: AtomicBool::new(false), started: AtomicU64::new(0), finished: AtomicU64::new(0), err: Mutex::new(None), overlaps: AtomicU64::new(0) };
    let bracket = c.readers.iter().any(|s| matches!(s, Style::Bracket));
    // the second cache (dropped before `cache`, after its last hot_reload call returned)
    CROSS_RUNS.store(0, SeqCst);
    let src_a = MemSource::new(true);
    src_a.tree().put("tick", "tk", b"0".to_vec(), Variant::Buffer);
    let cache_a = (c.cross > 0).then(|| AssetCache::with_source(src_a.handle()));
    if let Some(cache_a) = &cache_a {
        let (hp, shp, yields) = (h as *const Handle<T> as usize, &sh as *const Shared as usize, c.cross);
        let f: CrossFn = Arc::new(move || {
            // valid for as long as the closure is installed: it is removed before `sh` and `cache` go away,
            // and runs only inside cache_a.load / cache_a.hot_reload calls made below
            let (h, sh) = unsafe { (&*(hp as *const Handle<T>), &*(shp as *const Shared)) };
            let g = h.read();
            let id0 = h.last_reload_id();
            let v0 = validate(g.words());
            if let Err(e) = &v0 {
                sh.fail("torn-or-unpinned-read", format!("read made by a compound of a second cache while that cache reloads it (on its reloader thread): {e}"));
                return;
            }
            for _ in 0..yields {
                std::thread::yield_now();
                let (v, id) = (validate(g.words()), h.last_reload_id());
                if v != v0 || id != id0 {
                    sh.fail("torn-or-unpinned-read", format!("read made by a compound of a second cache while that cache reloads it (on its reloader thread): value/id behind a live guard changed from ({v0:?}, {id0:?}) to ({v:?}, {id:?})"));
                    return;
                }
            }
            CROSS_RUNS.fetch_add(1, SeqCst);
        });
        *CROSS.lock().unwrap_or_else(|e| e.into_inner()) = Some(f);
        let _ = cache_a.load::<Cross>("x");
    }
    std::thread::scope(|s| {
        for style in &c.readers {
            let (sh, style) = (&sh, *style);
            s.spawn(move || reader(h, style, sh));
        }
        if let Some(cache_a) = &cache_a {
            let (sh, src_a) = (&sh, &src_a);
            s.spawn(move || {
                let mut n = 0u64;
                while !sh.stop.load(SeqCst) {
                    n += 1;
                    src_a.tree().put("tick", "tk", n.to_string().into_bytes(), Variant::Buffer);
                    src_a.send(&OwnedEntry::File("tick".into(), "tk".into()));
                    cache_a.hot_reload();
                }
            });
        }
        // the writer: version i, notify, hot_reload until applied
        for i in 1..=c.reloads as u64 {
            if sh.stop.load(SeqCst) {
                break;
            }
            let before = h.last_reload_id();
            src.tree().put("odd", "od", i.to_string().into_bytes(), Variant::Buffer);
            src.send(&OwnedEntry::File("odd".into(), "od".into()));
            src.tree().put("big", "w", i.to_string().into_bytes(), Variant::Buffer);
            src.send(&OwnedEntry::File("big".into(), "w".into()));
            let mut rounds = 0;
            loop {
                sh.started.fetch_add(1, SeqCst);
                cache.hot_reload();
                sh.finished.fetch_add(1, SeqCst);
                if bracket {
                    // leave a window in which provably no call is in flight (for the bracket samplers)
                    for _ in 0..3000 {
                        std::hint::spin_loop();
                    }
                }
                if h.last_reload_id() != before {
                    break;
                }
                rounds += 1;
                if rounds > 4000 {
                    sh.fail("reload-lost", format!("version {i} was notified but never applied in 4000 hot_reload calls"));
                    break;
                }
            }
            // hot_reload returned: the reload it triggered is finished, the value is the new one
            let cells = odd.read().0;
            if cells.iter().any(|c| *c != i as u32) {
                let first_bad = cells.iter().position(|c| *c != i as u32).unwrap_or(0);
                sh.fail("torn-or-unpinned-read", format!("a 180-byte value (45 u32 cells) was rewritten to version {i}: cell 0 reads {}, cell {first_bad} reads {}", cells[0], cells[first_bad]));
                break;
            }
            match validate(h.read().words()) {
                Ok(v) if v == i => {}
                other => {
                    sh.fail("reload-not-finished", format!("hot_reload returned with the reload id advanced, but the value read by the same thread is {other:?}, expected version {i}"));
                    break;
                }
            }
        }
        sh.stop.store(true, SeqCst);
    });
    *CROSS.lock().unwrap_or_else(|e| e.into_inner()) = None;
    drop(cache_a);
    if let Some((sig, what)) = sh.err.lock().unwrap().take() {
        out.fail(sig, what);
    }
    if sh.overlaps.load(SeqCst) > 0 {
        out.nontrivial = true;
        out.label("read-overlapped-reloads");
    }
    if CROSS_RUNS.load(SeqCst) >= 3 {
        out.label("read-on-other-cache-reloader-thread");
    }
}

pub struct C07;

impl Prop for C07 {
    fn id(&self) -> &'static str {
        "C07"
    }

    fn rule(&self) -> String {
        "cases = (value size 64 B / 4 KiB / 64 KiB of self-checking words (plus a 180-byte value of 45 u32 cells rewritten along with it), 1..7 reader threads of styles {short read, guard held across k yields, mapped guard, try_map guard, copied(), polling watcher, in-flight bracket sampler}, \
         30..2000 reloads driven by one writer thread: write version i, notify, hot_reload until applied; in a third of the cases 2..5 threads first race for the first load of one asset (rendezvous inside the loader, each reading different bytes) before any hot_reload call; \
         in a third of the cases a compound of a SECOND hot-reloaded cache reads the handle with a guard held over 1..4 yields and is reloaded continuously, so that this read runs on the other cache's reloader thread while the first cache's reloader rewrites the value). Oracle: \
         in a fifth of the cases 6..14 threads then call hot_reload under the read side of a gate while notifications keep coming and the loader takes 100..700 us: whenever an observer holds the write side (no thread inside hot_reload) value and id must not move; \
         in a tenth of the cases (a fifth in the thorough tier) a guard is then held on another thread for 20 ms .. 1.3 s (2.6 s in the thorough tier) across one hot_reload call for a change notified before the call: value and id stay behind the guard and when the call returns the reload id (read without a lock) has moved; \
         in a quarter of the cases one thread then takes 2..5 guards of one handle while nothing is in flight, keeps one (mapped or not), drops the others, and a reload is triggered from another thread: value and id stay behind the kept guard; \
         after the first-load race every racer's (value, reload id) equals what the handle reads afterwards and the id is ReloadId::NEVER; every read sees all words equal with a valid checksum; value and reload id are constant while a guard lives; \
         versions never go back; after the k-th true from ReloadWatcher::reloaded the value read is at least version k; two samples taken while started == finished hot_reload counters are equal; when hot_reload returns with the id advanced the writer reads the new version. \
         non-trivial = some reader saw at least two different versions (its reads overlapped reloads); distinct = different canonical JSON"
            .into()
    }

    fn assumptions(&self) -> Vec<String> {
        vec![
            "interleavings are sampled by the OS scheduler (many reloads x many readers), not enumerated".into(),
            "the racing readers never hold two guards of one handle while reloads are in flight (a second read behind a waiting writer may block for good with either lock implementation) and the writer never holds a guard while calling hot_reload; several guards on one thread are only taken while nothing is in flight".into(),
        ]
    }

    fn plan(&self, tier: Tier) -> Plan {
        let mut p = Plan::new(match tier {
            Tier::Quick => 200,
            Tier::Thorough => 1500,
        });
        p.workers = 3;
        p.repeats = 3;
        p
    }

    fn strategy(&self, tier: Tier) -> BoxedStrategy<Value> {
        let max = if tier == Tier::Quick { 700u16 } else { 2000 };
        let style = prop_oneof![
            2 => Just(Style::Short),
            3 => (1u8..6).prop_map(|yields| Style::Held { yields }),
            1 => Just(Style::Mapped),
            1 => Just(Style::TryMapped),
            2 => Just(Style::Copied),
            2 => Just(Style::Watcher),
            2 => Just(Style::Bracket),
        ];
        (
            0u8..3,
            prop::collection::vec(style, 1..7),
            30u16..max,
            prop_oneof![2 => Just(0u8), 1 => 2u8..6],
            prop_oneof![2 => Just(0u8), 1 => 1u8..5],
            prop_oneof![4 => Just(None), 1 => (6u8..15, 60u16..200, 100u16..700).prop_map(Some)],
            if tier == Tier::Quick { prop_oneof![20 => Just(0u16), 1 => 20u16..400, 1 => 1100u16..1300].boxed() } else { prop_oneof![12 => Just(0u16), 1 => 20u16..400, 1 => 1100u16..1400, 1 => 2100u16..2600].boxed() },
            prop_oneof![3 => Just(None), 1 => (2u8..6, any::<u8>(), any::<bool>()).prop_map(Some)],
        )
            .prop_map(|(size, readers, reloads, first_load_race, cross, gated, long_guard_ms, nested)| to_case(&Case { size, readers, reloads, first_load_race, cross, gated, long_guard_ms, nested }))
            .boxed()
    }

    fn run(&self, case: &Value) -> Outcome {
        let c: Case = from_case(case);
        let mut out = Outcome::new();
        match c.size {
            0 => run_sized::<W8>(&c, &mut out),
            1 => run_sized::<W512>(&c, &mut out),
            _ => run_sized::<W8192>(&c, &mut out),
        }
        if let (Some((callers, rounds, us)), false) = (c.gated, out.failed()) {
            match gated_callers(callers, rounds, us as u64) {
                Ok(n) if n > 0 => out.label("gated-callers"),
                Ok(_) => {}
                Err((sig, what)) => out.fail(sig, what),
            }
        }
        if c.long_guard_ms > 0 && !out.failed() {
            match guard_held_across_call(c.long_guard_ms) {
                None => out.label(if c.long_guard_ms >= 1000 { "guard-held-over-a-second-across-a-call" } else { "guard-held-across-a-call" }),
                Some((sig, what)) => out.fail(sig, what),
            }
        }
        if let (Some((n, keep, mapped)), false) = (c.nested, out.failed()) {
            match nested_guards(n, keep, mapped) {
                None => out.label("several-guards-on-one-thread"),
                Some((sig, what)) => out.fail(sig, what),
            }
        }
        out.label(format!("size:{}", ["64B", "4KiB", "64KiB"][c.size.min(2) as usize]));
        for s in &c.readers {
            out.label(match s {
                Style::Short => "short",
                Style::Held { .. } => "held-guard",
                Style::Mapped => "mapped",
                Style::TryMapped => "try-mapped",
                Style::Copied => "copied",
                Style::Watcher => "watcher",
                Style::Bracket => "bracket",
            });
        }
        out
    }

    fn required_labels(&self) -> Vec<&'static str> {
        vec!["read-overlapped-reloads", "held-guard", "copied", "watcher", "bracket", "first-load-race", "read-on-other-cache-reloader-thread", "gated-callers", "guard-held-over-a-second-across-a-call", "several-guards-on-one-thread"]
    }
}

/// One thread holds a read guard for `ms` milliseconds (the delay only shapes the schedule) while another calls
/// `hot_reload` for a change that was notified before the call: the call needs the write lock of the entry, so it
/// cannot be over while the guard lives, and when it returns the reload is done (the reload id, read without any
/// lock, has moved). Judged on orderings only.
pub fn guard_held_across_call(ms: u16) -> Option<(String, String)> {
    let src = MemSource::new(true);
    src.tree().put("big", "w", b"0".to_vec(), Variant::Buffer);
    let cache = AssetCache::with_source(src.handle());
    let h = cache.load::<W8>("big").expect("load big");
    cache.hot_reload();
    let id0 = h.last_reload_id();
    let guard_taken = AtomicBool::new(false);
    let returned = AtomicBool::new(false);
    let mut problem = None;
    std::thread::scope(|s| {
        let holder = s.spawn(|| {
            let g = h.read();
            let v0 = validate(g.words());
            guard_taken.store(true, SeqCst);
            // (busy, not asleep: a case in which every thread sleeps looks like a deadlock to the supervisor)
            let t = std::time::Instant::now();
            while t.elapsed() < std::time::Duration::from_millis(ms as u64) {
                std::hint::spin_loop();
            }
            let returned_under_guard = returned.load(SeqCst);
            let v1 = validate(g.words());
            let id1 = h.last_reload_id();
            drop(g);
            (returned_under_guard, v0, v1, id1)
        });
        super::common::spin_until(|| guard_taken.load(SeqCst));
        src.tree().put("big", "w", b"1".to_vec(), Variant::Buffer);
        src.send(&OwnedEntry::File("big".into(), "w".into()));
        cache.hot_reload();
        let id_at_return = h.last_reload_id();
        returned.store(true, SeqCst);
        let (returned_under_guard, v0, v1, id1) = holder.join().expect("holder");
        if v0 != v1 || id1 != id0 {
            problem = Some(("torn-or-unpinned-read".to_string(), format!("a guard held for {ms} ms across a hot_reload call saw its value go from {v0:?} to {v1:?} and the reload id from {id0:?} to {id1:?}")));
        } else if id_at_return == id0 {
            problem = Some((
                "returned-before-reload-finished".to_string(),
                format!("a change of the asset was notified, then hot_reload was called while another thread held a read guard on it for {ms} ms: when the call returned the reload id still was {id0:?} (guard still alive at that moment: {returned_under_guard}), i.e. hot_reload returned before the reload it triggered was finished"),
            ));
        }
    });
    if problem.is_none() {
        // and the value is rewritten only now that the next call runs? no: it was rewritten by that call
        let v = validate(h.read().words());
        if v != Ok(1) {
            problem = Some(("returned-before-reload-finished".to_string(), format!("after the hot_reload call and the release of the guard the value is {v:?}, expected version 1")));
        }
    }
    problem
}

/// One thread takes `n` read guards of one handle, one after the other, while nothing is in flight (no writer can be
/// waiting, so none of these reads blocks), keeps the `keep`-th (mapped or not) and drops the others; then a change
/// is notified and another thread calls `hot_reload`. While the kept guard lives, value and reload id stay and the
/// call is not over; afterwards the new version is there.
pub fn nested_guards(n: u8, keep: u8, mapped: bool) -> Option<(String, String)> {
    let src = MemSource::new(true);
    src.tree().put("big", "w", b"0".to_vec(), Variant::Buffer);
    let cache = AssetCache::with_source(src.handle());
    let h = cache.load::<W8>("big").expect("load big");
    cache.hot_reload();
    let id0 = h.last_reload_id();
    let n = n.clamp(2, 5) as usize;
    let keep = keep as usize % n;
    enum G<'a> {
        Plain(AssetReadGuard<'a, W8>),
        Mapped(AssetReadGuard<'a, [u64]>),
    }
    impl std::ops::Deref for G<'_> {
        type Target = [u64];
        fn deref(&self) -> &[u64] {
            match self {
                G::Plain(g) => g.words(),
                G::Mapped(g) => g,
            }
        }
    }
    let mut guards: Vec<Option<G<'_>>> = Vec::new();
    for i in 0..n {
        let g = h.read();
        // the kept guard is mapped or not as asked, the others alternate
        let map_it = if i == keep { mapped } else { i % 2 == 0 };
        guards.push(Some(if map_it { G::Mapped(AssetReadGuard::map(g, |t| t.words())) } else { G::Plain(g) }));
    }
    // drop all but one, the first ones first
    for (i, g) in guards.iter_mut().enumerate() {
        if i != keep {
            *g = None;
        }
    }
    let kept = guards[keep].take().expect("kept guard");
    let v0 = validate(&kept);
    src.tree().put("big", "w", b"1".to_vec(), Variant::Buffer);
    src.send(&OwnedEntry::File("big".into(), "w".into()));
    let finished = AtomicBool::new(false);
    let mut problem = None;
    std::thread::scope(|s| {
        s.spawn(|| {
            cache.hot_reload();
            finished.store(true, SeqCst);
        });
        // give the call every chance to go through (schedule shaping only)
        for k in 0..400 {
            if finished.load(SeqCst) {
                break;
            }
            if k < 200 {
                std::thread::yield_now();
            } else {
                std::thread::sleep(std::time::Duration::from_micros(250));
            }
        }
        let over = finished.load(SeqCst);
        let v1 = validate(&kept);
        let id1 = h.last_reload_id();
        if v1 != v0 || id1 != id0 {
            problem = Some((
                "torn-or-unpinned-read".to_string(),
                format!("one thread took {n} read guards of one handle one after the other, dropped all but guard #{keep} (mapped: {mapped}); a reload was then triggered from another thread: behind the guard that is still alive the value went from {v0:?} to {v1:?} and the reload id from {id0:?} to {id1:?} (hot_reload call over: {over})"),
            ));
        }
        drop(kept);
    });
    if problem.is_none() {
        let v = validate(h.read().words());
        if v != Ok(1) || h.last_reload_id() == id0 {
            problem = Some(("returned-before-reload-finished".to_string(), format!("after the kept guard was released and hot_reload returned, the value is {v:?} (expected version 1) and the reload id {:?}", h.last_reload_id())));
        }
    }
    problem
}

/// A polling-reader race reused by C06: `ReloadWatcher::reloaded(); read()` against a stream of reloads,
/// with a guard-holding reader widening the window between publication and installation.
pub fn watcher_race(reloads: u16, size: u8) -> Option<(String, String)> {
    let c = Case { size, readers: vec![Style::Watcher, Style::Held { yields: 3 }, Style::Watcher, Style::Held { yields: 1 }], reloads, first_load_race: 0, cross: 0, gated: None, long_guard_ms: 0, nested: None };
    let mut out = Outcome::new();
    match size {
        0 => run_sized::<W8>(&c, &mut out),
        _ => run_sized::<W512>(&c, &mut out),
    }
    out.violation.map(|v| (v.sig, v.what))
}

/// Several threads poll `reloaded_global()` of one handle while it is rewritten `rounds` times (one rewrite per
/// round): every rewrite may be reported at most once in total (the test-and-clear is atomic), and at least one
/// report is made. Reused by C06.
pub fn global_flag_pollers(rounds: u16, pollers: u8) -> Option<(String, String)> {
    let src = MemSource::new(true);
    src.tree().put("big", "w", b"0".to_vec(), Variant::Buffer);
    let cache = AssetCache::with_source(src.handle());
    let h = cache.load::<W8>("big").expect("load big");
    let stop = AtomicBool::new(false);
    let trues = AtomicU64::new(0);
    let mut problem = None;
    std::thread::scope(|s| {
        for _ in 0..pollers.max(2) {
            s.spawn(|| {
                while !stop.load(SeqCst) {
                    if h.reloaded_global() {
                        trues.fetch_add(1, SeqCst);
                    }
                }
            });
        }
        'rounds: for i in 1..=rounds as u64 {
            let before = h.last_reload_id();
            src.tree().put("big", "w", i.to_string().into_bytes(), Variant::Buffer);
            src.send(&OwnedEntry::File("big".into(), "w".into()));
            let mut calls = 0;
            loop {
                cache.hot_reload();
                if h.last_reload_id() != before {
                    break;
                }
                calls += 1;
                if calls > 4000 {
                    problem = Some(("reload-lost".to_string(), format!("version {i} was notified but never applied in 4000 hot_reload calls")));
                    break 'rounds;
                }
            }
        }
        stop.store(true, SeqCst);
    });
    if problem.is_some() {
        return problem;
    }
    if h.reloaded_global() {
        trues.fetch_add(1, SeqCst);
    }
    let t = trues.load(SeqCst);
    if t > rounds as u64 {
        return Some(("global-flag-reported-twice".into(), format!("{} pollers of reloaded_global() got {t} true answers for {rounds} rewrites: some rewrite was reported more than once", pollers.max(2))));
    }
    if t == 0 && rounds > 0 {
        return Some(("global-flag-never-reported".into(), format!("{rounds} rewrites happened but reloaded_global() never answered true")));
    }
    None
}
