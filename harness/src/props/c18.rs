//! C18 - ReloadId bookkeeping is a monotone maximum, atomically.

use crate::check;
use crate::engine::{from_case, to_case, Outcome, Plan, Prop, Tier};
use assets_manager::{AtomicReloadId, ReloadId};
use proptest::prelude::*;
use serde::{Deserialize, Serialize};
use serde_json::Value;
use std::sync::{Arc, Barrier, OnceLock};

const POOL: usize = 48;

fn pool() -> &'static Vec<ReloadId> {
    static P: OnceLock<Vec<ReloadId>> = OnceLock::new();
    P.get_or_init(|| {
        // 40 ids from real reloads (NEVER first), then boundary values of the counter that no test run can
        // reach by reloading (built through the verification hook), in increasing order: index = rank
        let mut p = super::common::harvest_reload_ids(POOL - BOUNDARY.len());
        p.extend(BOUNDARY.iter().map(|raw| ReloadId::verif_from_raw(*raw)));
        p
    })
}

const BOUNDARY: [usize; 8] = [1 << 31, (1 << 32) + 1, 1 << 62, (1 << 63) - 1, 1 << 63, (1 << 63) + 1, usize::MAX - 1, usize::MAX];
/// the ids of the enumerated part: NEVER, two small ones, 2^31, 2^63, usize::MAX
const SUB: [usize; 6] = [0, 1, 2, 40, 44, 47];

#[derive(Debug, Clone, Copy, Serialize, Deserialize, PartialEq, Eq)]
pub enum Op {
    /// `ReloadId::update` on a plain local id
    RUpdate(usize),
    AUpdate(usize),
    FetchMax(usize),
    Swap(usize),
    Store(usize),
    Load,
}

#[derive(Debug, Clone, Serialize, Deserialize)]
pub struct Case {
    init: usize,
    ops: Vec<Op>,
    /// concurrent part: per thread, the list of (use fetch_max instead of update, offered index)
    threads: Vec<Vec<(bool, usize)>>,
    /// race rounds: in every round all threads offer one id each to a fresh cell at the same instant
    /// (per round: offered index per thread, and whether fetch_max is used)
    #[serde(default)]
    races: Vec<Vec<(bool, usize)>>,
    /// swap rounds: in every round all threads `swap` one id each into a fresh cell at the same instant
    #[serde(default)]
    swap_rounds: Vec<Vec<usize>>,
    /// taker rounds: one thread `update`s the round's id while another `swap`s NEVER in (takes the current id)
    #[serde(default)]
    taker_rounds: Vec<usize>,
}

pub struct C18;

fn op_strategy(n: usize) -> impl Strategy<Value = Op> {
    prop_oneof![
        (0..n).prop_map(Op::RUpdate),
        (0..n).prop_map(Op::AUpdate),
        (0..n).prop_map(Op::FetchMax),
        (0..n).prop_map(Op::Swap),
        (0..n).prop_map(Op::Store),
        Just(Op::Load),
    ]
}

impl Prop for C18 {
    fn id(&self) -> &'static str {
        "C18"
    }

    fn rule(&self) -> String {
        "cases = (initial id, sequential op list over ReloadId::update / AtomicReloadId::{update,fetch_max,swap,store,load}, \
         concurrent offer lists for 0..8 threads, race rounds in which 2..4 threads offer to a fresh cell at the same instant behind a spin rendezvous, swap rounds (2..4 threads swap into a fresh cell: ids handed back + final id = initial id + ids swapped in), taker rounds (update racing swap(NEVER): the id is seen exactly once)) over a pool of 48 ids: 40 harvested from real reloads (NEVER first) and 8 boundary counter values (2^31, 2^32+1, 2^62, 2^63-1, 2^63, 2^63+1, MAX-1, MAX) built through the verification hook; \
         enumerated part: every initial id x every op sequence up to the length bound over a 6-id sub-pool (NEVER, 1, 2, 2^31, 2^63, MAX). \
         non-trivial = the sequential part contains both an update that grows and one that does not, \
         or the concurrent part has >= 2 threads; distinct = different canonical JSON"
            .into()
    }

    fn assumptions(&self) -> Vec<String> {
        vec![
            "ReloadIds come from real reloads (harvested once per worker process) or, for boundary counter values, from the hook ReloadId::verif_from_raw".into(),
            "concurrent interleavings are sampled by the OS scheduler, not enumerated".into(),
        ]
    }

    fn plan(&self, tier: Tier) -> Plan {
        let mut p = Plan::new(match tier {
            Tier::Quick => 12000,
            Tier::Thorough => 200_000,
        });
        // few workers: the race / swap / taker rounds keep 2..4 threads of each worker spinning at a rendezvous
        p.workers = 4;
        p
    }

    fn strategy(&self, _tier: Tier) -> BoxedStrategy<Value> {
        let threads = prop_oneof![
            2 => Just(Vec::new()),
            3 => prop::collection::vec(prop::collection::vec((any::<bool>(), 0..POOL), 1..40), 2..8),
        ];
        let races = prop_oneof![
            2 => Just(Vec::new()),
            2 => (2usize..5).prop_flat_map(|t| prop::collection::vec(prop::collection::vec((any::<bool>(), 0..POOL), t), 50..400)),
        ];
        let swap_rounds = prop_oneof![
            3 => Just(Vec::new()),
            1 => (2usize..5).prop_flat_map(|t| prop::collection::vec(prop::collection::vec(0..POOL, t), 50..400)),
        ];
        let taker_rounds = prop_oneof![3 => Just(Vec::new()), 1 => prop::collection::vec(1..POOL, 100..500)];
        (0..POOL / 2, prop::collection::vec(op_strategy(POOL), 0..50), threads, races, swap_rounds, taker_rounds)
            .prop_map(|(init, ops, threads, races, swap_rounds, taker_rounds)| to_case(&Case { init, ops, threads, races, swap_rounds, taker_rounds }))
            .boxed()
    }

    fn enumerate(&self, tier: Tier) -> Vec<Value> {
        let mut alphabet = vec![Op::Load];
        for i in SUB {
            alphabet.extend([Op::RUpdate(i), Op::AUpdate(i), Op::FetchMax(i), Op::Swap(i), Op::Store(i)]);
        }
        let max_len = match tier {
            Tier::Quick => 2,
            Tier::Thorough => 3,
        };
        let mut seqs: Vec<Vec<Op>> = vec![vec![]];
        let mut frontier: Vec<Vec<Op>> = vec![vec![]];
        for _ in 0..max_len {
            let mut next = Vec::new();
            for s in &frontier {
                for op in &alphabet {
                    let mut t = s.clone();
                    t.push(*op);
                    next.push(t);
                }
            }
            seqs.extend(next.iter().cloned());
            frontier = next;
        }
        // group sequences into cases of bounded size to keep per-case overhead low:
        // one case per (init, first op) prefix would change semantics, so keep one sequence per case
        // but only for quick; thorough uses every init as well.
        let mut out = Vec::new();
        for init in SUB {
            for s in &seqs {
                out.push(to_case(&Case {
                    init,
                    ops: s.clone(),
                    threads: Vec::new(),
                    races: Vec::new(),
                    swap_rounds: Vec::new(),
                    taker_rounds: Vec::new(),
                }));
            }
        }
        out
    }

    fn enumerate_note(&self, tier: Tier) -> String {
        format!(
            "every initial id in a 6-id sub-pool (NEVER, 1, 2, 2^31, 2^63, usize::MAX) x every op sequence of length <= {} over 31 ops",
            if tier == Tier::Quick { 2 } else { 3 }
        )
    }

    fn run(&self, case: &Value) -> Outcome {
        let c: Case = from_case(case);
        let pool = pool();
        let mut out = Outcome::new();

        // pool sanity: NEVER is least, ids strictly increase with every reload
        check!(out, "never-not-least", pool[0] == ReloadId::NEVER, "a never-reloaded handle does not report ReloadId::NEVER");
        check!(out, "never-not-least", ReloadId::default() == ReloadId::NEVER, "ReloadId::default() != NEVER");
        for w in pool.windows(2) {
            check!(out, "ids-not-increasing", w[0] < w[1], "reload ids of successive reloads do not increase: {:?} then {:?}", w[0], w[1]);
        }
        // the order is the order of the counters, for every pair (NEVER is the least id)
        for i in 0..pool.len() {
            for j in 0..pool.len() {
                check!(out, "order-not-by-counter", (pool[i] < pool[j]) == (i < j) && (pool[i] == pool[j]) == (i == j), "ids #{i} {:?} and #{j} {:?} compare inconsistently with their counters", pool[i], pool[j]);
            }
        }

        // sequential part against the max model
        let atomic = AtomicReloadId::with_value(pool[c.init]);
        let mut local = pool[c.init];
        let mut m_atomic = c.init;
        let mut m_local = c.init;
        let (mut grew, mut kept) = (false, false);
        for (k, op) in c.ops.iter().enumerate() {
            match *op {
                Op::RUpdate(i) => {
                    let r = local.update(pool[i]);
                    let exp = i > m_local;
                    m_local = m_local.max(i);
                    grew |= exp;
                    kept |= !exp;
                    check!(out, "reloadid-update-return", r == exp, "step {k}: ReloadId::update returned {r}, expected {exp}");
                    check!(out, "reloadid-update-value", local == pool[m_local], "step {k}: ReloadId::update stored {:?}, expected {:?}", local, pool[m_local]);
                }
                Op::AUpdate(i) => {
                    let r = atomic.update(pool[i]);
                    let exp = i > m_atomic;
                    m_atomic = m_atomic.max(i);
                    grew |= exp;
                    kept |= !exp;
                    check!(out, "atomic-update-return", r == exp, "step {k}: AtomicReloadId::update returned {r}, expected {exp}");
                }
                Op::FetchMax(i) => {
                    let r = atomic.fetch_max(pool[i]);
                    check!(out, "atomic-fetch-max-return", r == pool[m_atomic], "step {k}: fetch_max returned {:?}, expected previous {:?}", r, pool[m_atomic]);
                    m_atomic = m_atomic.max(i);
                }
                Op::Swap(i) => {
                    let r = atomic.swap(pool[i]);
                    check!(out, "atomic-swap-return", r == pool[m_atomic], "step {k}: swap returned {:?}, expected previous {:?}", r, pool[m_atomic]);
                    m_atomic = i;
                }
                Op::Store(i) => {
                    atomic.store(pool[i]);
                    m_atomic = i;
                }
                Op::Load => {}
            }
            let l = atomic.load();
            check!(out, "atomic-value", l == pool[m_atomic], "step {k} ({op:?}): AtomicReloadId holds {:?}, expected {:?}", l, pool[m_atomic]);
            if out.failed() {
                return out;
            }
        }
        if grew && kept {
            out.nontrivial = true;
            out.label("seq:grow+keep");
        }

        // concurrent part
        if c.threads.len() >= 2 {
            out.nontrivial = true;
            out.label("concurrent");
            let shared = Arc::new(AtomicReloadId::with_value(pool[c.init]));
            let barrier = Arc::new(Barrier::new(c.threads.len() + 1));
            let mut joins = Vec::new();
            for offers in c.threads.iter().cloned() {
                let shared = shared.clone();
                let barrier = barrier.clone();
                joins.push(std::thread::spawn(move || {
                    let pool: &'static Vec<ReloadId> = pool;
                    barrier.wait();
                    let mut told = Vec::new();
                    for (fm, i) in offers {
                        let t = if fm {
                            pool[i] > shared.fetch_max(pool[i])
                        } else {
                            shared.update(pool[i])
                        };
                        if t {
                            told.push(i);
                        }
                    }
                    told
                }));
            }
            // an observer: loads must never decrease
            let obs = {
                let shared = shared.clone();
                let barrier = barrier.clone();
                std::thread::spawn(move || {
                    barrier.wait();
                    let mut prev = shared.load();
                    let mut ok = true;
                    for _ in 0..2000 {
                        let l = shared.load();
                        if l < prev {
                            ok = false;
                        }
                        prev = l;
                    }
                    ok
                })
            };
            let mut told: Vec<usize> = Vec::new();
            for j in joins {
                told.extend(j.join().expect("offer thread"));
            }
            let monotone = obs.join().expect("observer");
            check!(out, "concurrent-not-monotone", monotone, "an observer saw the shared id decrease while threads only offered ids");
            let max_offer = c.threads.iter().flatten().map(|(_, i)| *i).max().unwrap_or(0);
            let exp_final = max_offer.max(c.init);
            check!(out, "concurrent-final", shared.load() == pool[exp_final], "final id {:?} is not the maximum offered {:?}", shared.load(), pool[exp_final]);
            told.sort_unstable();
            for w in told.windows(2) {
                check!(out, "concurrent-told-twice", w[0] != w[1], "growth to id #{} was reported as new to two callers", w[0]);
            }
            check!(out, "concurrent-told-stale", told.iter().all(|&i| i > c.init), "a caller offering an id <= the initial one was told it was new");
            if max_offer > c.init {
                check!(out, "concurrent-lost", told.last() == Some(&max_offer), "nobody was told that the maximum offered id #{max_offer} was new (told: {told:?})");
            } else {
                check!(out, "concurrent-told-stale", told.is_empty(), "callers were told of growth although no offer exceeded the initial id");
            }
        }

        // race rounds: all threads hit a fresh cell at the same instant (spin rendezvous)
        if !c.races.is_empty() && !out.failed() {
            out.nontrivial = true;
            out.label("race-rounds");
            let nthreads = c.races[0].len();
            let cells: Arc<Vec<AtomicReloadId>> = Arc::new(c.races.iter().map(|_| AtomicReloadId::with_value(pool[c.init])).collect());
            let sb = Arc::new(super::common::SpinBarrier::new(nthreads));
            let races = Arc::new(c.races.clone());
            let mut joins = Vec::new();
            for t in 0..nthreads {
                let (cells, sb, races) = (cells.clone(), sb.clone(), races.clone());
                joins.push(std::thread::spawn(move || {
                    let pool: &'static Vec<ReloadId> = self::pool();
                    let mut told = Vec::with_capacity(races.len());
                    for (r, round) in races.iter().enumerate() {
                        let (fm, i) = round[t];
                        sb.wait();
                        let t = if fm { pool[i] > cells[r].fetch_max(pool[i]) } else { cells[r].update(pool[i]) };
                        told.push(t);
                    }
                    told
                }));
            }
            let told: Vec<Vec<bool>> = joins.into_iter().map(|j| j.join().expect("race thread")).collect();
            for (r, round) in c.races.iter().enumerate() {
                let max_offer = round.iter().map(|(_, i)| *i).max().unwrap();
                let exp = max_offer.max(c.init);
                check!(out, "concurrent-final", cells[r].load() == pool[exp], "race round {r}: offers {:?} on initial #{}: final id {:?} is not the maximum {:?}", round, c.init, cells[r].load(), pool[exp]);
                let mut t: Vec<usize> = (0..nthreads).filter(|&th| told[th][r]).map(|th| round[th].1).collect();
                t.sort_unstable();
                for w in t.windows(2) {
                    check!(out, "concurrent-told-twice", w[0] != w[1], "race round {r}: growth to id #{} was reported as new to two callers", w[0]);
                }
                check!(out, "concurrent-told-stale", t.iter().all(|&i| i > c.init), "race round {r}: a caller offering an id <= the initial one was told it was new");
                if max_offer > c.init {
                    check!(out, "concurrent-lost", t.last() == Some(&max_offer), "race round {r}: nobody was told that the maximum offered id #{max_offer} was new (offers {:?}, told {:?})", round, t);
                }
                if out.failed() {
                    break;
                }
            }
        }
        // swap rounds: swap is one atomic exchange, so the values handed back plus the final value are exactly
        // the initial value plus the values swapped in (as multisets)
        if !c.swap_rounds.is_empty() && !out.failed() {
            out.nontrivial = true;
            out.label("swap-rounds");
            let nthreads = c.swap_rounds[0].len();
            let cells: Arc<Vec<AtomicReloadId>> = Arc::new(c.swap_rounds.iter().map(|_| AtomicReloadId::with_value(pool[c.init])).collect());
            let sb = Arc::new(super::common::SpinBarrier::new(nthreads));
            let rounds = Arc::new(c.swap_rounds.clone());
            let joins: Vec<_> = (0..nthreads)
                .map(|t| {
                    let (cells, sb, rounds) = (cells.clone(), sb.clone(), rounds.clone());
                    std::thread::spawn(move || {
                        let pool: &'static Vec<ReloadId> = self::pool();
                        rounds
                            .iter()
                            .enumerate()
                            .map(|(r, round)| {
                                sb.wait();
                                cells[r].swap(pool[round[t]])
                            })
                            .collect::<Vec<ReloadId>>()
                    })
                })
                .collect();
            let got: Vec<Vec<ReloadId>> = joins.into_iter().map(|j| j.join().expect("swap thread")).collect();
            for (r, round) in c.swap_rounds.iter().enumerate() {
                let mut handed: Vec<ReloadId> = (0..nthreads).map(|t| got[t][r]).collect();
                handed.push(cells[r].load());
                let mut expect: Vec<ReloadId> = round.iter().map(|i| pool[*i]).collect();
                expect.push(pool[c.init]);
                handed.sort();
                expect.sort();
                check!(out, "swap-not-atomic", handed == expect, "swap round {r}: {nthreads} threads swapped {:?} into a cell holding #{}: the ids handed back plus the final id are {:?}, expected a permutation of {:?}", round, c.init, handed, expect);
                if out.failed() {
                    break;
                }
            }
        }
        // taker rounds: the round's id is seen exactly once - by the taker or as the final value
        if !c.taker_rounds.is_empty() && !out.failed() {
            out.label("taker-rounds");
            let cells: Arc<Vec<AtomicReloadId>> = Arc::new(c.taker_rounds.iter().map(|_| AtomicReloadId::new()).collect());
            let sb = Arc::new(super::common::SpinBarrier::new(2));
            let rounds = Arc::new(c.taker_rounds.clone());
            let (c1, s1, r1) = (cells.clone(), sb.clone(), rounds.clone());
            let producer = std::thread::spawn(move || {
                let pool: &'static Vec<ReloadId> = self::pool();
                r1.iter()
                    .enumerate()
                    .map(|(r, i)| {
                        s1.wait();
                        c1[r].update(pool[*i])
                    })
                    .collect::<Vec<bool>>()
            });
            let (c2, s2, r2) = (cells.clone(), sb.clone(), rounds.clone());
            let taker = std::thread::spawn(move || {
                r2.iter()
                    .enumerate()
                    .map(|(r, _)| {
                        s2.wait();
                        c2[r].swap(ReloadId::NEVER)
                    })
                    .collect::<Vec<ReloadId>>()
            });
            let told = producer.join().expect("producer");
            let taken = taker.join().expect("taker");
            for (r, i) in c.taker_rounds.iter().enumerate() {
                let id = pool[*i];
                let seen = (taken[r] == id) as u32 + (cells[r].load() == id) as u32;
                check!(out, "swap-not-atomic", seen == 1 && told[r], "taker round {r}: update(#{i}) on a fresh cell raced swap(NEVER): update returned {}, the taker got {:?}, the cell ends with {:?} - the id must be seen exactly once", told[r], taken[r], cells[r].load());
                if out.failed() {
                    break;
                }
            }
        }
        out
    }

    fn required_labels(&self) -> Vec<&'static str> {
        vec!["concurrent", "seq:grow+keep", "race-rounds", "swap-rounds", "taker-rounds"]
    }
}

/// Fuzz decoder (sequential part only: the concurrent parts are not deterministic functions of the input).
pub fn decode(u: &mut arbitrary::Unstructured) -> arbitrary::Result<Value> {
    let init = u.int_in_range(0..=POOL - 1)?;
    let n = u.int_in_range(0..=60)?;
    let mut ops = Vec::new();
    for _ in 0..n {
        let i = u.int_in_range(0..=POOL - 1)?;
        ops.push(match u.int_in_range(0..=5)? {
            0 => Op::RUpdate(i),
            1 => Op::AUpdate(i),
            2 => Op::FetchMax(i),
            3 => Op::Swap(i),
            4 => Op::Store(i),
            _ => Op::Load,
        });
    }
    Ok(to_case(&Case { init, ops, threads: Vec::new(), races: Vec::new(), swap_rounds: Vec::new(), taker_rounds: Vec::new() }))
}
