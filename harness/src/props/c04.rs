//! C04 - every source shows the same tree: FileSystem, Zip, Tar, Embedded.

use crate::engine::{from_case, to_case, Outcome, Plan, Prop, Tier};
use crate::trees::{self, ArchOpts, DirMembers, Model, TreeSpec};
use assets_manager::source::{DirEntry, Embedded, FileSystem, RawEmbedded, Source, Tar, Zip};
use proptest::prelude::*;
use serde::{Deserialize, Serialize};
use serde_json::Value;
use std::io;

#[derive(Debug, Clone, Serialize, Deserialize)]
pub struct Case {
    tree: TreeSpec,
    opts: ArchOpts,
    threads: u8,
    /// Some(k): the k-th tree that is really embedded at compile time with `embed!`
    #[serde(default)]
    fixed: Option<u8>,
}

/// The real compile-time expansion of `embed!` on the committed trees.
static FIXED: [RawEmbedded<'static>; 12] = [
    assets_manager::source::embed!("embed_trees/t0"),
    assets_manager::source::embed!("embed_trees/t1"),
    assets_manager::source::embed!("embed_trees/t2"),
    assets_manager::source::embed!("embed_trees/t3"),
    assets_manager::source::embed!("embed_trees/t4"),
    assets_manager::source::embed!("embed_trees/t5"),
    assets_manager::source::embed!("embed_trees/t6"),
    assets_manager::source::embed!("embed_trees/t7"),
    assets_manager::source::embed!("embed_trees/t8"),
    assets_manager::source::embed!("embed_trees/t9"),
    assets_manager::source::embed!("embed_trees/t10"),
    assets_manager::source::embed!("embed_trees/t11"),
];

/// An independent walk of a directory into the tree model (names contain no dots except before the extension).
fn model_of_dir(root: &std::path::Path) -> Model {
    fn walk(dir: &std::path::Path, id: &str, m: &mut Model) {
        m.dirs.insert(id.to_string());
        let mut any = false;
        for e in std::fs::read_dir(dir).into_iter().flatten().flatten() {
            any = true;
            let name = e.file_name().to_str().unwrap_or("").to_string();
            let p = e.path();
            if p.is_dir() {
                let cid = if id.is_empty() { name.clone() } else { format!("{id}.{name}") };
                walk(&p, &cid, m);
            } else {
                let (stem, ext) = match name.rfind('.') {
                    Some(n) => (&name[..n], &name[n + 1..]),
                    None => (&name[..], ""),
                };
                let fid = if id.is_empty() { stem.to_string() } else { format!("{id}.{stem}") };
                m.files.insert((fid, ext.to_string()), std::fs::read(&p).unwrap_or_default());
            }
        }
        if !any && !id.is_empty() {
            m.empty_dirs.insert(id.to_string());
        }
    }
    let mut m = Model::default();
    walk(root, "", &mut m);
    m
}

/// Compares one source with the model. Returns a description of the first difference.
pub fn check_source<S: Source + ?Sized>(label: &str, src: &S, m: &Model) -> Result<(), (String, String)> {
    let fail = |sig: &str, what: String| Err((format!("{sig}:{label}"), format!("[{label}] {what}")));
    // every file reads back exactly
    for ((id, ext), bytes) in &m.files {
        match src.read(id, ext) {
            Ok(c) => {
                if c.as_ref() != &bytes[..] {
                    return fail("read-wrong-bytes", format!("read({id:?}, {ext:?}) returned {} bytes that differ from the {} stored ones", c.as_ref().len(), bytes.len()));
                }
            }
            Err(e) => return fail("read-missing", format!("read({id:?}, {ext:?}) failed ({e}) although the file is part of the tree")),
        }
        if !src.exists(DirEntry::File(id, ext)) {
            return fail("exists-false", format!("exists(File({id:?}, {ext:?})) is false for a file of the tree"));
        }
    }
    // every directory lists exactly its direct children, once each
    for d in &m.dirs {
        let mut listed: Vec<(bool, String, String)> = Vec::new();
        match src.read_dir(d, &mut |e| match e {
            DirEntry::File(i, x) => listed.push((false, i.to_string(), x.to_string())),
            DirEntry::Directory(i) => listed.push((true, i.to_string(), String::new())),
        }) {
            Ok(()) => {}
            Err(e) => return fail(if m.dirs.len() == 1 { "root-missing" } else { "read-dir-missing" }, format!("read_dir({d:?}) failed ({e}) although the directory is part of the tree")),
        }
        listed.sort();
        let expect = m.children(d);
        if listed != expect {
            let dup = listed.windows(2).any(|w| w[0] == w[1]);
            return fail(if dup { "read-dir-duplicate" } else { "read-dir-mismatch" }, format!("read_dir({d:?}) listed {listed:?}, the tree has {expect:?}"));
        }
        if !src.exists(DirEntry::Directory(d)) {
            return fail("exists-false", format!("exists(Directory({d:?})) is false for a directory of the tree"));
        }
        // every listed entry is readable under the id it was listed with
        for (is_dir, id, ext) in &listed {
            let ok = if *is_dir { src.read_dir(id, &mut |_| {}).is_ok() } else { src.read(id, ext).is_ok() };
            if !ok {
                return fail("listed-not-readable", format!("read_dir({d:?}) lists {} {id:?} {ext:?} which cannot be read under that id", if *is_dir { "directory" } else { "file" }));
            }
        }
    }
    // absent entries
    let mut absent_files: Vec<(String, String, bool)> = vec![("nope".into(), "txt".into(), false), ("a.b.c.nope".into(), "".into(), false)];
    let mut absent_dirs: Vec<(String, bool)> = vec![("nope".into(), false), ("a.nope".into(), false)];
    for d in m.dirs.iter().filter(|d| !d.is_empty()) {
        // a directory is not a file without extension
        if !m.files.contains_key(&(d.clone(), String::new())) {
            absent_files.push((d.clone(), String::new(), true));
        }
        absent_files.push((d.clone(), "txt".into(), m.files.contains_key(&(d.clone(), "txt".into()))));
    }
    for (id, ext) in m.files.keys() {
        if !m.dirs.contains(id) {
            // a file is not a directory; (other kind occupies the path only if ext is "")
            absent_dirs.push((id.clone(), ext.is_empty()));
        }
        if !m.files.contains_key(&(id.clone(), "zzz".into())) {
            absent_files.push((id.clone(), "zzz".into(), false));
        }
    }
    absent_files.retain(|(i, x, _)| !m.files.contains_key(&(i.clone(), x.clone())));
    absent_dirs.retain(|(i, _)| !m.dirs.contains(i));
    // an extension-less file sitting on the way to the entry also is "an object of the other kind on the path"
    let blocked = |id: &str| -> bool {
        let comps: Vec<&str> = id.split('.').collect();
        (1..comps.len()).any(|k| m.files.contains_key(&(comps[..k].join("."), String::new())))
    };
    for a in absent_files.iter_mut() {
        a.2 = (a.1.is_empty() && m.dirs.contains(&a.0)) || blocked(&a.0);
    }
    for a in absent_dirs.iter_mut() {
        a.1 = m.files.contains_key(&(a.0.clone(), String::new())) || blocked(&a.0);
    }
    for (id, ext, other_kind_there) in &absent_files {
        if src.exists(DirEntry::File(id, ext)) {
            return fail("exists-true-for-absent", format!("exists(File({id:?}, {ext:?})) is true although the tree has no such file{}", if *other_kind_there { " (a directory has that path)" } else { "" }));
        }
        match src.read(id, ext) {
            Ok(_) => return fail("read-absent-ok", format!("read({id:?}, {ext:?}) succeeded although the tree has no such file")),
            Err(e) => {
                if !*other_kind_there && e.kind() != io::ErrorKind::NotFound {
                    return fail("absent-not-notfound", format!("read({id:?}, {ext:?}) of an absent file failed with {:?} instead of NotFound", e.kind()));
                }
            }
        }
    }
    for (id, other_kind_there) in &absent_dirs {
        if src.exists(DirEntry::Directory(id)) {
            return fail("exists-true-for-absent", format!("exists(Directory({id:?})) is true although the tree has no such directory{}", if *other_kind_there { " (a file has that path)" } else { "" }));
        }
        match src.read_dir(id, &mut |_| {}) {
            Ok(()) => return fail("read-dir-absent-ok", format!("read_dir({id:?}) succeeded although the tree has no such directory")),
            Err(e) => {
                if !*other_kind_there && e.kind() != io::ErrorKind::NotFound {
                    return fail("absent-not-notfound", format!("read_dir({id:?}) of an absent directory failed with {:?} instead of NotFound", e.kind()));
                }
            }
        }
    }
    Ok(())
}

/// Runs `check_source` from `threads` threads at once on the same source.
fn check_concurrently<S: Source + Sync + ?Sized>(label: &str, src: &S, m: &Model, threads: u8, out: &mut Outcome) {
    let results: Vec<Result<(), (String, String)>> = std::thread::scope(|s| {
        let hs: Vec<_> = (0..threads.max(1)).map(|_| s.spawn(|| check_source(label, src, m))).collect();
        hs.into_iter().map(|h| h.join().unwrap_or_else(|_| Err((format!("panic:{label}"), format!("[{label}] a reader thread panicked inside the source"))))).collect()
    });
    for r in results {
        if let Err((sig, what)) = r {
            out.fail(sig, what);
            return;
        }
    }
}

pub struct EmbeddedHolder {
    owned: trees::EmbeddedOwned,
}

impl EmbeddedHolder {
    pub fn new(owned: trees::EmbeddedOwned) -> Self {
        EmbeddedHolder { owned }
    }
    /// Builds the `Embedded` source borrowing from the owned storage and runs `f` on it.
    pub fn with<R>(&self, f: impl FnOnce(&Embedded) -> R) -> R {
        let files: Vec<((&str, &str), &[u8])> = self.owned.files.iter().map(|((i, x), b)| ((i.as_str(), x.as_str()), &b[..])).collect();
        let dir_entries: Vec<Vec<DirEntry>> = self
            .owned
            .dirs
            .iter()
            .map(|(_, es)| es.iter().map(|(is_dir, i, x)| if *is_dir { DirEntry::Directory(i) } else { DirEntry::File(i, x) }).collect())
            .collect();
        let dirs: Vec<(&str, &[DirEntry])> = self.owned.dirs.iter().zip(&dir_entries).map(|((id, _), es)| (id.as_str(), &es[..])).collect();
        let raw = RawEmbedded { files: &files, dirs: &dirs };
        let e = Embedded::from(raw);
        f(&e)
    }
}

pub struct C04;

impl Prop for C04 {
    fn id(&self) -> &'static str {
        "C04"
    }

    fn rule(&self) -> String {
        "cases = (a generated tree up to depth 4 over a name pool with ASCII, Unicode, spaces and a 66-character name (paths > 100 bytes), extensions incl. the empty one, same stem with several extensions, a directory and a file sharing an id, \
         empty directories, contents empty / small / 20-100 KiB; archive options: member order permutation, directory members all / none / random subset, './' prefix, file members spelled `zz/../<path>`, stored or deflated per member, an outdated earlier member of one path (the last member is the stored one), an entry without an id in one directory (archive member `backup.tar.x`, on disk a file with a non UTF-8 name: no source lists it, nothing else changes), in-memory or file-backed reader; 1..4 reader threads; in a third of the cases also a copy of the zip archive with one flipped data byte in one stored member: reading that member must fail or give the tree's bytes, never other bytes; and a copy of the tar archive cut inside the data of its last member: the same). \
         The tree is materialised on disk (FileSystem), as zip, as tar and - by running the embed! macro's own expansion code on the directory and evaluating the produced table - as Embedded (as the macro writes the table, and the same table with its lists in another order). \
         Oracle = the generated tree itself: read gives the stored bytes, read_dir lists every direct child exactly once with kind/id/ext, exists agrees, listed entries are readable, absent entries (fresh ids, wrong extension, wrong kind) do not exist and fail to read (NotFound unless the other kind occupies the path). \
         non-trivial = a tree with >= 2 levels and a directory without an archive member of its own, or a non-identity member order; distinct = different canonical JSON"
            .into()
    }

    fn assumptions(&self) -> Vec<String> {
        vec![
            "names never contain '.' and are valid UTF-8 (the crate's documented rule)".into(),
            "the Embedded source is built by the macro's real expansion function (macros/src/embedded.rs included by path) evaluated at run time; the compile-time expansion itself is exercised on 12 committed trees".into(),
        ]
    }

    fn plan(&self, tier: Tier) -> Plan {
        let mut p = Plan::new(match tier {
            Tier::Quick => 2500,
            Tier::Thorough => 40_000,
        });
        p.workers = 12;
        p
    }

    fn strategy(&self, _tier: Tier) -> BoxedStrategy<Value> {
        (trees::tree_strategy(14), trees::arch_opts_strategy(), 1u8..5).prop_map(|(tree, opts, threads)| to_case(&Case { tree, opts, threads, fixed: None })).boxed()
    }

    fn enumerate(&self, _tier: Tier) -> Vec<Value> {
        // the 12 committed trees that are really embedded at compile time with embed!
        (0..12u8)
            .map(|k| {
                to_case(&Case {
                    tree: TreeSpec { entries: Vec::new() },
                    opts: ArchOpts { order: 0, dir_members: DirMembers::All, dot_prefix: false, deflate_mask: 0, file_backed: false, stale_duplicate: None, damage: None, dotdot_mask: 0, junk: None },
                    threads: 2,
                    fixed: Some(k),
                })
            })
            .collect()
    }

    fn enumerate_note(&self, _tier: Tier) -> String {
        "the 12 committed trees under harness/embed_trees, embedded at compile time by the real embed! macro: the static table is compared with an independent walk of the directory and with the run-time evaluation of the macro's expansion function".into()
    }

    fn run(&self, case: &Value) -> Outcome {
        let c: Case = from_case(case);
        let mut out = Outcome::new();
        if let Some(k) = c.fixed {
            let k = k as usize % FIXED.len();
            let dir = std::path::Path::new(concat!(env!("CARGO_MANIFEST_DIR"), "/embed_trees")).join(format!("t{k}"));
            let m = model_of_dir(&dir);
            let e = Embedded::from(FIXED[k]);
            check_concurrently("embedded(compile-time)", &e, &m, c.threads, &mut out);
            if !out.failed() {
                // the run-time evaluation of the expansion function gives the same table
                match trees::expand_embedded(&dir) {
                    Ok(owned) => {
                        let mut a: Vec<((String, String), Vec<u8>)> = FIXED[k].files.iter().map(|((i, x), b)| ((i.to_string(), x.to_string()), b.to_vec())).collect();
                        let mut b = owned.files.clone();
                        a.sort();
                        b.sort();
                        let da: std::collections::BTreeSet<String> = FIXED[k].dirs.iter().map(|(d, es)| format!("{d}:{es:?}")).collect();
                        let db: std::collections::BTreeSet<String> = owned
                            .dirs
                            .iter()
                            .map(|(d, es)| {
                                let es: Vec<DirEntry> = es.iter().map(|(is_dir, i, x)| if *is_dir { DirEntry::Directory(i) } else { DirEntry::File(i, x) }).collect();
                                format!("{d}:{es:?}")
                            })
                            .collect();
                        if a != b || da != db {
                            out.fail("embedded-routes-differ", format!("tree t{k}: the table compiled by embed! and the run-time evaluation of its expansion function differ"));
                        }
                    }
                    Err(e) => out.fail("expand:embedded", format!("[embedded] the embed! expansion failed on the committed tree t{k}: {e}")),
                }
            }
            out.nontrivial = true;
            out.label("compile-time-embed");
            return out;
        }
        let m = Model::from_spec(&c.tree);
        let dir = trees::tmpdir("c04");
        let root = dir.join("root");
        std::fs::create_dir_all(&root).expect("mkdir");
        let res = (|| -> Result<(), String> {
            m.write_disk(&root).map_err(|e| format!("harness: writing the tree to disk failed: {e}"))?;
            trees::write_junk_on_disk(&m, &c.opts, &root);
            // (a) filesystem
            let fs = FileSystem::new(&root).map_err(|e| format!("harness: FileSystem::new failed: {e}"))?;
            check_concurrently("filesystem", &fs, &m, c.threads, &mut out);
            if out.failed() {
                return Ok(());
            }
            // (b) zip
            let zbytes = trees::make_zip(&m, &c.opts);
            if c.opts.file_backed {
                let p = dir.join("t.zip");
                std::fs::write(&p, &zbytes).map_err(|e| e.to_string())?;
                match Zip::open(&p) {
                    Ok(z) => check_concurrently("zip", &z, &m, c.threads, &mut out),
                    Err(e) => out.fail("open:zip", format!("[zip] opening a valid archive failed: {e}")),
                }
            } else {
                match Zip::from_bytes(&zbytes[..]) {
                    Ok(z) => check_concurrently("zip", &z, &m, c.threads, &mut out),
                    Err(e) => out.fail("open:zip", format!("[zip] opening a valid archive failed: {e}")),
                }
            }
            if out.failed() {
                return Ok(());
            }
            // (b') the same archive with one flipped data byte in one stored member
            if let Some(k) = c.opts.damage {
                if let Some((copy, (id, ext))) = trees::damage_zip(&m, &c.opts, &zbytes, k) {
                    match Zip::from_bytes(&copy[..]) {
                        Ok(z) => {
                            if let Ok(got) = z.read(&id, &ext) {
                                if got.as_ref() != &m.files[&(id.clone(), ext.clone())][..] {
                                    out.fail("damaged-member-read-ok:zip", format!("[zip] one data byte of member ({id:?}, {ext:?}) was flipped (its CRC-32 no longer matches): read succeeded and returned {} bytes that the tree does not hold", got.as_ref().len()));
                                    return Ok(());
                                }
                            }
                            // the other members are unaffected
                            for ((i2, x2), bytes) in m.files.iter().filter(|(k2, _)| **k2 != (id.clone(), ext.clone())).take(4) {
                                match z.read(i2, x2) {
                                    Ok(b) if b.as_ref() == &bytes[..] => {}
                                    _ => {
                                        out.fail("damaged-archive-other-member:zip", format!("[zip] after damaging member ({id:?}, {ext:?}) the intact member ({i2:?}, {x2:?}) no longer reads its bytes"));
                                        return Ok(());
                                    }
                                }
                            }
                            out.label("zip-member-damaged");
                        }
                        Err(_) => out.excluded += 1,
                    }
                }
            }
            // (c) tar
            let tbytes = trees::make_tar(&m, &c.opts);
            if c.opts.file_backed {
                let p = dir.join("t.tar");
                std::fs::write(&p, &tbytes).map_err(|e| e.to_string())?;
                match Tar::open(&p) {
                    Ok(t) => check_concurrently("tar", &t, &m, c.threads, &mut out),
                    Err(e) => out.fail("open:tar", format!("[tar] opening a valid archive failed: {e}")),
                }
            } else {
                match Tar::from_bytes(tbytes.clone()) {
                    Ok(t) => check_concurrently("tar", &t, &m, c.threads, &mut out),
                    Err(e) => out.fail("open:tar", format!("[tar] opening a valid archive failed: {e}")),
                }
            }
            if out.failed() {
                return Ok(());
            }
            // (c') the same archive cut inside the data of the member whose data comes last
            if let Some(k) = c.opts.damage {
                let find_all = |needle: &[u8]| -> Vec<usize> { tbytes.windows(needle.len()).enumerate().filter(|(_, w)| *w == needle).map(|(i, _)| i).collect() };
                let last = m
                    .files
                    .iter()
                    .filter(|(_, b)| b.len() >= 8 && b.len() <= 4096)
                    .filter_map(|(key, b)| {
                        let at = find_all(b);
                        (at.len() == 1).then(|| (at[0], key.clone(), b.len()))
                    })
                    .max();
                // only if nothing else of the tree lies behind it
                if let Some((at, (id, ext), len)) = last.filter(|(at, _, len)| tbytes[at + len..].iter().all(|&b| b == 0)) {
                    let cut = at + 1 + (k as usize % (len - 1));
                    match Tar::from_bytes(tbytes[..cut].to_vec()) {
                        Ok(t) => {
                            if let Ok(got) = t.read(&id, &ext) {
                                if got.as_ref() != &m.files[&(id.clone(), ext.clone())][..] {
                                    out.fail("truncated-member-read-ok:tar", format!("[tar] the archive was cut {} bytes into the data of its last member ({id:?}, {ext:?}), {len} bytes long: read succeeded and returned {} bytes that the tree does not hold", cut - at, got.as_ref().len()));
                                    return Ok(());
                                }
                            }
                            for ((i2, x2), bytes) in m.files.iter().filter(|(k2, _)| **k2 != (id.clone(), ext.clone())).take(4) {
                                match t.read(i2, x2) {
                                    Ok(b) if b.as_ref() == &bytes[..] => {}
                                    _ => {
                                        out.fail("damaged-archive-other-member:tar", format!("[tar] after cutting the archive inside its last member ({id:?}, {ext:?}) the intact member ({i2:?}, {x2:?}) no longer reads its bytes"));
                                        return Ok(());
                                    }
                                }
                            }
                            out.label("tar-truncated");
                        }
                        Err(_) => out.excluded += 1,
                    }
                }
            }
            // (d) embedded, through the macro's own expansion code
            match trees::expand_embedded(&root) {
                Ok(owned) => {
                    // the table as the macro writes it, then the same table written by hand in another order
                    // (RawEmbedded is a public struct; nothing says its lists are sorted)
                    let mut by_hand = trees::EmbeddedOwned { files: owned.files.clone(), dirs: owned.dirs.clone() };
                    EmbeddedHolder::new(owned).with(|e| check_concurrently("embedded", e, &m, c.threads, &mut out));
                    if !out.failed() && c.opts.order != 0 {
                        trees::reorder_embedded(&mut by_hand, c.opts.order);
                        EmbeddedHolder::new(by_hand).with(|e| check_concurrently("embedded-by-hand", e, &m, c.threads, &mut out));
                    }
                }
                Err(e) => out.fail("expand:embedded", format!("[embedded] the embed! expansion failed on a valid tree: {e}")),
            }
            Ok(())
        })();
        let _ = std::fs::remove_dir_all(&dir);
        if let Err(e) = res {
            out.fail("harness", e);
        }
        let deep = m.max_depth() >= 2;
        let implicit = !matches!(c.opts.dir_members, DirMembers::All) && m.dirs.len() > 1 + m.empty_dirs.len();
        if (deep && implicit) || c.opts.order != 0 {
            out.nontrivial = true;
        }
        if deep && implicit {
            out.label("implicit-directories");
        }
        if c.opts.order != 0 {
            out.label("shuffled-members");
        }
        if c.opts.dot_prefix {
            out.label("dot-prefix");
        }
        if c.opts.junk.is_some() {
            out.label("entry-without-id");
        }
        if c.opts.stale_duplicate.is_some() && !m.files.is_empty() {
            out.label("duplicate-member");
        }
        if m.files.keys().any(|(i, _)| trees::rel_path(i, None).to_str().map_or(0, |s| s.len()) > 100) {
            out.label("long-path");
        }
        if m.files.keys().any(|(i, _)| m.dirs.contains(i)) {
            out.label("dir-and-file-share-id");
        }
        if !m.empty_dirs.is_empty() {
            out.label("empty-directory");
        }
        if m.files.is_empty() && m.dirs.len() == 1 {
            out.label("empty-tree");
        }
        out
    }

    fn required_labels(&self) -> Vec<&'static str> {
        vec!["implicit-directories", "shuffled-members", "dot-prefix", "long-path", "dir-and-file-share-id", "empty-directory"]
    }
}

/// (maintenance) Generates the fixed trees embedded at compile time, from fixed seeds.
pub fn generate_fixed_trees(dir: &std::path::Path) {
    use proptest::strategy::ValueTree;
    use proptest::test_runner::{Config, RngAlgorithm, TestRng, TestRunner};
    let strat = trees::tree_strategy(12);
    for k in 0..12u8 {
        let mut seed = [0u8; 32];
        seed[0] = k + 1;
        seed[7] = 0xE5;
        let mut runner = TestRunner::new_with_rng(Config { failure_persistence: None, ..Config::default() }, TestRng::from_seed(RngAlgorithm::ChaCha, &seed));
        let spec = strat.new_tree(&mut runner).unwrap().current();
        let m = Model::from_spec(&spec);
        let d = dir.join(format!("t{k}"));
        let _ = std::fs::remove_dir_all(&d);
        std::fs::create_dir_all(&d).unwrap();
        // keep contents small, and git cannot store empty directories: give them a marker the model knows about
        let mut m2 = m.clone();
        for ((_, _), b) in m2.files.iter_mut() {
            b.truncate(64);
        }
        for e in m.empty_dirs.iter() {
            m2.files.insert((format!("{e}.keep"), "txt".into()), b"k".to_vec());
        }
        m2.write_disk(&d).unwrap();
        if m2.files.is_empty() {
            std::fs::write(d.join("only.txt"), b"only").unwrap();
        }
    }
}
