//! C14 - dependencies are attributed to the asset being loaded, and only to it.

use super::hot::{self, GenOpts, Runner, WCase};
use crate::engine::{from_case, to_case, Outcome, Plan, Prop, Tier};
use crate::memsrc::{OwnedEntry, Variant};
use crate::world::{affected, AKey, Ev, Kind, SENTINEL};
use proptest::prelude::*;
use serde_json::Value;
use std::collections::BTreeSet;

pub struct C14;

fn opts(tier: Tier) -> GenOpts {
    GenOpts { blocks: 6, unnotified: false, max_nodes: if tier == Tier::Quick { 5 } else { 7 }, max_steps: 1, faults: false }
}

impl Prop for C14 {
    fn id(&self) -> &'static str {
        "C14"
    }

    fn rule(&self) -> String {
        "cases = generated recipe trees nesting load / tolerant load / load_owned / get_cached / directory loads / raw reads inside no_record blocks, helper threads, a second cache (with or without its own reloader) \
         and caught panics, loaded at top level; then, for EVERY file and directory any load touched (through either cache), one step that edits exactly that entry in the main source and notifies exactly it. \
         Oracle: the set of cached handles whose reload id grew equals exactly the closure, in the shadow dependency graph, of the assets whose own load touched that entry on the loading thread, through this cache, outside no_record \
         (reads by a nested reloadable asset belong to the nested asset); and the recording token sampled by the recipe interpreter around every nested operation / no_record block / caught panic is unchanged (0 inside no_record). \
         non-trivial = some touched entry was only read untracked (no_record / thread / other cache) and editing it reloads nothing; distinct = different canonical JSON"
            .into()
    }

    fn assumptions(&self) -> Vec<String> {
        vec!["worlds contain no failing loads after the initial phase (edits write valid contents), so 'affected' and 'reload id grew' coincide".into()]
    }

    fn plan(&self, tier: Tier) -> Plan {
        let mut p = Plan::new(match tier {
            Tier::Quick => 500,
            Tier::Thorough => 10_000,
        });
        p.workers = 12;
        p.cases_per_process = 300;
        p
    }

    fn strategy(&self, tier: Tier) -> BoxedStrategy<Value> {
        hot::wcase_strategy(opts(tier), 0.0)
            .prop_map(|mut c| {
                // every leaf file valid, so that loads succeed and stay successful
                for f in c.files.iter_mut().chain(c.files2.iter_mut()) {
                    if !matches!(f.2, hot::Content::Ok(_)) {
                        f.2 = hot::Content::Ok(7);
                    }
                }
                c.steps.clear();
                to_case(&c)
            })
            .boxed()
    }

    fn run(&self, case: &Value) -> Outcome {
        let c: WCase = from_case(case);
        let mut out = Outcome::new();
        let mut r = Runner::new(&c);
        let tag = r.world.tag;
        // initial loads, keeping their events
        for (kind, id, owned) in &c.top {
            let w = &r.world;
            let _ = std::panic::catch_unwind(std::panic::AssertUnwindSafe(|| {
                if *owned {
                    let _ = w.top_load_owned(*kind, id);
                } else {
                    let _ = w.top_load(*kind, id);
                }
            }));
        }
        r.refresh_watches();
        r.snapshot_values();
        let init_events = r.world.take_events();
        for e in &init_events {
            if let Ev::Violation(m) = e {
                out.fail("recording-not-restored", format!("during the initial loads: {m}"));
                return out;
            }
        }
        // every entry touched by any load
        let mut touched: BTreeSet<OwnedEntry> = BTreeSet::new();
        let mut tracked: BTreeSet<OwnedEntry> = BTreeSet::new();
        for e in &init_events {
            if let Ev::Read { entry, to, .. } = e {
                touched.insert(entry.clone());
                if to.is_some() {
                    tracked.insert(entry.clone());
                }
            }
        }
        touched.remove(&OwnedEntry::File(SENTINEL.to_string(), "la".to_string()));
        let mut untracked_silent = 0;
        for (n, entry) in touched.iter().enumerate() {
            let deps_before = r.world.shadow_deps();
            // edit exactly this entry in the main source
            match entry {
                OwnedEntry::File(id, ext) => {
                    let mut t = r.world.src.tree();
                    let is_recipe = matches!(ext.as_str(), "n0" | "n1" | "ns");
                    if is_recipe {
                        // touch: same recipe, the file is rewritten
                        if let Some(cur) = t.files.get(&(id.clone(), ext.clone())).cloned() {
                            t.put(id, ext, cur.bytes.to_vec(), Variant::Buffer);
                        }
                    } else {
                        t.put(id, ext, format!("ok:e{n}").into_bytes(), Variant::Buffer);
                    }
                }
                OwnedEntry::Dir(id) => {
                    let mut t = r.world.src.tree();
                    if t.dir_exists(id) {
                        let new_id = if id.is_empty() { format!("z{n}") } else { format!("{id}.z{n}") };
                        t.put(&new_id, "la", format!("ok:n{n}").into_bytes(), Variant::Buffer);
                    }
                }
            }
            r.world.src.send(entry);
            if !r.barrier() {
                out.fail("reload-lost", format!("step {n}: the notified change of a loaded asset's file (the barrier's sentinel) was never applied although hot_reload kept returning {}", r.lost_detail));
                break;
            }
            for m in r.harness_violations() {
                out.fail("recording-not-restored", format!("while reloading after an edit of {entry:?}: {m}"));
                return out;
            }
            // expectation from the shadow graph as it was before the edit
            let cached = r.cached();
            let expected: BTreeSet<AKey> = affected(&deps_before, tag, std::slice::from_ref(entry)).into_iter().filter(|k| cached.contains(k) && k.0.type_reloadable() && r.values_before.contains_key(k)).collect();
            let grew: BTreeSet<AKey> = r.watches.iter().filter(|(k, w)| w.growths > 0 && k.1 != SENTINEL && r.values_before.contains_key(*k)).map(|(k, _)| k.clone()).collect();
            if grew != expected {
                let extra: Vec<&AKey> = grew.difference(&expected).collect();
                let missing: Vec<&AKey> = expected.difference(&grew).collect();
                let sig = if !extra.is_empty() { "reloaded-but-not-dependent" } else { "dependent-not-reloaded" };
                out.fail(
                    sig,
                    format!(
                        "after editing and notifying exactly {entry:?}: assets whose own load touched it (plus their dependents) are {expected:?}, but the handles whose reload id grew are {grew:?} (unexpected: {extra:?}, missing: {missing:?})"
                    ),
                );
                return out;
            }
            if !tracked.contains(entry) && expected.is_empty() {
                untracked_silent += 1;
            }
            for w in r.watches.values_mut() {
                w.growths = 0;
            }
            r.snapshot_values();
        }
        if untracked_silent > 0 {
            out.nontrivial = true;
            out.label("untracked-read-edit-reloads-nothing");
        }
        let has = |f: &dyn Fn(&crate::world::ROp) -> bool| c.nodes.iter().any(|n| n.ops.iter().any(|o| f(o)));
        if has(&|o| matches!(o, crate::world::ROp::NR(_) | crate::world::ROp::NRO(_))) {
            out.label("no_record");
        }
        if has(&|o| matches!(o, crate::world::ROp::TH(_))) {
            out.label("thread");
        }
        if has(&|o| matches!(o, crate::world::ROp::OC(_))) {
            out.label(format!("other-cache:{:?}", c.second));
        }
        if has(&|o| matches!(o, crate::world::ROp::Catch(_))) {
            out.label("caught-panic");
        }
        if touched.len() >= 6 {
            out.label("touched>=6");
        }
        let _ = Kind::Leaf;
        out
    }

    fn required_labels(&self) -> Vec<&'static str> {
        vec!["untracked-read-edit-reloads-nothing", "no_record", "thread", "caught-panic"]
    }
}
