//! C14 - dependencies are attributed to the asset being loaded, and only to it.

use super::hot::{self, DirOp, GenOpts, Runner, WCase};
use crate::memsrc::MemSource;
use assets_manager::{asset::DirLoadable, source::Source, AnyCache, AssetCache, SharedString};
use std::collections::BTreeMap;
use crate::engine::{from_case, to_case, Outcome, Plan, Prop, Tier};
use crate::memsrc::{OwnedEntry, Variant};
use crate::world::{affected, AKey, Ev, Kind, SENTINEL};
use proptest::prelude::*;
use serde_json::Value;
use std::collections::BTreeSet;

pub struct C14;

/// A type whose ids are selected from a manifest file inside the directory (`<dir>.manifest`, extension
/// `mf`, one name per line), not by listing the directory: only the crate's own RecursiveDirectory load
/// reads the directory itself (to find the sub-directories).
pub struct Man;
impl DirLoadable for Man {
    fn select_ids(cache: AnyCache, id: &SharedString) -> std::io::Result<Vec<SharedString>> {
        let source = cache.raw_source();
        let text = String::from_utf8_lossy(source.read(&format!("{id}.manifest"), "mf")?.as_ref()).to_string();
        Ok(text.lines().filter(|l| !l.is_empty()).map(|l| SharedString::from(format!("{id}.{l}"))).collect())
    }
}

const DIR_NAMES: [&str; 4] = ["a", "b", "c", "d"];
const ID_NAMES: [&str; 5] = ["one", "two", "three", "four", "five"];

fn manifest_bytes(ids: &std::collections::BTreeSet<String>) -> Vec<u8> {
    ids.iter().map(|s| format!("{s}\n")).collect::<String>().into_bytes()
}

/// After every operation (notified as a filesystem watcher would) and a barrier, the cached recursive
/// directory of the root and the plain directory of every existing directory list exactly what the model says.
fn custom_dirloadable(ops: &[DirOp], out: &mut Outcome) {
    let src = MemSource::new(true);
    super::c02::install_sentinel(&src);
    let mut model: BTreeMap<String, std::collections::BTreeSet<String>> = BTreeMap::new();
    let names = |ids: &[u8]| -> std::collections::BTreeSet<String> { ids.iter().map(|i| ID_NAMES[*i as usize % ID_NAMES.len()].to_string()).collect() };
    model.insert("lvl".into(), names(&[0]));
    model.insert("lvl.a".into(), names(&[1]));
    {
        let mut t = src.tree();
        for (d, ids) in &model {
            t.mkdirs(d);
            t.put(&format!("{d}.manifest"), "mf", manifest_bytes(ids), Variant::Buffer);
        }
    }
    let cache = AssetCache::with_source(src.handle());
    let mut version = 0u32;
    let root = match cache.load_rec_dir::<Man>("lvl") {
        Ok(h) => h,
        Err(e) => {
            out.fail("harness", format!("custom DirLoadable: initial load_rec_dir failed: {e}"));
            return;
        }
    };
    let expected_rec = |model: &BTreeMap<String, std::collections::BTreeSet<String>>| -> Vec<String> {
        let mut v: Vec<String> = model.iter().flat_map(|(d, ids)| ids.iter().map(move |i| format!("{d}.{i}"))).collect();
        v.sort();
        v.dedup();
        v
    };
    // Re-creating a directory that was removed runs into known finding D11 (reported under C05): the parent
    // learns the dependency on the stale cached child anew in the very pass that reloads the child.
    // Such steps are excluded by construction and counted.
    let mut removed: std::collections::BTreeSet<String> = Default::default();
    for (step, op) in ops.iter().enumerate() {
        let dirs: Vec<String> = model.keys().cloned().collect();
        let mut notes: Vec<OwnedEntry> = Vec::new();
        let parent_of = |d: &str| crate::memsrc::parent_of(d).unwrap_or("").to_string();
        let desc;
        match op {
            DirOp::AddDir { parent, name, ids } => {
                let p = &dirs[*parent as usize % dirs.len()];
                let d = format!("{p}.{}", DIR_NAMES[*name as usize % DIR_NAMES.len()]);
                let ids = names(ids);
                if removed.contains(&d) {
                    out.excluded += 1;
                    continue;
                }
                let existed = model.contains_key(&d);
                desc = format!("{} {d:?} with manifest {ids:?}", if existed { "rewrite the manifest of" } else { "create directory" });
                {
                    let mut t = src.tree();
                    t.mkdirs(&d);
                    t.put(&format!("{d}.manifest"), "mf", manifest_bytes(&ids), Variant::Buffer);
                }
                model.insert(d.clone(), ids);
                if !existed {
                    notes.push(OwnedEntry::Dir(d.clone()));
                    notes.push(OwnedEntry::Dir(p.clone()));
                    notes.push(OwnedEntry::Dir(d.clone()));
                }
                notes.push(OwnedEntry::File(format!("{d}.manifest"), "mf".into()));
            }
            DirOp::RemoveDir { dir } => {
                let leaves: Vec<&String> = dirs.iter().filter(|d| *d != "lvl" && !dirs.iter().any(|o| parent_of(o) == **d)).collect();
                if leaves.is_empty() {
                    continue;
                }
                let d = leaves[*dir as usize % leaves.len()].clone();
                desc = format!("remove directory {d:?}");
                {
                    let mut t = src.tree();
                    t.remove(&format!("{d}.manifest"), "mf");
                    t.dirs.remove(&d);
                }
                model.remove(&d);
                removed.insert(d.clone());
                notes.push(OwnedEntry::File(format!("{d}.manifest"), "mf".into()));
                notes.push(OwnedEntry::Dir(d.clone()));
                notes.push(OwnedEntry::Dir(parent_of(&d)));
            }
            DirOp::EditManifest { dir, ids } => {
                let d = dirs[*dir as usize % dirs.len()].clone();
                let ids = names(ids);
                desc = format!("rewrite the manifest of {d:?} as {ids:?}");
                src.tree().put(&format!("{d}.manifest"), "mf", manifest_bytes(&ids), Variant::Buffer);
                model.insert(d.clone(), ids);
                notes.push(OwnedEntry::File(format!("{d}.manifest"), "mf".into()));
            }
        }
        for n in &notes {
            src.send(n);
        }
        if !super::c02::sentinel_barrier(&cache, &src, &mut version) {
            out.fail("reload-lost", format!("custom DirLoadable, step {step} ({desc}): the sentinel's notified change was never applied"));
            return;
        }
        let mut got: Vec<String> = root.read().ids().map(|s| s.to_string()).collect();
        got.sort();
        let want = expected_rec(&model);
        if got != want {
            out.fail(
                "custom-dirloadable-stale",
                format!("custom DirLoadable (ids selected from a manifest file), step {step} ({desc}, notified as {notes:?}): the recursive directory \"lvl\" lists {got:?}, the tree holds {want:?}"),
            );
            return;
        }
        for (d, ids) in &model {
            if let Some(h) = cache.get_cached::<assets_manager::Directory<Man>>(d) {
                let mut g: Vec<String> = h.read().ids().map(|s| s.to_string()).collect();
                g.sort();
                let w: Vec<String> = ids.iter().map(|i| format!("{d}.{i}")).collect();
                if g != w {
                    out.fail("custom-dirloadable-stale", format!("custom DirLoadable, step {step} ({desc}): the directory {d:?} lists {g:?}, its manifest says {w:?}"));
                    return;
                }
            }
        }
    }
    out.label("custom-dirloadable-history");
}

fn opts(tier: Tier) -> GenOpts {
    GenOpts { blocks: 6, unnotified: false, max_nodes: if tier == Tier::Quick { 5 } else { 7 }, max_steps: 1, faults: false }
}

impl Prop for C14 {
    fn id(&self) -> &'static str {
        "C14"
    }

    fn rule(&self) -> String {
        "cases = generated recipe trees nesting load / tolerant load / load_owned / get_cached / directory loads / raw reads inside no_record blocks, helper threads, a second cache (with or without its own reloader) \
         and caught panics, loaded at top level; then, for EVERY file and directory any load touched (through either cache), one step that edits exactly that entry in the main source and notifies exactly it. \
         Oracle: the set of cached handles whose reload id grew equals exactly the closure, in the shadow dependency graph, of the assets whose own load touched that entry on the loading thread, through this cache, outside no_record \
         (reads by a nested reloadable asset belong to the nested asset); and the recording token sampled by the recipe interpreter around every nested operation / no_record block / caught panic is unchanged (0 inside no_record). \
         A third of the cases continue with a history (create / remove directories, rewrite manifests, notified as a watcher would) over a tree whose assets are selected by a custom DirLoadable reading a manifest file: \
         after every step the cached recursive directory and every cached directory list exactly what the tree holds (the crate's own RecursiveDirectory load is what reads the directory itself). \
         non-trivial = some touched entry was only read untracked (no_record / thread / other cache) and editing it reloads nothing; distinct = different canonical JSON"
            .into()
    }

    fn assumptions(&self) -> Vec<String> {
        vec!["worlds contain no failing loads after the initial phase (edits write valid contents), so 'affected' and 'reload id grew' coincide".into()]
    }

    fn plan(&self, tier: Tier) -> Plan {
        let mut p = Plan::new(match tier {
            Tier::Quick => 6000,
            Tier::Thorough => 60_000,
        });
        p.workers = 12;
        p.cases_per_process = 300;
        p
    }

    fn strategy(&self, tier: Tier) -> BoxedStrategy<Value> {
        hot::wcase_strategy(opts(tier), 0.0)
            .prop_map(|mut c| {
                // every leaf file valid, so that loads succeed and stay successful
                for f in c.files.iter_mut().chain(c.files2.iter_mut()) {
                    if !matches!(f.2, hot::Content::Ok(_)) {
                        f.2 = hot::Content::Ok(7);
                    }
                }
                c.steps.clear();
                c
            })
            .prop_flat_map(|c| {
                let ids = || prop::collection::vec(0u8..5, 0..4);
                let op = prop_oneof![
                    3 => (any::<u8>(), 0u8..4, ids()).prop_map(|(parent, name, ids)| DirOp::AddDir { parent, name, ids }),
                    2 => any::<u8>().prop_map(|dir| DirOp::RemoveDir { dir }),
                    2 => (any::<u8>(), ids()).prop_map(|(dir, ids)| DirOp::EditManifest { dir, ids }),
                ];
                (Just(c), prop_oneof![2 => Just(Vec::new()), 1 => prop::collection::vec(op, 1..8)])
            })
            .prop_map(|(mut c, dir_ops)| {
                c.dir_ops = dir_ops;
                to_case(&c)
            })
            .boxed()
    }

    fn run(&self, case: &Value) -> Outcome {
        let c: WCase = from_case(case);
        let mut out = Outcome::new();
        let mut r = Runner::new(&c);
        let tag = r.world.tag;
        // initial loads, keeping their events
        for (kind, id, owned) in &c.top {
            let w = &r.world;
            let _ = std::panic::catch_unwind(std::panic::AssertUnwindSafe(|| {
                if *owned {
                    let _ = w.top_load_owned(*kind, id);
                } else {
                    let _ = w.top_load(*kind, id);
                }
            }));
        }
        r.refresh_watches();
        r.snapshot_values();
        let init_events = r.world.take_events();
        for e in &init_events {
            if let Ev::Violation(m) = e {
                out.fail("recording-not-restored", format!("during the initial loads: {m}"));
                return out;
            }
        }
        // every entry touched by any load
        let mut touched: BTreeSet<OwnedEntry> = BTreeSet::new();
        let mut tracked: BTreeSet<OwnedEntry> = BTreeSet::new();
        for e in &init_events {
            if let Ev::Read { entry, to, .. } = e {
                touched.insert(entry.clone());
                if to.is_some() {
                    tracked.insert(entry.clone());
                }
            }
        }
        touched.remove(&OwnedEntry::File(SENTINEL.to_string(), "la".to_string()));
        let mut untracked_silent = 0;
        for (n, entry) in touched.iter().enumerate() {
            crate::tracelog::note(format!("C14 step {n}: edit and notify {entry:?}"));
            let deps_before = r.world.shadow_deps();
            // edit exactly this entry in the main source
            match entry {
                OwnedEntry::File(id, ext) => {
                    let mut t = r.world.src.tree();
                    let is_recipe = matches!(ext.as_str(), "n0" | "n1" | "ns");
                    if is_recipe {
                        // touch: same recipe, the file is rewritten
                        if let Some(cur) = t.files.get(&(id.clone(), ext.clone())).cloned() {
                            t.put(id, ext, cur.bytes.to_vec(), Variant::Buffer);
                        }
                    } else {
                        t.put(id, ext, format!("ok:e{n}").into_bytes(), Variant::Buffer);
                    }
                }
                OwnedEntry::Dir(id) => {
                    let mut t = r.world.src.tree();
                    if t.dir_exists(id) {
                        let new_id = if id.is_empty() { format!("z{n}") } else { format!("{id}.z{n}") };
                        t.put(&new_id, "la", format!("ok:n{n}").into_bytes(), Variant::Buffer);
                    }
                }
            }
            r.world.src.send(entry);
            if !r.barrier() {
                out.fail("reload-lost", format!("step {n}: the notified change of a loaded asset's file (the barrier's sentinel) was never applied although hot_reload kept returning {}", r.lost_detail));
                break;
            }
            for m in r.harness_violations() {
                out.fail("recording-not-restored", format!("while reloading after an edit of {entry:?}: {m}"));
                return out;
            }
            // expectation from the shadow graph as it was before the edit
            let cached = r.cached();
            let expected: BTreeSet<AKey> = affected(&deps_before, tag, std::slice::from_ref(entry)).into_iter().filter(|k| cached.contains(k) && k.0.type_reloadable() && r.values_before.contains_key(k)).collect();
            let grew: BTreeSet<AKey> = r.watches.iter().filter(|(k, w)| w.growths > 0 && k.1 != SENTINEL && r.values_before.contains_key(*k)).map(|(k, _)| k.clone()).collect();
            if grew != expected {
                let extra: Vec<&AKey> = grew.difference(&expected).collect();
                let missing: Vec<&AKey> = expected.difference(&grew).collect();
                let sig = if !extra.is_empty() { "reloaded-but-not-dependent" } else { "dependent-not-reloaded" };
                out.fail(
                    sig,
                    format!(
                        "after editing and notifying exactly {entry:?}: assets whose own load touched it (plus their dependents) are {expected:?}, but the handles whose reload id grew are {grew:?} (unexpected: {extra:?}, missing: {missing:?})"
                    ),
                );
                return out;
            }
            if !tracked.contains(entry) && expected.is_empty() {
                untracked_silent += 1;
            }
            for w in r.watches.values_mut() {
                w.growths = 0;
            }
            r.snapshot_values();
        }
        if untracked_silent > 0 {
            out.nontrivial = true;
            out.label("untracked-read-edit-reloads-nothing");
        }
        let has = |f: &dyn Fn(&crate::world::ROp) -> bool| c.nodes.iter().any(|n| n.ops.iter().any(|o| f(o)));
        if has(&|o| matches!(o, crate::world::ROp::NR(_) | crate::world::ROp::NRO(_))) {
            out.label("no_record");
        }
        if has(&|o| matches!(o, crate::world::ROp::TH(_))) {
            out.label("thread");
        }
        if has(&|o| matches!(o, crate::world::ROp::OC(_))) {
            out.label(format!("other-cache:{:?}", c.second));
        }
        if has(&|o| matches!(o, crate::world::ROp::Catch(_))) {
            out.label("caught-panic");
        }
        if touched.len() >= 6 {
            out.label("touched>=6");
        }
        let _ = Kind::Leaf;
        if !c.dir_ops.is_empty() && !out.failed() {
            drop(r);
            custom_dirloadable(&c.dir_ops, &mut out);
        }
        out
    }

    fn required_labels(&self) -> Vec<&'static str> {
        vec!["untracked-read-edit-reloads-nothing", "no_record", "thread", "caught-panic", "custom-dirloadable-history"]
    }
}
