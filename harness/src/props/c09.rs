//! C09 - faults while loading are contained (fault enumeration).

use super::hot::{self, GenOpts, Runner, Step, WCase};
use crate::engine::{from_case, to_case, Outcome, Plan, Prop, Tier};
use crate::world::{self, AKey, Ev, Fresh, LoaderFaults, SENTINEL};
use assets_manager::hot_reloading::verif::recording_token;
use proptest::prelude::*;
use serde_json::Value;
use std::collections::BTreeMap;
use std::io;

pub struct C09;

const KINDS: [io::ErrorKind; 5] = [io::ErrorKind::NotFound, io::ErrorKind::PermissionDenied, io::ErrorKind::InvalidData, io::ErrorKind::UnexpectedEof, io::ErrorKind::Other];

fn opts(tier: Tier) -> GenOpts {
    GenOpts { blocks: 2, unnotified: false, max_nodes: if tier == Tier::Quick { 4 } else { 6 }, max_steps: 2, faults: true }
}

#[derive(Clone, Copy, Debug, PartialEq)]
enum Fault {
    None,
    Read(u64, usize),
    Loader(u64, bool),
}

#[derive(Clone, Copy, Debug, PartialEq)]
enum Phase {
    Initial,
    Reload,
}

#[derive(Debug, Clone, PartialEq)]
enum CallResult {
    Ok(String),
    Err,
    Panic,
}

fn arm(r: &Runner, f: Fault) {
    let _ = r.world.src.take_log();
    {
        let mut p = r.world.src.faults();
        p.counting = true;
        p.counter = 0;
        p.fail_at = match f {
            Fault::Read(k, kind) => Some((k, KINDS[kind])),
            _ => None,
        };
    }
    let mut l = world::LOADER_FAULTS.lock().unwrap();
    *l = LoaderFaults { counting: true, counter: 0, fail_at: match f { Fault::Loader(k, p) => Some((k, p)), _ => None } };
}

/// Disarms and returns (reads counted, loader invocations counted).
fn disarm(r: &Runner) -> (u64, u64) {
    let reads = {
        let mut p = r.world.src.faults();
        p.counting = false;
        p.fail_at = None;
        p.counter
    };
    let mut l = world::LOADER_FAULTS.lock().unwrap();
    let n = l.counter;
    *l = LoaderFaults::default();
    (reads, n)
}

fn top_calls(r: &Runner, c: &WCase, out: &mut Outcome, ctx: &str, fault: Fault, check_each: bool) -> Vec<CallResult> {
    let mut res = Vec::new();
    let mut reads_so_far: Vec<crate::memsrc::ReadEvent> = Vec::new();
    let mut events_so_far: Vec<Ev> = Vec::new();
    for (kind, id, owned) in &c.top {
        let before = if check_each { snapshot(r) } else { BTreeMap::new() };
        let w = &r.world;
        let tok0 = recording_token();
        let got = std::panic::catch_unwind(std::panic::AssertUnwindSafe(|| if *owned { w.top_load_owned(*kind, id) } else { w.top_load(*kind, id) }));
        if recording_token() != tok0 || tok0 != 0 {
            out.fail("recording-not-restored", format!("{ctx}: after the top-level load of {kind:?} {id:?} the calling thread's dependency record is not what it was before"));
        }
        res.push(match got {
            Ok(Ok(v)) => CallResult::Ok(v),
            Ok(Err(_)) => CallResult::Err,
            Err(_) => CallResult::Panic,
        });
        if check_each {
            // what this call cached or changed must be a complete, explainable value (checked right away:
            // later calls change what "the current cache" is)
            reads_so_far.extend(r.world.src.take_log());
            events_so_far.extend(r.world.take_events());
            for e in &events_so_far {
                if let Ev::Violation(m) = e {
                    out.fail("recording-not-restored", format!("{ctx}: {m}"));
                }
            }
            let faulted = faulted_entry(fault, &reads_so_far, &events_so_far);
            check_values_explainable(r, out, &format!("{ctx}, after the top-level load of {kind:?} {id:?}"), &before, &faulted, &Default::default());
            if out.failed() {
                break;
            }
        }
    }
    res
}

fn snapshot(r: &Runner) -> BTreeMap<AKey, (String, assets_manager::ReloadId)> {
    let mut m = BTreeMap::new();
    for key in r.cached() {
        if let (Some(v), Some(id)) = (r.world.cached_value(r.world.tag, key.0, &key.1), world::typed_reload_id(r.world.any(), key.0, &key.1)) {
            m.insert(key, (v, id));
        }
    }
    m
}

/// No partially built / wrong value is visible: every cached reloadable asset equals a fresh model
/// evaluation (faults disarmed), unless its latest load swallowed a failure (tolerant look-up).
fn fresh_with_unreadable(r: &Runner, key: &AKey, entry: &Option<(String, String)>) -> Fresh {
    match entry {
        Some(e) => {
            let had = r.world.src.faults().unreadable_files.insert(e.clone(), io::ErrorKind::Other);
            let f = r.world.fresh(key.0, &key.1);
            if had.is_none() {
                r.world.src.faults().unreadable_files.remove(e);
            }
            f
        }
        None => r.world.fresh(key.0, &key.1),
    }
}

/// Which file did the injected fault hit? (so that a swallowed fault - extension fallback, tolerant
/// look-up - can be explained: the value equals a load in which that file cannot be used)
fn faulted_entry(fault: Fault, reads: &[crate::memsrc::ReadEvent], events: &[Ev]) -> Option<(String, String)> {
    match fault {
        Fault::None => None,
        Fault::Read(k, _) => reads.iter().filter(|e| !matches!(&e.entry, crate::memsrc::OwnedEntry::File(id, _) if id == SENTINEL)).nth(k as usize).map(|e| match &e.entry {
            crate::memsrc::OwnedEntry::File(i, x) => (i.clone(), x.clone()),
            crate::memsrc::OwnedEntry::Dir(i) => (i.clone(), "<dir>".to_string()),
        }),
        Fault::Loader(k, _) => {
            let mut n = 0;
            for (i, e) in events.iter().enumerate() {
                if let Ev::LoaderInvoked { tid, .. } = e {
                    if n == k {
                        // a leaf decode directly follows the read of its file on the same thread
                        for prev in events[..i].iter().rev() {
                            match prev {
                                Ev::Read { entry: crate::memsrc::OwnedEntry::File(id, ext), tid: t, .. } if t == tid => return Some((id.clone(), ext.clone())),
                                Ev::Read { tid: t, .. } if t == tid => return None,
                                Ev::LoaderInvoked { tid: t, .. } if t == tid => return None,
                                _ => {}
                            }
                        }
                        return None;
                    }
                    n += 1;
                }
            }
            None
        }
    }
}

thread_local! {
    static CUR_FAULT_IS_PANIC: std::cell::Cell<bool> = const { std::cell::Cell::new(false) };
}

fn check_values_explainable(r: &Runner, out: &mut Outcome, ctx: &str, before: &BTreeMap<AKey, (String, assets_manager::ReloadId)>, faulted: &Option<(String, String)>, deps_before: &std::collections::HashMap<(u32, AKey), std::collections::BTreeSet<crate::world::Dep>>) {
    let tolerated = r.world.shadow_tolerated();
    let tag = r.world.tag;
    let deps_now = r.world.shadow_deps();
    let grew: BTreeMap<AKey, u32> = r.watches.iter().map(|(k, w)| (k.clone(), w.growths)).collect();
    for key in r.cached() {
        let cached = match r.world.cached_value(tag, key.0, &key.1) {
            Some(v) => hot::strip_untracked(&v),
            None => continue,
        };
        // unchanged since before the faulted phase: fine (untouched)
        if let Some((v0, _)) = before.get(&key) {
            if hot::strip_untracked(v0) == cached {
                continue;
            }
        }
        if key.1 == SENTINEL {
            continue;
        }
        if CUR_FAULT_IS_PANIC.with(|c| c.get()) && cached.contains("C[!panic]") {
            // the injected panic was caught by the recipe itself: a complete value
            continue;
        }
        if let Fresh::Ok(v) = fresh_with_unreadable(r, &key, faulted) {
            if hot::strip_untracked(&v) == cached {
                // the load swallowed the fault (extension fallback / tolerant look-up): a complete value
                continue;
            }
        }
        {
            // the same, seen with the cache as it was before this call (assets cached later in the
            // same call were not there when this one was loaded)
            let view = |t: u32, k: crate::world::Kind, i: &str| if t == tag { before.get(&(k, i.to_string())).map(|(v, _)| v.clone()) } else { r.world.cached_value(t, k, i) };
            let mut ok = false;
            for with_fault in [true, false] {
                let inserted = match (with_fault, faulted) {
                    (true, Some(e)) => r.world.src.faults().unreadable_files.insert(e.clone(), io::ErrorKind::Other).is_none(),
                    _ => false,
                };
                if let Fresh::Ok(v) = r.world.fresh_with_view(tag, key.0, &key.1, &view) {
                    ok |= hot::strip_untracked(&v) == cached;
                }
                if inserted {
                    r.world.src.faults().unreadable_files.remove(faulted.as_ref().unwrap());
                }
            }
            if ok {
                continue;
            }
        }
        if let Some(e) = faulted {
            // a single transient fault on an entry that this load reads several times (owned nested loads re-read):
            // the value in which exactly the n-th of those reads failed
            let mut ok = false;
            for n in 0..12 {
                r.world.src.faults().model_unreadable_nth = Some((e.clone(), n, 0));
                let f = r.world.fresh(key.0, &key.1);
                let seen = r.world.src.faults().model_unreadable_nth.take().map_or(0, |x| x.2);
                if let Fresh::Ok(v) = f {
                    ok |= hot::strip_untracked(&v) == cached;
                }
                if ok || seen <= n {
                    break;
                }
            }
            if ok {
                continue;
            }
        }
        if hot::explained_by_d11(r, &key, deps_before, &deps_now, &grew) {
            // known finding D11 (reported under C05): not a containment problem
            out.excluded += 1;
            continue;
        }
        match r.world.fresh(key.0, &key.1) {
            Fresh::Ok(v) => {
                if hot::strip_untracked(&v) != cached && !tolerated.get(&(tag, key.clone())).copied().unwrap_or(false) {
                    if std::env::var("VERIF_TRACE").is_ok() {
                        for (pn, p) in r.passes.iter().enumerate() {
                            for e in p {
                                eprintln!("pass {pn}: {e:?}");
                            }
                        }
                        eprintln!("deps_now {:?}", deps_now.get(&(tag, key.clone())));
                        eprintln!("faulted {:?} fresh_with {:?}", faulted, fresh_with_unreadable(r, &key, faulted));
                        eprintln!("grew {:?}", grew);
                    }
                    out.fail("unexplained-value", format!("{ctx}: {key:?} now holds {cached:?}, which is neither its value from before the fault nor what loading it from the source gives ({v:?})"));
                    return;
                }
            }
            Fresh::Unknown => out.excluded += 1,
            Fresh::Err | Fresh::Panic => {
                if !tolerated.get(&(tag, key.clone())).copied().unwrap_or(false) {
                    out.fail("unexplained-value", format!("{ctx}: {key:?} holds the new value {cached:?} although it cannot be loaded from the source"));
                    return;
                }
            }
        }
    }
}

/// One execution of the scenario with one fault. Returns the counts of the armed phase.
fn execute(c: &WCase, phase: Phase, fault: Fault, out: &mut Outcome) -> (u64, u64) {
    let ctx = format!("{phase:?} phase, fault {fault:?}");
    CUR_FAULT_IS_PANIC.with(|c| c.set(matches!(fault, Fault::Loader(_, true))));
    let mut r = Runner::new(c);
    let step: Option<&Step> = c.steps.first();
    let counts;
    // ---- initial loads
    if phase == Phase::Initial {
        arm(&r, fault);
    }
    let res = top_calls(&r, c, out, &ctx, fault, phase == Phase::Initial);
    if out.failed() {
        return if phase == Phase::Initial { disarm(&r) } else { (0, 0) };
    }
    let c1 = if phase == Phase::Initial { disarm(&r) } else { (0, 0) };
    let init_reads = r.world.src.take_log();
    r.refresh_watches();
    r.snapshot_values();
    let init_events = r.world.take_events();
    for e in &init_events {
        if let Ev::Violation(m) = e {
            out.fail("recording-not-restored", format!("{ctx}: {m}"));
        }
    }
    if out.failed() {
        return c1;
    }
    if phase == Phase::Initial {
        counts = c1;
        // nothing partially built is visible
        let _ = (&init_reads, &init_events);
        // repair = the fault is gone: retrying gives the cached value, or what the source gives
        for ((kind, id, owned), first) in c.top.iter().zip(&res) {
            let expect = if *owned { None } else { r.world.cached_value(r.world.tag, *kind, id) };
            let w = &r.world;
            let got = std::panic::catch_unwind(std::panic::AssertUnwindSafe(|| if *owned { w.top_load_owned(*kind, id) } else { w.top_load(*kind, id) }));
            let got = match got {
                Ok(Ok(v)) => CallResult::Ok(v),
                Ok(Err(_)) => CallResult::Err,
                Err(_) => CallResult::Panic,
            };
            // evaluated after the call: the model has no side effects, the call has (it caches what it loads)
            let fresh = r.world.fresh(*kind, id);
            let tolerated_now = r.world.shadow_tolerated().get(&(r.world.tag, (*kind, id.clone()))).copied().unwrap_or(false);
            let ok = match (&expect, &fresh, &got) {
                (Some(v), _, CallResult::Ok(g)) => v == g,
                (Some(_), _, _) => false,
                (None, Fresh::Ok(v), CallResult::Ok(g)) => hot::strip_untracked(v) == hot::strip_untracked(g) || tolerated_now || *owned,
                (None, Fresh::Err, CallResult::Err) => true,
                (None, Fresh::Panic, CallResult::Panic) => true,
                (None, Fresh::Unknown, _) => true,
                _ => false,
            };
            if !ok {
                out.fail("retry-after-repair", format!("{ctx}: the first call gave {first:?}; after the fault was removed, loading {kind:?} {id:?} again gives {got:?} (cached: {expect:?}, the source gives {fresh:?})"));
                return counts;
            }
        }
        r.refresh_watches();
        r.snapshot_values();
        let _ = r.world.take_events();
    } else {
        counts = (0, 0);
    }
    // ---- reload phase
    let mut counts = counts;
    if let Some(step) = step {
        let before = snapshot(&r);
        let deps_before = r.world.shadow_deps();
        let notes = r.apply_edits(step);
        if phase == Phase::Reload {
            arm(&r, fault);
        }
        let sent = r.send(step, notes);
        if !r.barrier() {
            out.fail("reload-lost", format!("{ctx}: after the faulted pass, the notified change of a loaded asset's file (the barrier's sentinel, notified in the same batch) was never applied although hot_reload kept returning"));
            return if phase == Phase::Reload { disarm(&r) } else { counts };
        }
        if phase == Phase::Reload {
            counts = disarm(&r);
        }
        for m in r.harness_violations() {
            out.fail("recording-not-restored", format!("{ctx}: {m}"));
            return counts;
        }
        let reads = r.world.src.take_log();
        let evs: Vec<Ev> = r.all_events().cloned().collect();
        let faulted = if phase == Phase::Reload { faulted_entry(fault, &reads, &evs) } else { None };
        check_values_explainable(&r, out, &format!("{ctx}, after the reload"), &before, &faulted, &deps_before);
        if out.failed() {
            return counts;
        }
        // ids only move together with values
        for (key, (v0, id0)) in &before {
            if let (Some(v1), Some(id1)) = (r.world.cached_value(r.world.tag, key.0, &key.1), world::typed_reload_id(r.world.any(), key.0, &key.1)) {
                if id1 == *id0 && hot::strip_untracked(&v1) != hot::strip_untracked(v0) {
                    out.fail("value-changed-without-reload-id", format!("{ctx}: {key:?} changed from {v0:?} to {v1:?} but its reload id did not move"));
                    return counts;
                }
            }
        }
        let _ = (deps_before, sent);
        for w in r.watches.values_mut() {
            w.growths = 0;
        }
        r.snapshot_values();
    }
    // ---- recovery: hot_reload still returns and applies a fresh (repairing) edit
    let repair = Step { edits: vec![hot::Edit::RepairAll { value: 4242 }, hot::Edit::SetFile { id: "l0".into(), ext: "la".into(), content: hot::Content::Ok(4243) }], notified: vec![true, true], batched: true, duplicate: false, noise: vec![], order: 7 };
    let deps_before = r.world.shadow_deps();
    let notes = r.apply_edits(&repair);
    let sent = r.send(&repair, notes);
    if !r.barrier() {
        out.fail("reload-lost", format!("{ctx}: after repairing the source, a notified change was never applied although hot_reload kept returning"));
        return counts;
    }
    let grew: BTreeMap<AKey, u32> = r.watches.iter().map(|(k, w)| (k.clone(), w.growths)).collect();
    hot::check_convergence(&r, out, 99, &grew, &deps_before, &sent);
    if let Some(v) = &mut out.violation {
        v.what = format!("{ctx}, after repairing the source: {}", v.what);
        if v.sig == "new-dependency-reloaded-in-same-batch" {
            // D11 belongs to C05; not a containment problem
            out.violation = None;
            out.excluded += 1;
        }
    }
    if out.failed() {
        return counts;
    }
    // ---- late retry: whatever a look-up could not get while the fault was present is now loaded directly;
    // then every leaf changes again. A look-up is a recorded dependency whatever it returned, so the assets
    // that looked those entries up are reloaded with them.
    for l in hot::LEAVES {
        let w = &r.world;
        let _ = std::panic::catch_unwind(std::panic::AssertUnwindSafe(|| w.top_load(crate::world::Kind::Leaf, l)));
    }
    for n in &c.nodes {
        let w = &r.world;
        let _ = std::panic::catch_unwind(std::panic::AssertUnwindSafe(|| w.top_load(n.kind, &n.id)));
    }
    r.refresh_watches();
    for w in r.watches.values_mut() {
        w.growths = 0;
    }
    r.snapshot_values();
    let _ = r.world.take_events();
    let _ = r.world.src.take_log();
    let late = Step {
        edits: hot::LEAVES.iter().enumerate().map(|(i, l)| hot::Edit::SetFile { id: l.to_string(), ext: "la".into(), content: hot::Content::Ok(5000 + i as u16) }).collect(),
        notified: vec![true; hot::LEAVES.len()],
        batched: false,
        duplicate: false,
        noise: vec![],
        order: 3,
    };
    let deps_before = r.world.shadow_deps();
    let notes = r.apply_edits(&late);
    let sent = r.send(&late, notes);
    if !r.barrier() {
        out.fail("reload-lost", format!("{ctx}: after the late retry, a notified change was never applied although hot_reload kept returning"));
        return counts;
    }
    let grew: BTreeMap<AKey, u32> = r.watches.iter().map(|(k, w)| (k.clone(), w.growths)).collect();
    hot::check_convergence(&r, out, 100, &grew, &deps_before, &sent);
    if let Some(v) = &mut out.violation {
        v.what = format!("{ctx}, after loading every leaf and node directly and changing every leaf: {}", v.what);
        if v.sig == "new-dependency-reloaded-in-same-batch" {
            out.violation = None;
            out.excluded += 1;
        }
    }
    counts
}

impl Prop for C09 {
    fn id(&self) -> &'static str {
        "C09"
    }

    fn level(&self) -> &'static str {
        "fault_enumeration"
    }

    fn rule(&self) -> String {
        "a case = a generated scenario (a small C05 world with top-level loads and one edit step). A fault-free dry run counts the source reads R and loader invocations L of the initial-load phase and of the reload phase; \
         then EVERY single fault is executed on a fresh copy of the scenario: each read index k < R x io kind in {NotFound, PermissionDenied, InvalidData, UnexpectedEof, Other}, each loader invocation k < L x {Err, panic}, in both phases \
         (initial loads on the caller thread under catch_unwind; reloads on the reloader thread), followed by removing the fault, retrying, and a repairing edit + barrier. \
         Checks: the faulted call returns Err / unwinds / or a value explained by a swallowed failure; every cached value is either untouched or equals the model evaluation of the source; values move only with their reload id; \
         the calling thread's recording token is restored; retry gives the cached or the fresh value; hot_reload keeps returning (blocked-state detector) and the repair converges; finally every leaf and node is loaded directly and every leaf changed: \
         an asset whose latest load looked an entry up (even unsuccessfully, while the fault was there) is reloaded when that entry is. \
         non-trivial = a scenario in which some fault hit a nested load (depth >= 1) or the reload phase; distinct = different canonical JSON of the scenario; evaluations = scenarios, executions_enumerated_inside_cases = single-fault executions"
            .into()
    }

    fn assumptions(&self) -> Vec<String> {
        vec![
            "single faults only (one failing read or one failing loader invocation per execution)".into(),
            "reads and loader invocations of the barrier's sentinel asset are exempt from injection".into(),
        ]
    }

    fn plan(&self, tier: Tier) -> Plan {
        let mut p = Plan::new(match tier {
            Tier::Quick => 160,
            Tier::Thorough => 1500,
        });
        p.workers = 12;
        p.cases_per_process = 40;
        p
    }

    fn strategy(&self, tier: Tier) -> BoxedStrategy<Value> {
        hot::wcase_strategy(opts(tier), 0.0)
            .prop_map(|mut c| {
                c.steps.truncate(1);
                to_case(&c)
            })
            .boxed()
    }

    fn run(&self, case: &Value) -> Outcome {
        let c: WCase = from_case(case);
        let mut out = Outcome::new();
        // dry runs: counts per phase
        let (r1, l1) = execute(&c, Phase::Initial, Fault::None, &mut out);
        out.sub_evals += 1;
        if out.failed() {
            out.violation.as_mut().unwrap().what.insert_str(0, "fault-free dry run: ");
            return out;
        }
        let (r2, l2) = execute(&c, Phase::Reload, Fault::None, &mut out);
        out.sub_evals += 1;
        if out.failed() {
            return out;
        }
        let mut faults: Vec<(Phase, Fault)> = Vec::new();
        for (phase, r, l) in [(Phase::Initial, r1, l1), (Phase::Reload, r2, l2)] {
            for k in 0..r {
                for kind in 0..KINDS.len() {
                    faults.push((phase, Fault::Read(k, kind)));
                }
            }
            for k in 0..l {
                faults.push((phase, Fault::Loader(k, false)));
                faults.push((phase, Fault::Loader(k, true)));
            }
        }
        for (phase, fault) in &faults {
            execute(&c, *phase, *fault, &mut out);
            out.sub_evals += 1;
            if out.failed() {
                break;
            }
        }
        if r2 + l2 > 0 {
            out.nontrivial = true;
            out.label("reload-phase-faults");
        }
        if l1 >= 2 {
            out.nontrivial = true;
            out.label("nested-load-faults");
        }
        if faults.len() >= 50 {
            out.label("faults>=50");
        }
        out
    }

    fn required_labels(&self) -> Vec<&'static str> {
        vec!["reload-phase-faults", "nested-load-faults"]
    }
}
