//! C17 - OnceInitCell initialises once, keeps its seed on failure, drops once.

use crate::engine::{from_case, to_case, Outcome, Plan, Prop, Tier};
use crate::ledger::{self, Tracked};
use assets_manager::OnceInitCell;
use proptest::prelude::*;
use serde::{Deserialize, Serialize};
use serde_json::Value;
use std::panic::{catch_unwind, AssertUnwindSafe};
use std::sync::atomic::{AtomicBool, AtomicUsize, Ordering::SeqCst};
use std::sync::Mutex;

#[derive(Debug, Clone, Copy, Serialize, Deserialize, PartialEq, Eq)]
pub enum SeedKind {
    /// seed with a destructor (tracked)
    Drop,
    /// seed without drop glue (`needs_drop == false` code path)
    NoDrop,
    /// seed whose destructor panics
    PanickingDrop,
    /// 520-byte seed with a destructor
    BigDrop,
    /// 1 KiB seed whose destructor panics
    BigPanickingDrop,
    /// 4 KiB seed without drop glue
    BigNoDrop,
    /// zero-sized seed with a destructor
    ZstDrop,
}

impl SeedKind {
    fn panicking(self) -> bool {
        matches!(self, SeedKind::PanickingDrop | SeedKind::BigPanickingDrop)
    }
    fn has_drop(self) -> bool {
        !matches!(self, SeedKind::NoDrop | SeedKind::BigNoDrop | SeedKind::ZstDrop)
    }
}

#[derive(Debug, Clone, Copy, Serialize, Deserialize, PartialEq, Eq)]
pub enum Action {
    Fail { mutate: bool },
    Panic { mutate: bool },
    Succeed { mutate: bool, work: u8 },
    /// a succeeding initialiser run from a destructor while the calling thread unwinds from an unrelated panic
    SucceedUnwinding { mutate: bool },
}

#[derive(Debug, Clone, Serialize, Deserialize)]
pub struct Case {
    seed: SeedKind,
    threads: Vec<Vec<Action>>,
    /// release all threads at the same instant before every attempt
    rendezvous: bool,
    /// an extra thread calls get() while an initialiser is parked inside the cell
    getter: bool,
    /// the attempts that cannot return an error (succeeding or panicking initialisers) go through the
    /// infallible entry point `get_or_init` instead of `get_or_try_init`
    #[serde(default)]
    infallible: bool,
}

trait SeedT: Send + 'static {
    fn new() -> Self;
    /// false for a seed that cannot carry the mutation log (zero-sized)
    fn carries_log() -> bool {
        true
    }
    fn log(&self) -> Vec<u8>;
    fn push(&mut self, b: u8);
    fn token(&self) -> Option<u64>;
}

struct SeedD {
    tok: Tracked,
    log: Vec<u8>,
}
impl SeedT for SeedD {
    fn new() -> Self {
        SeedD { tok: Tracked::new(), log: Vec::new() }
    }
    fn log(&self) -> Vec<u8> {
        self.log.clone()
    }
    fn push(&mut self, b: u8) {
        self.log.push(b)
    }
    fn token(&self) -> Option<u64> {
        Some(self.tok.token)
    }
}

#[derive(Clone, Copy)]
struct SeedN {
    log: [u8; 24],
    n: usize,
}
impl SeedT for SeedN {
    fn new() -> Self {
        SeedN { log: [0; 24], n: 0 }
    }
    fn log(&self) -> Vec<u8> {
        self.log[..self.n].to_vec()
    }
    fn push(&mut self, b: u8) {
        if self.n < 24 {
            self.log[self.n] = b;
            self.n += 1;
        }
    }
    fn token(&self) -> Option<u64> {
        None
    }
}

struct SeedP {
    tok: Tracked,
    log: Vec<u8>,
}
impl SeedT for SeedP {
    fn new() -> Self {
        SeedP { tok: Tracked::new(), log: Vec::new() }
    }
    fn log(&self) -> Vec<u8> {
        self.log.clone()
    }
    fn push(&mut self, b: u8) {
        self.log.push(b)
    }
    fn token(&self) -> Option<u64> {
        Some(self.tok.token)
    }
}
impl Drop for SeedP {
    fn drop(&mut self) {
        if !std::thread::panicking() {
            panic!("seed destructor panics");
        }
    }
}

struct SeedDB {
    inner: SeedD,
    pad: [u64; 64],
}
impl SeedT for SeedDB {
    fn new() -> Self {
        SeedDB { inner: SeedD::new(), pad: [0xA5A5_A5A5_A5A5_A5A5; 64] }
    }
    fn log(&self) -> Vec<u8> {
        // the padding travels with the seed: a corrupted copy shows up as a log mismatch
        if self.pad.iter().any(|w| *w != 0xA5A5_A5A5_A5A5_A5A5) {
            return vec![255, 255, 255];
        }
        self.inner.log()
    }
    fn push(&mut self, b: u8) {
        self.inner.push(b)
    }
    fn token(&self) -> Option<u64> {
        self.inner.token()
    }
}
struct SeedPB {
    inner: SeedP,
    pad: [u64; 126],
}
impl SeedT for SeedPB {
    fn new() -> Self {
        SeedPB { inner: SeedP::new(), pad: [0x5A5A_5A5A_5A5A_5A5A; 126] }
    }
    fn log(&self) -> Vec<u8> {
        if self.pad.iter().any(|w| *w != 0x5A5A_5A5A_5A5A_5A5A) {
            return vec![255, 255, 255];
        }
        self.inner.log()
    }
    fn push(&mut self, b: u8) {
        self.inner.push(b)
    }
    fn token(&self) -> Option<u64> {
        self.inner.token()
    }
}
#[derive(Clone, Copy)]
struct SeedNB {
    inner: SeedN,
    pad: [u8; 4064],
}
impl SeedT for SeedNB {
    fn new() -> Self {
        SeedNB { inner: SeedN::new(), pad: [0x3C; 4064] }
    }
    fn log(&self) -> Vec<u8> {
        if self.pad.iter().any(|w| *w != 0x3C) {
            return vec![255, 255, 255];
        }
        self.inner.log()
    }
    fn push(&mut self, b: u8) {
        self.inner.push(b)
    }
    fn token(&self) -> Option<u64> {
        None
    }
}

/// zero-sized seed with a destructor: live instances are counted
static ZSEED_LIVE: std::sync::atomic::AtomicI64 = std::sync::atomic::AtomicI64::new(0);
static ZSEED_DROPS: AtomicUsize = AtomicUsize::new(0);
struct SeedZ;
impl SeedT for SeedZ {
    fn new() -> Self {
        ZSEED_LIVE.fetch_add(1, SeqCst);
        SeedZ
    }
    fn carries_log() -> bool {
        false
    }
    fn log(&self) -> Vec<u8> {
        Vec::new()
    }
    fn push(&mut self, _b: u8) {}
    fn token(&self) -> Option<u64> {
        None
    }
}
impl Drop for SeedZ {
    fn drop(&mut self) {
        ZSEED_LIVE.fetch_sub(1, SeqCst);
        ZSEED_DROPS.fetch_add(1, SeqCst);
    }
}

struct Val {
    tok: Tracked,
    v: u32,
}

#[derive(Default)]
struct Shared {
    /// the mutations every initialiser applied so far, in entry order
    expected_log: Mutex<Vec<u8>>,
    inside: AtomicUsize,
    overlap: AtomicBool,
    seed_mismatch: Mutex<Option<String>>,
    successes: AtomicUsize,
    success_value: AtomicUsize,
    /// getter handshake (blocking waits, so that a blocked `get` leaves every thread asleep)
    hs: Mutex<(bool, bool)>, // (parked, getter_done)
    hs_cv: std::sync::Condvar,
    getter_saw_some_while_parked: AtomicBool,
    next_mut: AtomicUsize,
}

struct ThreadReport {
    /// (address of the returned reference, value) for every Ok
    oks: Vec<(usize, u32)>,
    errs: usize,
    panics: usize,
    /// get() was Some right after a failed/panicked attempt although nobody succeeded yet (checked by caller)
    get_after_fail: Vec<(bool, usize)>,
}

fn run_generic<S: SeedT>(c: &Case, out: &mut Outcome) {
    ledger::reset();
    ZSEED_LIVE.store(0, SeqCst);
    ZSEED_DROPS.store(0, SeqCst);
    let sh = Shared::default();
    let cell: OnceInitCell<S, Val> = OnceInitCell::new(S::new());
    let nthreads = c.threads.len();
    let barrier = super::common::SpinBarrier::new(nthreads.max(1));
    let seed_token: Mutex<Option<u64>> = Mutex::new(None);
    let has_getter = c.getter && nthreads >= 1;
    let max_attempts = c.threads.iter().map(|t| t.len()).max().unwrap_or(0);

    let attempt = |t: usize, a: Action, rep: &mut ThreadReport| {
        let call = || {
            let body = |seed: &mut S| {
                if sh.inside.fetch_add(1, SeqCst) != 0 {
                    sh.overlap.store(true, SeqCst);
                }
                struct Leave<'a>(&'a AtomicUsize);
                impl Drop for Leave<'_> {
                    fn drop(&mut self) {
                        self.0.fetch_sub(1, SeqCst);
                    }
                }
                let _leave = Leave(&sh.inside);
                if let Some(tok) = seed.token() {
                    *seed_token.lock().unwrap() = Some(tok);
                    if !ledger::is_alive(tok) {
                        *sh.seed_mismatch.lock().unwrap() = Some("an initialiser was handed a seed that had already been dropped".into());
                    }
                }
                if S::carries_log() {
                    let exp = sh.expected_log.lock().unwrap();
                    let got = seed.log();
                    if got != *exp {
                        let mut m = sh.seed_mismatch.lock().unwrap();
                        if m.is_none() {
                            *m = Some(format!("an initialiser found the seed as {got:?}, but the previous initialisers left it as {:?}", *exp));
                        }
                    }
                }
                let (mutate, work) = match a {
                    Action::Fail { mutate } | Action::Panic { mutate } | Action::SucceedUnwinding { mutate } => (mutate, 0),
                    Action::Succeed { mutate, work } => (mutate, work),
                };
                if mutate {
                    let b = (sh.next_mut.fetch_add(1, SeqCst) % 250) as u8 + 1;
                    seed.push(b);
                    sh.expected_log.lock().unwrap().push(b);
                }
                // park for the getter: it must be able to finish its get() calls while we are inside
                if has_getter && t == 0 {
                    let mut g = sh.hs.lock().unwrap();
                    if !g.1 {
                        g.0 = true;
                        sh.hs_cv.notify_all();
                        while !g.1 {
                            g = sh.hs_cv.wait(g).unwrap();
                        }
                        g.0 = false;
                    }
                }
                for _ in 0..(work as u32) * 40 {
                    std::hint::spin_loop();
                }
                match a {
                    Action::Fail { .. } => Err(()),
                    Action::Panic { .. } => panic!("initialiser panics"),
                    Action::Succeed { .. } | Action::SucceedUnwinding { .. } => {
                        let v = (t as u32) * 1000 + sh.successes.load(SeqCst) as u32 + 1;
                        sh.successes.fetch_add(1, SeqCst);
                        sh.success_value.store(v as usize, SeqCst);
                        Ok(Val { tok: Tracked::new(), v })
                    }
                }
            };
            let r: Result<&Val, ()> = if c.infallible && !matches!(a, Action::Fail { .. }) {
                Ok(cell.get_or_init(|seed: &mut S| match body(seed) {
                    Ok(v) => v,
                    Err(()) => unreachable!("only Fail actions return an error"),
                }))
            } else {
                cell.get_or_try_init(body)
            };
            r.map(|r| (r as *const Val as usize, r.v, r.tok.token))
        };
        let r = if matches!(a, Action::SucceedUnwinding { .. }) {
            // the call is made from the destructor of a guard while an unrelated panic unwinds this thread
            let mut slot = None;
            let outer = catch_unwind(AssertUnwindSafe(|| {
                struct OnUnwind<F: FnMut()>(F);
                impl<F: FnMut()> Drop for OnUnwind<F> {
                    fn drop(&mut self) {
                        (self.0)()
                    }
                }
                let _g = OnUnwind(|| slot = Some(call()));
                panic!("unrelated panic");
            }));
            debug_assert!(outer.is_err());
            match slot {
                Some(r) => Ok(r),
                None => Err(Box::new("the guard did not run") as Box<dyn std::any::Any + Send>),
            }
        } else {
            catch_unwind(AssertUnwindSafe(call))
        };
        match r {
            Ok(Ok((addr, v, tok))) => {
                ledger::note_use(tok);
                rep.oks.push((addr, v));
                true
            }
            Ok(Err(())) => {
                rep.errs += 1;
                rep.get_after_fail.push((cell.get().is_some(), sh.successes.load(SeqCst)));
                false
            }
            Err(_) => {
                rep.panics += 1;
                // a panicking seed destructor reaches the caller after a *successful* initialisation
                rep.get_after_fail.push((cell.get().is_some(), sh.successes.load(SeqCst)));
                false
            }
        }
    };

    let mut reports: Vec<ThreadReport> = Vec::new();
    std::thread::scope(|s| {
        let mut joins = Vec::new();
        for (t, script) in c.threads.iter().enumerate() {
            let attempt = &attempt;
            let barrier = &barrier;
            let rendezvous = c.rendezvous && !has_getter;
            joins.push(s.spawn(move || {
                let mut rep = ThreadReport { oks: vec![], errs: 0, panics: 0, get_after_fail: vec![] };
                for k in 0..max_attempts {
                    if rendezvous {
                        barrier.wait();
                    }
                    if let Some(a) = script.get(k) {
                        attempt(t, *a, &mut rep);
                    }
                }
                rep
            }));
        }
        if has_getter {
            let sh = &sh;
            let cell = &cell;
            s.spawn(move || {
                // wait until thread 0's initialiser is parked inside the cell (or nothing will park)
                let parked = {
                    let mut g = sh.hs.lock().unwrap();
                    while !g.0 && !g.1 {
                        g = sh.hs_cv.wait(g).unwrap();
                    }
                    g.0
                };
                if parked {
                    let succ_before = sh.successes.load(SeqCst);
                    for _ in 0..50 {
                        // a blocking get() wedges the whole case here: every thread ends up asleep
                        if cell.get().is_some() && succ_before == 0 && sh.successes.load(SeqCst) == 0 {
                            sh.getter_saw_some_while_parked.store(true, SeqCst);
                        }
                    }
                }
                let mut g = sh.hs.lock().unwrap();
                g.1 = true;
                sh.hs_cv.notify_all();
            });
        }
        for j in joins {
            match j.join() {
                Ok(r) => reports.push(r),
                Err(_) => reports.push(ThreadReport { oks: vec![], errs: 0, panics: 1, get_after_fail: vec![] }),
            }
        }
        // in case thread 0 never entered an initialiser, release the getter
        let mut g = sh.hs.lock().unwrap();
        g.1 = true;
        sh.hs_cv.notify_all();
    });

    // ---- oracle
    let successes = sh.successes.load(SeqCst);
    let any_ok = reports.iter().any(|r| !r.oks.is_empty());
    if let Some(m) = sh.seed_mismatch.lock().unwrap().clone() {
        out.fail("seed-not-kept", m);
    }
    if sh.overlap.load(SeqCst) {
        out.fail("initialisers-overlap", "two initialisers were running inside the cell at the same time");
    }
    if successes > 1 {
        out.fail("initialised-twice", format!("{successes} initialisers succeeded"));
    }
    if any_ok && successes == 0 {
        out.fail("value-from-nowhere", "a caller got a value although no initialiser succeeded");
    }
    let mut addrs: Vec<(usize, u32)> = reports.iter().flat_map(|r| r.oks.iter().copied()).collect();
    addrs.sort_unstable();
    addrs.dedup();
    if addrs.len() > 1 {
        out.fail("different-references", format!("callers got different references/values: {addrs:?}"));
    }
    if let Some((_, v)) = addrs.first() {
        if successes == 1 && *v as usize != sh.success_value.load(SeqCst) {
            out.fail("different-references", "the value handed out is not the one the successful initialiser produced");
        }
    }
    if sh.getter_saw_some_while_parked.load(SeqCst) {
        out.fail("get-some-while-initialising", "get() returned a value while the first initialiser was still running");
    }
    for r in &reports {
        for (some, succ_then) in &r.get_after_fail {
            if *some && *succ_then == 0 && successes == 0 {
                out.fail("initialised-after-failure", "get() is Some after a failing/panicking initialiser although nobody succeeded");
            }
        }
    }
    let get_now = cell.get().map(|v| (v as *const Val as usize, v.v, v.tok.token));
    match (successes, &get_now) {
        (0, Some(_)) => out.fail("initialised-after-failure", "the cell is initialised although every initialiser failed or panicked"),
        (1, None) => out.fail("not-initialised-after-success", "the cell is empty although an initialiser succeeded"),
        _ => {}
    }
    // ledger: exactly one of seed / value alive
    let seed_tok = *seed_token.lock().unwrap();
    if c.seed.has_drop() {
        if let Some(st) = seed_tok {
            let seed_alive = ledger::is_alive(st);
            if successes == 0 && !seed_alive {
                out.fail("seed-dropped-early", "the seed was dropped although the cell was never initialised");
            }
            if successes >= 1 && seed_alive {
                out.fail("seed-not-dropped", "the seed is still alive after a successful initialisation");
            }
        }
    }
    if c.seed == SeedKind::ZstDrop {
        let live = ZSEED_LIVE.load(SeqCst);
        if successes == 0 && live != 1 {
            out.fail("seed-dropped-early", format!("{live} zero-sized seeds are alive although the cell was never initialised (expected 1)"));
        }
        if successes >= 1 && live != 0 {
            out.fail("seed-not-dropped", format!("{live} zero-sized seed(s) still alive after a successful initialisation: its destructor must run when the value replaces it"));
        }
    }
    if let Some((_, _, vt)) = get_now {
        if !ledger::is_alive(vt) {
            out.fail("value-dropped-early", "the value of an initialised cell has been dropped");
        }
    }
    if ledger::double_drops() != 0 || ledger::use_after_drop() != 0 {
        out.fail("double-drop", format!("{} double drop(s), {} use(s) after drop before the cell was dropped", ledger::double_drops(), ledger::use_after_drop()));
    }
    // drop the cell: everything must be dropped exactly once
    let dropped = catch_unwind(AssertUnwindSafe(|| drop(cell)));
    if dropped.is_err() && !(c.seed.panicking() && successes == 0) {
        out.fail("drop-panicked", "dropping the cell panicked");
    }
    if ledger::alive_count() != 0 {
        out.fail("leak", format!("{} tracked seed/value(s) still alive after the cell was dropped", ledger::alive_count()));
    }
    if c.seed == SeedKind::ZstDrop && (ZSEED_LIVE.load(SeqCst) != 0 || ZSEED_DROPS.load(SeqCst) != 1) {
        out.fail("leak", format!("after the cell was dropped the zero-sized seed's destructor has run {} time(s) (expected exactly once)", ZSEED_DROPS.load(SeqCst)));
    }
    if ledger::double_drops() != 0 {
        out.fail("double-drop", format!("{} tracked seed/value(s) were dropped twice", ledger::double_drops()));
    }
    // panicking seed destructor: the panic reaches exactly the caller whose initialiser succeeded
    if c.seed.panicking() && successes == 1 {
        let mutated_panics: usize = c.threads.iter().flatten().filter(|a| matches!(a, Action::Panic { .. })).count();
        let total_panics: usize = reports.iter().map(|r| r.panics).sum();
        if total_panics > mutated_panics + 1 {
            out.fail("extra-panics", format!("{total_panics} calls panicked, at most {} expected", mutated_panics + 1));
        }
    }
}

/// `IsSync::<T>::IS` is true iff `T: Sync` (the inherent constant exists only then and takes precedence).
struct IsSync<T: ?Sized>(std::marker::PhantomData<T>);
trait NotSyncFallback {
    const IS: bool = false;
}
impl<T: ?Sized> NotSyncFallback for IsSync<T> {}
impl<T: ?Sized + Sync> IsSync<T> {
    const IS: bool = true;
}

pub struct C17;

fn action_strategy() -> impl Strategy<Value = Action> {
    prop_oneof![
        3 => any::<bool>().prop_map(|mutate| Action::Fail { mutate }),
        2 => any::<bool>().prop_map(|mutate| Action::Panic { mutate }),
        3 => (any::<bool>(), 0u8..60).prop_map(|(mutate, work)| Action::Succeed { mutate, work }),
        1 => any::<bool>().prop_map(|mutate| Action::SucceedUnwinding { mutate }),
    ]
}

impl Prop for C17 {
    fn id(&self) -> &'static str {
        "C17"
    }

    fn rule(&self) -> String {
        "cases = (seed kind: with Drop / without drop glue / with a panicking destructor, each also as a large seed (520 B, 4 KiB, 1 KiB) carrying a checked padding, and a zero-sized seed with a destructor; initialisers may also run from the destructor of a guard while their thread unwinds from an unrelated panic; 1..8 threads each with a script of failing, panicking or succeeding \
         initialisers that may mutate the seed first; optional spin rendezvous before every attempt; optional getter thread calling get() while the first initialiser is parked inside the cell; in 40% of the cases the attempts that cannot return an error go through the infallible entry point get_or_init, the others through get_or_try_init). \
         Oracle: the compiler's auto-trait decisions (a cell whose seed is not Send, or whose value is not Send + Sync, is not Sync; with Arc both it is); at most one initialiser inside the cell at a time, exactly one success, one reference/value for all callers, the seed is found exactly as the previous initialisers left it, \
         get() is None until a success and never blocks (a blocked getter deadlocks the case -> blocked-state detector), drop ledger: seed alive until success, dropped once after, value alive until the cell is dropped, nothing left, nothing dropped twice. \
         non-trivial = >= 2 threads, or a failing/panicking initialiser that mutated the seed followed by another attempt; distinct = different canonical JSON"
            .into()
    }

    fn assumptions(&self) -> Vec<String> {
        vec!["interleavings of initialising threads are sampled (spin rendezvous + generated busy work), not enumerated".into()]
    }

    fn plan(&self, tier: Tier) -> Plan {
        let mut p = Plan::new(match tier {
            Tier::Quick => 20000,
            Tier::Thorough => 300_000,
        });
        p.workers = 8;
        p
    }

    fn strategy(&self, _tier: Tier) -> BoxedStrategy<Value> {
        let seed = prop_oneof![3 => Just(SeedKind::Drop), 3 => Just(SeedKind::NoDrop), 1 => Just(SeedKind::PanickingDrop), 1 => Just(SeedKind::BigDrop), 1 => Just(SeedKind::BigPanickingDrop), 1 => Just(SeedKind::BigNoDrop), 1 => Just(SeedKind::ZstDrop)];
        let threads = prop_oneof![
            3 => prop::collection::vec(prop::collection::vec(action_strategy(), 1..8), 1..2),
            4 => prop::collection::vec(prop::collection::vec(action_strategy(), 1..5), 2..8),
        ];
        (seed, threads, any::<bool>(), prop::bool::weighted(0.3), prop::bool::weighted(0.4))
            .prop_map(|(seed, threads, rendezvous, getter, infallible)| to_case(&Case { seed, threads, rendezvous, getter, infallible }))
            .boxed()
    }

    fn run(&self, case: &Value) -> Outcome {
        let c: Case = from_case(case);
        let mut out = Outcome::new();
        // which threads may see the cell at all: any thread that calls get_or_init on a shared cell may be the
        // one that runs the initialiser on the seed and drops it, so a cell is shareable only if its seed may
        // move to another thread (decided by the compiler; read here through an inherent-vs-trait constant)
        {
            use std::rc::Rc;
            use std::sync::Arc;
            let rc_seed = IsSync::<OnceInitCell<Rc<u8>, u8>>::IS;
            let rc_value = IsSync::<OnceInitCell<u8, Rc<u8>>>::IS;
            let cell_value_not_sync = IsSync::<OnceInitCell<u8, std::cell::Cell<u8>>>::IS;
            let arc_both = IsSync::<OnceInitCell<Arc<u8>, Arc<u8>>>::IS;
            if rc_seed || rc_value || cell_value_not_sync || !arc_both {
                out.fail(
                    "auto-traits",
                    format!("OnceInitCell<Rc<u8>, u8>: Sync = {rc_seed}, OnceInitCell<u8, Rc<u8>>: Sync = {rc_value}, OnceInitCell<u8, Cell<u8>>: Sync = {cell_value_not_sync} (all three must be false: another thread could run the initialiser on the seed, drop it, or read the value), OnceInitCell<Arc<u8>, Arc<u8>>: Sync = {arc_both} (must be true)"),
                );
                return out;
            }
        }
        match c.seed {
            SeedKind::Drop => run_generic::<SeedD>(&c, &mut out),
            SeedKind::NoDrop => run_generic::<SeedN>(&c, &mut out),
            SeedKind::PanickingDrop => run_generic::<SeedP>(&c, &mut out),
            SeedKind::BigDrop => run_generic::<SeedDB>(&c, &mut out),
            SeedKind::BigPanickingDrop => run_generic::<SeedPB>(&c, &mut out),
            SeedKind::BigNoDrop => run_generic::<SeedNB>(&c, &mut out),
            SeedKind::ZstDrop => run_generic::<SeedZ>(&c, &mut out),
        }
        let multi = c.threads.len() >= 2;
        let mutated_failure = c.threads.iter().any(|t| {
            t.iter().enumerate().any(|(i, a)| matches!(a, Action::Fail { mutate: true } | Action::Panic { mutate: true }) && i + 1 < t.len())
        });
        out.nontrivial = multi || mutated_failure;
        if multi {
            out.label("multi-thread");
        }
        if mutated_failure {
            out.label("mutating-failure-then-retry");
        }
        if c.getter {
            out.label("getter");
        }
        if c.threads.iter().flatten().any(|a| matches!(a, Action::SucceedUnwinding { .. })) {
            out.label("init-while-unwinding");
        }
        if c.infallible && c.threads.iter().flatten().any(|a| !matches!(a, Action::Fail { .. })) {
            out.label("entry:get_or_init");
            if c.seed.panicking() {
                out.label("entry:get_or_init+panicking-seed-destructor");
            }
        }
        out.label(format!("seed:{:?}", c.seed));
        out
    }

    fn required_labels(&self) -> Vec<&'static str> {
        vec!["multi-thread", "mutating-failure-then-retry", "getter", "seed:PanickingDrop", "seed:BigPanickingDrop", "seed:BigDrop", "seed:BigNoDrop", "seed:ZstDrop", "init-while-unwinding", "entry:get_or_init", "entry:get_or_init+panicking-seed-destructor"]
    }
}
