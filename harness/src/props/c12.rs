//! C12 - filesystem notifications name the right entries (inverse of path_of).

use crate::engine::{from_case, to_case, Outcome, Plan, Prop, Tier};
use crate::trees::{self, Model, TreeSpec};
use assets_manager::hot_reloading::verif;
use assets_manager::source::{DirEntry, FileSystem, OwnedDirEntry};
use assets_manager::{Asset, AssetCache};
use notify::event::{AccessKind, CreateKind, DataChange, MetadataKind, ModifyKind, RemoveKind, RenameMode};
use notify::{EventHandler, EventKind};
use proptest::prelude::*;
use serde::{Deserialize, Serialize};
use serde_json::Value;
use std::collections::BTreeSet;
use std::path::{Path, PathBuf};
use std::time::{Duration, Instant};

#[derive(Debug, Clone, Copy, Serialize, Deserialize, PartialEq, Eq, PartialOrd, Ord)]
pub enum Kind {
    CreateFile,
    CreateFolder,
    CreateAny,
    ModifyData,
    ModifyMetadata,
    ModifyAny,
    RenameFrom,
    RenameTo,
    RenameBoth,
    RemoveFile,
    RemoveFolder,
    Any,
    Access,
    Other,
}

pub const ALL_KINDS: [Kind; 14] = [
    Kind::CreateFile,
    Kind::CreateFolder,
    Kind::CreateAny,
    Kind::ModifyData,
    Kind::ModifyMetadata,
    Kind::ModifyAny,
    Kind::RenameFrom,
    Kind::RenameTo,
    Kind::RenameBoth,
    Kind::RemoveFile,
    Kind::RemoveFolder,
    Kind::Any,
    Kind::Access,
    Kind::Other,
];

impl Kind {
    fn to_notify(self) -> EventKind {
        match self {
            Kind::CreateFile => EventKind::Create(CreateKind::File),
            Kind::CreateFolder => EventKind::Create(CreateKind::Folder),
            Kind::CreateAny => EventKind::Create(CreateKind::Any),
            Kind::ModifyData => EventKind::Modify(ModifyKind::Data(DataChange::Any)),
            Kind::ModifyMetadata => EventKind::Modify(ModifyKind::Metadata(MetadataKind::Any)),
            Kind::ModifyAny => EventKind::Modify(ModifyKind::Any),
            Kind::RenameFrom => EventKind::Modify(ModifyKind::Name(RenameMode::From)),
            Kind::RenameTo => EventKind::Modify(ModifyKind::Name(RenameMode::To)),
            Kind::RenameBoth => EventKind::Modify(ModifyKind::Name(RenameMode::Both)),
            Kind::RemoveFile => EventKind::Remove(RemoveKind::File),
            Kind::RemoveFolder => EventKind::Remove(RemoveKind::Folder),
            Kind::Any => EventKind::Any,
            Kind::Access => EventKind::Access(AccessKind::Any),
            Kind::Other => EventKind::Other,
        }
    }
    fn with_parent(self) -> bool {
        matches!(self, Kind::CreateFile | Kind::CreateFolder | Kind::CreateAny | Kind::RenameFrom | Kind::RenameTo | Kind::RenameBoth | Kind::RemoveFile | Kind::RemoveFolder)
    }
    fn silent(self) -> bool {
        matches!(self, Kind::Access | Kind::Other)
    }
    fn gone(self) -> bool {
        matches!(self, Kind::RemoveFile | Kind::RemoveFolder | Kind::RenameFrom)
    }
}

#[derive(Debug, Clone, Copy, Serialize, Deserialize, PartialEq, Eq)]
pub enum Spelling {
    Plain,
    /// `dir/./name`
    CurDir,
    /// `dir/<sibling>/../name`
    ParentDir,
}

#[derive(Debug, Clone, Serialize, Deserialize)]
pub enum Target {
    /// the n-th file / directory of the tree (directories include the root)
    File(u16),
    Dir(u16),
    /// a path outside every root
    Outside,
    /// a file whose stem contains a dot
    DottedStem(u16),
    /// a non UTF-8 file name
    NonUtf8(u16),
    /// a name whose only dot is the leading one (`.hidden` file for odd numbers, `.cache` directory for even ones)
    LeadingDot(u16),
}

#[derive(Debug, Clone, Serialize, Deserialize)]
pub struct Probe {
    target: Target,
    kind: Kind,
    spelling: Spelling,
}

#[derive(Debug, Clone, Copy, Serialize, Deserialize, PartialEq, Eq)]
pub enum Roots {
    One,
    /// the tree root and one of its sub-directories
    Nested(u16),
    /// the tree root and an unrelated directory
    Disjoint,
}

#[derive(Debug, Clone, Serialize, Deserialize)]
pub struct Case {
    tree: TreeSpec,
    roots: Roots,
    probes: Vec<Probe>,
    /// real part: a history of filesystem operations watched by a real cache (empty = synthetic only)
    real: Vec<RealOp>,
    /// real part: the very first activity under the freshly built watcher is one single-notification operation
    /// (otherwise the generated history starts right away)
    #[serde(default)]
    first_probe: Option<u8>,
}

#[derive(Debug, Clone, Serialize, Deserialize)]
pub enum RealOp {
    Write { dir: u16, name: u8, ext: u8, value: u16 },
    Delete { file: u16 },
    Rename { file: u16, name: u8 },
    MkDir { dir: u16, name: u8 },
    /// creates an empty file (one single notification, unlike a write)
    Touch { dir: u16, name: u8 },
}

fn entry_key(e: &OwnedDirEntry) -> (bool, String, String) {
    match e {
        OwnedDirEntry::File(i, x) => (false, i.to_string(), x.to_string()),
        OwnedDirEntry::Directory(i) => (true, i.to_string(), String::new()),
    }
}

/// Lexical id of `path` relative to `root` (None if outside or not expressible).
fn lexical_id(root: &Path, path: &Path) -> Option<Vec<String>> {
    let rel = path.strip_prefix(root).ok()?;
    let mut comps: Vec<String> = Vec::new();
    for c in rel.components() {
        match c {
            std::path::Component::Normal(s) => comps.push(s.to_str()?.to_string()),
            std::path::Component::CurDir => {}
            std::path::Component::ParentDir => {
                comps.pop()?;
            }
            _ => return None,
        }
    }
    Some(comps)
}

/// What the statement says the handler must send for one (path, kind) under one root.
/// Returns (required entries, additionally allowed entries).
fn expected_for_root(root: &Path, path: &Path, kind: Kind, is_dir_now: Option<bool>) -> (BTreeSet<(bool, String, String)>, BTreeSet<(bool, String, String)>) {
    let mut req = BTreeSet::new();
    let mut allowed = BTreeSet::new();
    if kind.silent() {
        return (req, allowed);
    }
    let comps = match lexical_id(root, path) {
        Some(c) => c,
        None => return (req, allowed),
    };
    if comps.is_empty() {
        // the root directory itself
        req.insert((true, String::new(), String::new()));
        return (req, allowed);
    }
    let (name, parents) = comps.split_last().unwrap();
    if parents.iter().any(|p| p.contains('.')) {
        return (req, allowed);
    }
    let parent_id = parents.join(".");
    // kind of the object: what is on disk now, or the hint of the event for removed objects
    let dir = match (is_dir_now, kind) {
        (Some(d), _) => Some(d),
        (None, Kind::RemoveFolder) => Some(true),
        (None, Kind::RemoveFile) => Some(false),
        (None, _) => None,
    };
    let (stem, ext) = match name.rfind('.') {
        Some(0) | None => (name.as_str(), ""),
        Some(n) => (&name[..n], &name[n + 1..]),
    };
    let own: Option<Vec<(bool, String, String)>> = match dir {
        Some(true) => {
            // a directory: its name must not contain a dot at all
            if name.contains('.') {
                None
            } else {
                Some(vec![(true, [parents, &[name.clone()]].concat().join("."), String::new())])
            }
        }
        Some(false) => {
            if stem.contains('.') || stem.is_empty() {
                None
            } else {
                Some(vec![(false, [parents, &[stem.to_string()]].concat().join("."), ext.to_string())])
            }
        }
        None => {
            // gone and no hint: a path without extension may have been either
            if stem.contains('.') || stem.is_empty() {
                None
            } else {
                let id = [parents, &[stem.to_string()]].concat().join(".");
                let mut v = vec![(false, id.clone(), ext.to_string())];
                if ext.is_empty() {
                    v.push((true, id, String::new()));
                }
                Some(v)
            }
        }
    };
    match own {
        Some(v) if v.len() == 1 => {
            req.insert(v[0].clone());
        }
        Some(v) => {
            // either spelling is accepted, at least one is required (checked by the caller through `allowed`)
            for e in v {
                allowed.insert(e);
            }
        }
        None => return (BTreeSet::new(), BTreeSet::new()),
    }
    if kind.with_parent() {
        req.insert((true, parent_id, String::new()));
    }
    (req, allowed)
}

pub struct C12;

#[derive(Debug)]
pub struct Txt(#[allow(dead_code)] String);
impl From<String> for Txt {
    fn from(s: String) -> Txt {
        Txt(s)
    }
}
impl Asset for Txt {
    const EXTENSIONS: &'static [&'static str] = &["txt", "x"];
    type Loader = assets_manager::loader::LoadFrom<String, assets_manager::loader::StringLoader>;
}

fn spelled(path: &Path, spelling: Spelling, m: &Model, root: &Path) -> PathBuf {
    let parent = match path.parent() {
        Some(p) => p,
        None => return path.to_path_buf(),
    };
    let name = match path.file_name() {
        Some(n) => n,
        None => return path.to_path_buf(),
    };
    match spelling {
        Spelling::Plain => path.to_path_buf(),
        Spelling::CurDir => parent.join(".").join(name),
        Spelling::ParentDir => {
            // through an existing sibling directory and back (stays inside the root)
            let _ = root;
            let sib = m.dirs.iter().filter(|d| !d.is_empty()).map(|d| root.join(trees::rel_path(d, None))).find(|d| d.parent() == Some(parent));
            match sib {
                Some(s) => s.join("..").join(name),
                None => path.to_path_buf(),
            }
        }
    }
}

impl C12 {
    fn run_synthetic(&self, c: &Case, m: &Model, base: &Path, out: &mut Outcome, flags: &mut (bool, bool, bool, bool)) {
        let root = base.join("r0");
        let dirs: Vec<String> = m.dirs.iter().cloned().collect();
        let files: Vec<(String, String)> = m.files.keys().cloned().collect();
        let mut roots: Vec<PathBuf> = vec![root.clone()];
        match c.roots {
            Roots::One => {}
            Roots::Nested(k) => {
                let sub: Vec<&String> = dirs.iter().filter(|d| !d.is_empty()).collect();
                if !sub.is_empty() {
                    roots.push(root.join(trees::rel_path(sub[k as usize % sub.len()], None)));
                    flags.2 = true;
                }
            }
            Roots::Disjoint => {
                let other = base.join("r1");
                let _ = std::fs::create_dir_all(&other);
                roots.push(other);
                flags.2 = true;
            }
        }
        let fs = FileSystem::new(&root).expect("filesystem source");
        let root = fs.root().to_path_buf();
        let roots: Vec<PathBuf> = roots.iter().map(|r| r.canonicalize().unwrap_or_else(|_| r.clone())).collect();

        // ---- round trip and injectivity
        let mut seen_paths: BTreeSet<PathBuf> = BTreeSet::new();
        for d in &dirs {
            let p = fs.path_of(DirEntry::Directory(d));
            if !seen_paths.insert(p.clone()) && !d.is_empty() {
                out.fail("path-of-not-injective", format!("two different directories map to the path {p:?}"));
                return;
            }
            let back = verif::id_of_path(&root, &p).map(|e| entry_key(&e));
            if back != Some((true, d.clone(), String::new())) {
                out.fail(if d.is_empty() { "round-trip-root" } else { "round-trip" }, format!("id_of_path(root, path_of(Directory({d:?}))) = {back:?}"));
                return;
            }
        }
        let mut seen_files: BTreeSet<PathBuf> = BTreeSet::new();
        for (id, ext) in &files {
            let p = fs.path_of(DirEntry::File(id, ext));
            if !seen_files.insert(p.clone()) {
                out.fail("path-of-not-injective", format!("two different files map to the path {p:?}"));
                return;
            }
            let back = verif::id_of_path(&root, &p).map(|e| entry_key(&e));
            if back != Some((false, id.clone(), ext.clone())) {
                out.fail("round-trip", format!("id_of_path(root, path_of(File({id:?}, {ext:?}))) = {back:?}"));
                return;
            }
        }

        // ---- the handler
        let (tx, rx) = verif::event_channel();
        let mut handler = verif::event_handler(roots.clone(), tx);
        // known finding D12 is reported only if nothing else fails in the case
        let mut deferred: Option<(String, String)> = None;
        for (pn, p) in c.probes.iter().enumerate() {
            // resolve the target to a path and to what is there
            let (path, is_dir_now): (PathBuf, Option<bool>) = match &p.target {
                Target::File(i) => {
                    if files.is_empty() {
                        continue;
                    }
                    let (id, ext) = &files[*i as usize % files.len()];
                    (root.join(trees::rel_path(id, Some(ext))), Some(false))
                }
                Target::Dir(i) => {
                    let d = &dirs[*i as usize % dirs.len()];
                    if d.is_empty() {
                        flags.0 = true;
                    }
                    (root.join(trees::rel_path(d, None)), Some(true))
                }
                // outside every root: somewhere else, or (odd probes) in a sibling of the first root whose name
                // merely starts with the root's name
                Target::Outside if pn % 2 == 0 => (base.join("elsewhere").join("thing.txt"), None),
                Target::Outside => {
                    let d = base.join("r0_elsewhere");
                    let _ = std::fs::create_dir_all(&d);
                    let _ = std::fs::write(d.join("thing.txt"), b"x");
                    (d.join("thing.txt"), None)
                }
                Target::DottedStem(i) => {
                    let d = &dirs[*i as usize % dirs.len()];
                    let p = root.join(trees::rel_path(d, None)).join("archive.tar.gz");
                    let _ = std::fs::write(&p, b"x");
                    (p, Some(false))
                }
                Target::LeadingDot(i) => {
                    let d = &dirs[(*i as usize / 2) % dirs.len()];
                    let dir = root.join(trees::rel_path(d, None));
                    if i % 2 == 1 {
                        let p = dir.join(".hidden");
                        let _ = std::fs::write(&p, b"x");
                        (p, Some(false))
                    } else {
                        let p = dir.join(".cache");
                        let _ = std::fs::create_dir_all(&p);
                        (p, Some(true))
                    }
                }
                Target::NonUtf8(i) => {
                    use std::os::unix::ffi::OsStrExt;
                    let d = &dirs[*i as usize % dirs.len()];
                    // (odd numbers: only the extension is not UTF-8 - it is not the extension-less file `note`)
                    let p = root.join(trees::rel_path(d, None)).join(std::ffi::OsStr::from_bytes(if i % 2 == 1 { &b"note.\xFF"[..] } else { &b"bad\xFFname.txt"[..] }));
                    let _ = std::fs::write(&p, b"x");
                    (p, Some(false))
                }
            };
            let inexpressible = matches!(p.target, Target::Outside | Target::DottedStem(_) | Target::NonUtf8(_) | Target::LeadingDot(_));
            // the object is gone when its removal (or rename-from) is handled
            let mut is_dir = is_dir_now;
            let mut restore: Option<(PathBuf, Option<Vec<u8>>)> = None;
            if p.kind.gone() && !inexpressible && path != root {
                if is_dir_now == Some(true) {
                    // only remove empty directories (others stay: the event is then handled with the object present)
                    if std::fs::remove_dir(&path).is_ok() {
                        restore = Some((path.clone(), None));
                        is_dir = None;
                    }
                } else if let Ok(bytes) = std::fs::read(&path) {
                    if std::fs::remove_file(&path).is_ok() {
                        restore = Some((path.clone(), Some(bytes)));
                        is_dir = None;
                    }
                }
                flags.1 = true;
            }
            if p.kind.with_parent() {
                flags.1 = true;
            }
            if p.spelling == Spelling::ParentDir {
                flags.3 = true;
            }
            // a RemoveFolder hint for a file (or the reverse) is not a consistent notification: keep hints truthful
            let kind = match (p.kind, is_dir_now) {
                (Kind::RemoveFolder, Some(false)) => Kind::RemoveFile,
                (Kind::RemoveFile, Some(true)) => Kind::RemoveFolder,
                (Kind::CreateFolder, Some(false)) => Kind::CreateFile,
                (Kind::CreateFile, Some(true)) => Kind::CreateFolder,
                (k, _) => k,
            };
            let reported = spelled(&path, p.spelling, m, &root);
            let _ = rx.recv_all();
            let mut ev = notify::Event::new(kind.to_notify());
            ev = ev.add_path(reported.clone());
            handler.handle_event(Ok(ev));
            let got: BTreeSet<(bool, String, String)> = rx.recv_all().iter().map(entry_key).collect();
            // expectation: union over the roots
            let mut req = BTreeSet::new();
            let mut allowed = BTreeSet::new();
            let mut alternatives: Vec<BTreeSet<(bool, String, String)>> = Vec::new();
            if inexpressible {
                // no event may name the path itself; its (expressible) parent directory may be reported
                if let Some(parent) = reported.parent() {
                    for r in &roots {
                        if let Some(comps) = lexical_id(r, parent) {
                            if comps.iter().all(|c| !c.contains('.')) {
                                allowed.insert((true, comps.join("."), String::new()));
                            }
                        }
                    }
                }
            } else {
                for r in &roots {
                    let (q, a) = expected_for_root(r, &reported, kind, is_dir);
                    req.extend(q);
                    if !a.is_empty() {
                        alternatives.push(a.clone());
                    }
                    allowed.extend(a);
                }
            }
            let missing: Vec<_> = req.difference(&got).cloned().collect();
            let extra: Vec<_> = got.iter().filter(|e| !req.contains(*e) && !allowed.contains(*e)).cloned().collect();
            let alt_missing = alternatives.iter().any(|a| a.intersection(&got).next().is_none());
            if let Some((pth, content)) = restore {
                match content {
                    Some(b) => {
                        let _ = std::fs::write(&pth, b);
                    }
                    None => {
                        let _ = std::fs::create_dir(&pth);
                    }
                }
            }
            // D12: with a `sibling/..` spelling the parent part of the path itself ends in `..`
            let only_dotdot_parent = p.spelling == Spelling::ParentDir && extra.is_empty() && !alt_missing && !missing.is_empty() && missing.iter().all(|e| e.0) && kind.with_parent() && reported != path;
            if only_dotdot_parent {
                if deferred.is_none() {
                    deferred = Some(("dotdot-parent-not-reported".to_string(), format!("probe {pn}: a {kind:?} notification for {reported:?} produced {got:?}: the parent directory {missing:?} is not reported when the parent part of the path ends in '..'")));
                }
                continue;
            }
            if !missing.is_empty() || !extra.is_empty() || alt_missing {
                let sig = if !extra.is_empty() {
                    "unexpected-entry"
                } else if missing.iter().any(|e| e.0 && e.1.is_empty()) {
                    "root-directory-not-reported"
                } else if missing.iter().any(|e| e.0) && kind.with_parent() && matches!(kind, Kind::RenameFrom | Kind::RenameTo | Kind::RenameBoth) {
                    "rename-parent-not-reported"
                } else if matches!(kind, Kind::RemoveFile | Kind::RemoveFolder) {
                    "removed-entry-not-reported"
                } else {
                    "entry-not-reported"
                };
                out.fail(
                    sig,
                    format!("probe {pn}: a {kind:?} notification for {reported:?} (roots {roots:?}) produced the events {got:?}; required {req:?}{}; missing {missing:?}, unexpected {extra:?}", if allowed.is_empty() { String::new() } else { format!(" plus one of {allowed:?}") }),
                );
                return;
            }
            // the watcher did not stop: a valid event is still delivered afterwards
            if inexpressible {
                let mut ev = notify::Event::new(EventKind::Modify(ModifyKind::Data(DataChange::Any)));
                ev = ev.add_path(root.clone());
                handler.handle_event(Ok(ev));
                let after: BTreeSet<(bool, String, String)> = rx.recv_all().iter().map(entry_key).collect();
                if !after.contains(&(true, String::new(), String::new())) {
                    out.fail(if after.is_empty() { "root-directory-not-reported" } else { "watcher-stopped" }, format!("probe {pn}: after the inexpressible path {reported:?}, a modification of the root directory produced {after:?}"));
                    return;
                }
            }
        }
        if let Some((sig, what)) = deferred {
            out.fail(sig, what);
        }
    }
}

fn wait_until(mut f: impl FnMut() -> bool, secs: u64) -> bool {
    let start = Instant::now();
    while start.elapsed() < Duration::from_secs(secs) {
        if f() {
            return true;
        }
        std::thread::sleep(Duration::from_millis(5));
    }
    f()
}

/// Do filesystem notifications work in this environment at all? Decided once per process with a `notify`
/// watcher of the harness itself, independent of the crate under test.
fn inotify_works(base: &Path) -> bool {
    static WORKS: std::sync::OnceLock<bool> = std::sync::OnceLock::new();
    *WORKS.get_or_init(|| {
        use notify::Watcher;
        let root = base.join("selftest");
        if std::fs::create_dir_all(&root).is_err() {
            return false;
        }
        let (tx, rx) = std::sync::mpsc::channel();
        let Ok(mut w) = notify::recommended_watcher(move |e: notify::Result<notify::Event>| {
            let _ = tx.send(e.is_ok());
        }) else {
            return false;
        };
        if w.watch(&root, notify::RecursiveMode::Recursive).is_err() {
            return false;
        }
        let _ = std::fs::write(root.join("probe.txt"), "1");
        matches!(rx.recv_timeout(Duration::from_secs(10)), Ok(true))
    })
}

/// A real watcher built with the public `FsWatcherBuilder` on a root that is reached through a symbolic link
/// (the root path as given is what `notify` reports paths under): entries under it must be named as usual.
/// The events are read back through the hook channel; a sentinel file created last bounds the wait.
fn linked_root(base: &Path, out: &mut Outcome) {
    let real = base.join("lr_real");
    let link = base.join("lr_link");
    if std::fs::create_dir_all(real.join("s")).is_err() || std::fs::write(real.join("s").join("a.txt"), "0").is_err() || std::os::unix::fs::symlink(&real, &link).is_err() {
        return;
    }
    let (tx, rx) = verif::event_channel();
    let Ok(mut b) = assets_manager::hot_reloading::FsWatcherBuilder::new() else { return };
    if b.watch(link.clone()).is_err() {
        return;
    }
    b.build(tx);
    std::thread::sleep(Duration::from_millis(30));
    let _ = std::fs::write(link.join("s").join("a.txt"), "1");
    let _ = std::fs::write(link.join("top.txt"), "t");
    let _ = std::fs::write(link.join("zz_end.txt"), "e");
    let mut seen: BTreeSet<(bool, String, String)> = BTreeSet::new();
    let done = wait_until(
        || {
            seen.extend(rx.recv_all().iter().map(entry_key));
            seen.contains(&(false, "zz_end".to_string(), "txt".to_string()))
        },
        30,
    );
    let need = [(false, "s.a".to_string(), "txt".to_string()), (false, "top".to_string(), "txt".to_string()), (true, String::new(), String::new())];
    let missing: Vec<_> = need.iter().filter(|n| !seen.contains(*n)).collect();
    if !done || !missing.is_empty() {
        out.fail(
            "real-linked-root",
            format!("a watcher built with FsWatcherBuilder on {link:?} (a symbolic link to {real:?}; filesystem notifications work here): after modifying s/a.txt and creating top.txt and zz_end.txt under it, the events are {seen:?}; missing {missing:?}"),
        );
    } else {
        out.label("real-root-through-symlink");
    }
}

/// A real watcher built with the public `FsWatcherBuilder` on several roots (`variant`: outer then a root nested
/// in it, the nested one first, two disjoint roots, the same root given twice): every root given to `watch` is a
/// watched root, so an entry under two of them is named once for each, and the parent directory likewise.
/// Events are read back through the hook channel; a sentinel file created last bounds the wait.
fn builder_roots(base: &Path, variant: usize, out: &mut Outcome) {
    let outer = base.join("br_outer");
    let inner = outer.join("in");
    let other = base.join("br_other");
    if std::fs::create_dir_all(&inner).is_err() || std::fs::create_dir_all(&other).is_err() || std::fs::write(inner.join("g.txt"), "0").is_err() {
        return;
    }
    let (roots, name): (Vec<PathBuf>, &str) = match variant % 4 {
        0 => (vec![outer.clone(), inner.clone()], "outer root first, then a root nested in it"),
        1 => (vec![inner.clone(), outer.clone()], "nested root first, then the root around it"),
        2 => (vec![outer.clone(), other.clone()], "two disjoint roots"),
        _ => (vec![outer.clone(), outer.clone()], "the same root given twice"),
    };
    let (tx, rx) = verif::event_channel();
    let Ok(mut b) = assets_manager::hot_reloading::FsWatcherBuilder::new() else { return };
    for r in &roots {
        if b.watch(r.clone()).is_err() {
            return;
        }
    }
    b.build(tx);
    std::thread::sleep(Duration::from_millis(30));
    let _ = std::fs::write(inner.join("g.txt"), "1");
    let _ = std::fs::write(inner.join("n.txt"), "n");
    let _ = std::fs::write(outer.join("t.txt"), "t");
    let _ = std::fs::write(other.join("o.txt"), "o");
    let _ = std::fs::write(outer.join("zz_end.txt"), "e");
    let mut seen: BTreeSet<(bool, String, String)> = BTreeSet::new();
    let done = wait_until(
        || {
            seen.extend(rx.recv_all().iter().map(entry_key));
            seen.contains(&(false, "zz_end".to_string(), "txt".to_string()))
        },
        30,
    );
    // expectation: for every root, every touched path under it (modified: the entry; created: the entry and its parent)
    let touched: [(&Path, bool); 5] = [(&inner.join("g.txt"), false), (&inner.join("n.txt"), true), (&outer.join("t.txt"), true), (&other.join("o.txt"), true), (&outer.join("zz_end.txt"), true)];
    let mut need: BTreeSet<(bool, String, String)> = BTreeSet::new();
    for r in &roots {
        for (p, created) in &touched {
            let Some(ids) = lexical_id(r, p) else { continue };
            let (stem, parent) = ids.split_last().expect("a file under the root");
            let stem = stem.strip_suffix(".txt").unwrap_or(stem).to_string();
            let mut id = parent.join(".");
            if !id.is_empty() {
                id.push('.');
            }
            id.push_str(&stem);
            need.insert((false, id, "txt".to_string()));
            if *created {
                need.insert((true, parent.join("."), String::new()));
            }
        }
    }
    let missing: Vec<_> = need.iter().filter(|n| !seen.contains(*n)).collect();
    // nothing may be named that is not an entry of some root touched above (directories touched: the parents)
    let mut allowed = need.clone();
    for r in &roots {
        for (p, _) in &touched {
            if let Some(ids) = lexical_id(r, p) {
                allowed.insert((true, ids[..ids.len() - 1].join("."), String::new()));
            }
        }
    }
    let extra: Vec<_> = seen.iter().filter(|n| !allowed.contains(*n)).collect();
    if !done || !missing.is_empty() || !extra.is_empty() {
        out.fail(
            "real-builder-roots",
            format!("a watcher built with FsWatcherBuilder::watch on {roots:?} ({name}; filesystem notifications work here): after modifying in/g.txt and creating in/n.txt, t.txt, zz_end.txt under {outer:?} and o.txt under {other:?}, the events are {seen:?}; missing {missing:?}, unexpected {extra:?}"),
        );
    } else {
        out.label(format!("real-builder-roots:{}", variant % 4));
    }
}

fn disk_listing(dir: &Path) -> Vec<String> {
    // stems of the files with extension txt or x directly inside
    let mut v: BTreeSet<String> = BTreeSet::new();
    if let Ok(rd) = std::fs::read_dir(dir) {
        for e in rd.flatten() {
            let p = e.path();
            if p.is_file() {
                let ext = p.extension().and_then(|x| x.to_str()).unwrap_or("");
                if ext == "txt" || ext == "x" {
                    if let Some(stem) = p.file_stem().and_then(|s| s.to_str()) {
                        v.insert(stem.to_string());
                    }
                }
            }
        }
    }
    v.into_iter().collect()
}

impl C12 {
    /// Real histories: a real cache watches a temp dir; after every operation a sentinel file is
    /// touched and, once the sentinel asset was reloaded, every directory handle must equal the disk.
    fn run_real(&self, c: &Case, base: &Path, out: &mut Outcome) -> bool {
        const NAMES: [&str; 5] = ["n0", "n1", "n2", "n3", "n4"];
        let root = base.join("real");
        std::fs::create_dir_all(root.join("sub").join("deep")).expect("mkdir");
        std::fs::write(root.join("zz_sentinel.txt"), "0").expect("write");
        std::fs::write(root.join("top.txt"), "t").expect("write");
        std::fs::write(root.join("sub").join("a.txt"), "a").expect("write");
        std::fs::write(root.join("sub").join("two.x"), "X").expect("write");
        std::fs::write(root.join("sub").join("two.txt"), "T").expect("write");
        let cache = match AssetCache::new(&root) {
            Ok(c) => c,
            Err(_) => return false,
        };
        let mut dirs: Vec<(String, PathBuf)> = vec![(String::new(), root.clone()), ("sub".into(), root.join("sub")), ("sub.deep".into(), root.join("sub").join("deep"))];
        let sentinel = match cache.load::<Txt>("zz_sentinel") {
            Ok(h) => h,
            Err(_) => return false,
        };
        let _ = cache.load::<Txt>("sub.two");
        for (id, _) in &dirs {
            let _ = cache.load_dir::<Txt>(id);
        }
        std::thread::sleep(Duration::from_millis(50));
        let mut ops = c.real.clone();
        if !inotify_works(base) {
            // no filesystem notifications in this environment: the real part cannot run
            if std::env::var("VERIF_TRACE").is_ok() {
                eprintln!("real part skipped: a notify watcher of the harness saw no notification");
            }
            return false;
        }
        if let Some(k) = c.first_probe {
            // nothing has happened under this watcher yet: the first notification it gets is this one
            ops.insert(0, if k % 3 == 2 { RealOp::Delete { file: k as u16 / 3 } } else { RealOp::Touch { dir: (k % 3) as u16, name: k / 3 } });
        }
        let mut version = 1u32;
        for (sn, op) in ops.iter().enumerate() {
            let mut files_now: Vec<PathBuf> = dirs.iter().flat_map(|(_, p)| std::fs::read_dir(p).into_iter().flatten().flatten().map(|e| e.path()).filter(|p| p.is_file() && p.file_name().map_or(false, |n| n != "zz_sentinel.txt"))).collect();
            // read_dir order is unspecified: sort, so that a replay performs the same operations
            files_now.sort();
            let desc;
            match op {
                RealOp::Write { dir, name, ext, value } => {
                    let (_, d) = &dirs[*dir as usize % dirs.len()];
                    let p = d.join(format!("{}.{}", NAMES[*name as usize % NAMES.len()], if ext % 2 == 0 { "txt" } else { "x" }));
                    desc = format!("write {p:?}");
                    let _ = std::fs::write(&p, format!("v{value}"));
                }
                RealOp::Delete { file } => {
                    if files_now.is_empty() {
                        continue;
                    }
                    let p = &files_now[*file as usize % files_now.len()];
                    desc = format!("delete {p:?}");
                    let _ = std::fs::remove_file(p);
                }
                RealOp::Rename { file, name } => {
                    if files_now.is_empty() {
                        continue;
                    }
                    let p = &files_now[*file as usize % files_now.len()];
                    let to = p.with_file_name(format!("{}.txt", NAMES[*name as usize % NAMES.len()]));
                    desc = format!("rename {p:?} -> {to:?}");
                    let _ = std::fs::rename(p, &to);
                }
                RealOp::Touch { dir, name } => {
                    let (_, d) = &dirs[*dir as usize % dirs.len()];
                    let p = d.join(format!("{}.txt", NAMES[*name as usize % NAMES.len()]));
                    desc = format!("create empty file {p:?}");
                    let _ = std::fs::OpenOptions::new().write(true).create_new(true).open(&p);
                }
                RealOp::MkDir { dir, name } => {
                    let (pid, d) = dirs[*dir as usize % dirs.len()].clone();
                    let n = NAMES[*name as usize % NAMES.len()];
                    let p = d.join(format!("d{n}"));
                    desc = format!("mkdir {p:?}");
                    if std::fs::create_dir(&p).is_ok() {
                        let id = if pid.is_empty() { format!("d{n}") } else { format!("{pid}.d{n}") };
                        // give the watcher the time to notice the new directory before files appear in it
                        std::thread::sleep(Duration::from_millis(30));
                        let _ = cache.load_dir::<Txt>(&id);
                        dirs.push((id, p));
                    }
                }
            }
            // The barrier is state-based: "the sentinel was reloaded after its file was written". A notification
            // left over from an earlier step (one write yields several) can satisfy it before this step's own
            // notifications were consumed, so a mismatch is only a violation if it persists over further barriers:
            // every barrier consumes more of the (FIFO) notification queue, a lost notification never arrives.
            let mut problem: Option<(&'static str, String)> = None;
            for attempt in 0..6 {
                version += 1;
                let before = sentinel.last_reload_id();
                std::fs::write(root.join("zz_sentinel.txt"), format!("{version}")).expect("write");
                if !wait_until(
                    || {
                        cache.hot_reload();
                        sentinel.last_reload_id() != before && sentinel.read().0 == format!("{version}")
                    },
                    30,
                ) {
                    out.fail("real-watcher-stopped", format!("real history, step {sn} ({desc}): a modification of a watched file was not applied within 30 s of polling hot_reload"));
                    return true;
                }
                // a few more passes: the events of this step were queued before the sentinel's
                for _ in 0..3 {
                    cache.hot_reload();
                }
                problem = None;
                for (id, p) in &dirs {
                    let expect = disk_listing(p);
                    let expect: Vec<String> = expect.iter().filter(|s| !(id.is_empty() && *s == "zz_sentinel")).map(|s| if id.is_empty() { s.clone() } else { format!("{id}.{s}") }).collect();
                    if let Some(h) = cache.get_cached::<assets_manager::Directory<Txt>>(id) {
                        let got: Vec<String> = h.read().ids().map(|s| s.to_string()).filter(|s| s != "zz_sentinel").collect();
                        if std::env::var("VERIF_TRACE").is_ok() {
                            eprintln!("real step {sn} ({desc}) attempt {attempt}: dir {id:?} handle {got:?} disk {expect:?}");
                        }
                        if got != expect && problem.is_none() {
                            let sig = if id.is_empty() {
                                "real-root-listing-stale"
                            } else if desc.starts_with("rename") {
                                "real-rename-listing-stale"
                            } else {
                                "real-listing-stale"
                            };
                            problem = Some((sig, format!("real history, step {sn} ({desc}): the directory handle of {id:?} lists {got:?} but the disk has {expect:?}")));
                        }
                    }
                }
                // loaded assets follow the disk (incl. falling back to the other extension after a delete)
                if let Some(h) = cache.get_cached::<Txt>("sub.two") {
                    if let Ok(fresh) = cache.load_owned::<Txt>("sub.two") {
                        if h.read().0 != fresh.0 && problem.is_none() {
                            problem = Some(("real-asset-stale", format!("real history, step {sn} ({desc}): asset sub.two holds {:?} but loading it afresh gives {:?}", h.read().0, fresh.0)));
                        }
                    }
                }
                if problem.is_none() {
                    break;
                }
                std::thread::sleep(Duration::from_millis(20 << attempt));
            }
            if let Some((sig, what)) = problem {
                out.fail(sig, format!("{what} (persisting over 6 barriers)"));
                return true;
            }
        }
        true
    }
}

impl Prop for C12 {
    fn id(&self) -> &'static str {
        "C12"
    }

    fn rule(&self) -> String {
        "synthetic part: a generated tree really exists in a temp dir under 1..2 roots (single, nested, disjoint); probes = (entry: any file or directory incl. the root itself, a path outside every root (elsewhere, or in a sibling directory whose name starts with the root's name), a dotted stem, a non UTF-8 name, a name whose only dot is the leading one) x \
         (notification kind: create file/folder/any, modify data/metadata/any, rename from/to/both, remove file/folder, any, access, other) x (path spelling: plain, with '.', with 'sibling/..'); removals are handled with the object already gone. \
         Each probe is fed to the crate's real notify handler (hook) and the events it sends are compared with: per root containing the path, the entry whose path_of is that path (right id, extension, kind; for a vanished extension-less path without hint either kind) \
         plus, for create/rename/remove, its parent directory (the root being Directory(\"\")); nothing for access/other/outside/inexpressible paths, and a later event is still delivered. Round trip id_of_path(path_of(e)) == e for every entry, path_of injective. \
         Enumerated part: every entry of a fixed tree x every notification kind. Real part: generated write/delete/rename/mkdir histories on a temp dir watched by a real AssetCache<FileSystem>; after each step (sentinel file touched last) every directory handle equals the disk and a two-extension asset equals a fresh load; in half of them the very first activity under the freshly built watcher is a single-notification operation (create an empty file / delete), followed by a watcher built with the public FsWatcherBuilder on a root reached through a symbolic link, whose events are read back through the hook channel; the other half is followed by a watcher built with FsWatcherBuilder::watch on two roots (outer then nested, nested then outer, disjoint, the same twice) under which files are really modified and created: every entry is named once for each root it is under, with its parent directory for creations, and nothing else is named. \
         non-trivial = a probe on the root or a root-level entry, a rename/remove kind, a '..' spelling, several roots, or a real history; distinct = different canonical JSON"
            .into()
    }

    fn assumptions(&self) -> Vec<String> {
        vec![
            "uses the hooks id_of_path / event_handler / event_channel (cfg assets_manager_verif)".into(),
            "the real part needs inotify; a start-up self-test skips it (counted) if no notification arrives within 5 s; a new directory is followed by a short pause before files are created in it (recursive-watch race of the OS is out of scope)".into(),
            "Remove(Any) is not generated (inotify always tells file from folder); duplicate events are not counted".into(),
        ]
    }

    fn plan(&self, tier: Tier) -> Plan {
        let mut p = Plan::new(match tier {
            Tier::Quick => 1500,
            Tier::Thorough => 12_000,
        });
        p.workers = 12;
        p.hang_detect = false;
        p.hard_cap_s = 400;
        p
    }

    fn strategy(&self, tier: Tier) -> BoxedStrategy<Value> {
        let target = prop_oneof![
            6 => any::<u16>().prop_map(Target::File),
            5 => any::<u16>().prop_map(Target::Dir),
            2 => Just(Target::Dir(0)),
            1 => Just(Target::Outside),
            1 => any::<u16>().prop_map(Target::DottedStem),
            1 => any::<u16>().prop_map(Target::NonUtf8),
            1 => any::<u16>().prop_map(Target::LeadingDot),
        ];
        let kind = (0..ALL_KINDS.len()).prop_map(|i| ALL_KINDS[i]);
        let spelling = prop_oneof![4 => Just(Spelling::Plain), 1 => Just(Spelling::CurDir), 1 => Just(Spelling::ParentDir)];
        let probe = (target, kind, spelling).prop_map(|(target, kind, spelling)| Probe { target, kind, spelling });
        let roots = prop_oneof![3 => Just(Roots::One), 1 => any::<u16>().prop_map(Roots::Nested), 1 => Just(Roots::Disjoint)];
        let real_op = prop_oneof![
            4 => (any::<u16>(), any::<u8>(), any::<u8>(), any::<u16>()).prop_map(|(dir, name, ext, value)| RealOp::Write { dir, name, ext, value }),
            3 => any::<u16>().prop_map(|file| RealOp::Delete { file }),
            2 => (any::<u16>(), any::<u8>()).prop_map(|(file, name)| RealOp::Rename { file, name }),
            1 => (any::<u16>(), any::<u8>()).prop_map(|(dir, name)| RealOp::MkDir { dir, name }),
            2 => (any::<u16>(), any::<u8>()).prop_map(|(dir, name)| RealOp::Touch { dir, name }),
        ];
        let real_w: u32 = if tier == Tier::Quick { 6 } else { 4 };
        let real = prop_oneof![
            100 - real_w => Just(Vec::new()),
            real_w => prop::collection::vec(real_op, 3..10),
        ];
        (trees::tree_strategy(10), roots, prop::collection::vec(probe, 1..12), real, prop_oneof![1 => Just(None), 1 => any::<u8>().prop_map(Some)])
            .prop_map(|(tree, roots, probes, real, first_probe)| {
                let first_probe = if real.is_empty() { None } else { first_probe };
                to_case(&Case { tree, roots, probes, real, first_probe })
            })
            .boxed()
    }

    fn enumerate(&self, _tier: Tier) -> Vec<Value> {
        // every entry of a fixed tree x every notification kind (plain spelling, one root)
        use crate::trees::{EntrySpec, Leaf};
        let f = |path: &[u8], ext: u8| EntrySpec { path: path.to_vec(), leaf: Leaf::File { ext, content: vec![b'x'] } };
        let tree = TreeSpec {
            entries: vec![f(&[0], 1), f(&[0], 2), f(&[1], 0), f(&[2, 0], 1), f(&[2, 1, 0], 3), f(&[2, 5], 1), f(&[3, 7], 1), f(&[6, 0], 0), EntrySpec { path: vec![4], leaf: Leaf::EmptyDir }, EntrySpec { path: vec![2, 4], leaf: Leaf::EmptyDir }],
        };
        let m = Model::from_spec(&tree);
        let mut out = Vec::new();
        for k in ALL_KINDS {
            let mut probes = Vec::new();
            for i in 0..m.files.len() as u16 {
                probes.push(Probe { target: Target::File(i), kind: k, spelling: Spelling::Plain });
            }
            for i in 0..m.dirs.len() as u16 {
                probes.push(Probe { target: Target::Dir(i), kind: k, spelling: Spelling::Plain });
            }
            out.push(to_case(&Case { tree: tree.clone(), roots: Roots::One, probes, real: Vec::new(), first_probe: None }));
        }
        out
    }

    fn enumerate_note(&self, _tier: Tier) -> String {
        "every file and directory (incl. the root) of a fixed 8-file / 8-directory tree x each of the 14 notification kinds".into()
    }

    fn run(&self, case: &Value) -> Outcome {
        let c: Case = from_case(case);
        let mut out = Outcome::new();
        let m = Model::from_spec(&c.tree);
        let base = trees::tmpdir("c12");
        let base = base.canonicalize().unwrap_or(base);
        let r0 = base.join("r0");
        let mut flags = (false, false, false, false);
        if std::fs::create_dir_all(&r0).is_ok() && m.write_disk(&r0).is_ok() {
            self.run_synthetic(&c, &m, &base, &mut out, &mut flags);
        } else {
            out.fail("harness", "could not materialise the tree");
        }
        let mut real_ran = false;
        if !out.failed() && !c.real.is_empty() {
            real_ran = self.run_real(&c, &base, &mut out);
            if !real_ran {
                out.excluded += 1;
            } else if !out.failed() && c.first_probe.is_some() {
                linked_root(&base, &mut out);
            } else if !out.failed() {
                builder_roots(&base, c.real.len(), &mut out);
            }
        }
        let _ = std::fs::remove_dir_all(&base);
        out.nontrivial = flags.0 || flags.1 || flags.2 || flags.3 || real_ran;
        if flags.0 {
            out.label("root-directory-probe");
        }
        if flags.1 {
            out.label("rename/remove/create-kind");
        }
        if flags.2 {
            out.label("several-roots");
        }
        if flags.3 {
            out.label("dotdot-spelling");
        }
        if real_ran {
            out.label("real-history");
            if c.first_probe.is_some() {
                out.label("real-first-notification-is-the-probe");
            }
        }
        out
    }

    fn required_labels(&self) -> Vec<&'static str> {
        vec!["root-directory-probe", "rename/remove/create-kind", "several-roots", "dotdot-spelling"]
    }
}

/// Fuzz decoder (synthetic part only).
pub fn decode(u: &mut arbitrary::Unstructured) -> arbitrary::Result<Value> {
    use crate::trees::{EntrySpec, Leaf};
    let mut entries = Vec::new();
    for _ in 0..u.int_in_range(0..=8)? {
        let depth = u.int_in_range(1..=4)?;
        let mut path = Vec::new();
        for _ in 0..depth {
            path.push(u.int_in_range(0..=9)?);
        }
        let leaf = if u.int_in_range(0..=7)? == 0 { Leaf::EmptyDir } else { Leaf::File { ext: u.int_in_range(0..=4)?, content: vec![b'x'] } };
        entries.push(EntrySpec { path, leaf });
    }
    let roots = match u.int_in_range(0..=4)? {
        0 => Roots::Nested(u.arbitrary()?),
        1 => Roots::Disjoint,
        _ => Roots::One,
    };
    let mut probes = Vec::new();
    for _ in 0..u.int_in_range(1..=10)? {
        let target = match u.int_in_range(0..=10)? {
            0..=3 => Target::File(u.arbitrary()?),
            4..=6 => Target::Dir(u.arbitrary()?),
            7 => Target::Outside,
            8 => Target::DottedStem(u.arbitrary()?),
            10 => Target::LeadingDot(u.arbitrary()?),
            _ => Target::NonUtf8(u.arbitrary()?),
        };
        let kind = ALL_KINDS[u.int_in_range(0..=ALL_KINDS.len() - 1)?];
        let spelling = match u.int_in_range(0..=5)? {
            0 => Spelling::CurDir,
            1 => Spelling::ParentDir,
            _ => Spelling::Plain,
        };
        probes.push(Probe { target, kind, spelling });
    }
    Ok(to_case(&Case { tree: TreeSpec { entries }, roots, probes, real: Vec::new(), first_probe: None }))
}
