//! C02 - the cache is a faithful map keyed by (id, type), identical on every front-end.

use crate::engine::{from_case, to_case, Outcome, Plan, Prop, Tier};
use crate::memsrc::{MemSource, Variant};
use assets_manager::{
    loader::Loader, AnyCache, Asset, AssetCache, BoxedError, Compound, Directory, LocalAssetCache,
    RecursiveDirectory, SharedString, Storable,
};
use proptest::prelude::*;
use serde::{Deserialize, Serialize};
use serde_json::Value;
use std::borrow::Cow;
use std::collections::BTreeMap;

// ---------------------------------------------------------------------------
// asset kinds

#[derive(Debug, Clone, PartialEq, Eq)]
pub struct A1(pub String);
#[derive(Debug, Clone, PartialEq, Eq)]
pub struct A2(pub String);
#[derive(Debug, Clone, PartialEq, Eq)]
pub struct CP(pub String);
#[derive(Debug, Clone, PartialEq, Eq)]
pub struct S1(pub String);
/// A compound that inserts a value under its own key while it is being loaded
/// (a sequential way to have two insertions of one key: the first one must win).
#[derive(Debug, Clone, PartialEq, Eq)]
pub struct RE(pub String);

impl Compound for RE {
    fn load(cache: AnyCache, id: &SharedString) -> Result<Self, BoxedError> {
        let inner = cache.get_or_insert::<RE>(id, RE("inner".into())).read().0.clone();
        Ok(RE(format!("outer-saw-{inner}")))
    }
}

pub struct TLoader;
fn decode_value(content: &[u8]) -> Result<String, BoxedError> {
    let s = std::str::from_utf8(content)?;
    match s.strip_prefix("ok:") {
        Some(v) => Ok(v.to_string()),
        None => Err("undecodable".into()),
    }
}
impl Loader<A1> for TLoader {
    fn load(content: Cow<[u8]>, _: &str) -> Result<A1, BoxedError> {
        Ok(A1(decode_value(&content)?))
    }
}
impl Loader<A2> for TLoader {
    fn load(content: Cow<[u8]>, _: &str) -> Result<A2, BoxedError> {
        Ok(A2(decode_value(&content)?))
    }
}
impl Asset for A1 {
    const EXTENSION: &'static str = "t";
    type Loader = TLoader;
}
impl Asset for A2 {
    const EXTENSION: &'static str = "t";
    type Loader = TLoader;
}
impl Storable for S1 {}

fn nested_id(id: &str) -> String {
    format!("{id}_n")
}

impl Compound for CP {
    fn load(cache: AnyCache, id: &SharedString) -> Result<Self, BoxedError> {
        let a = cache.load::<A1>(id)?.read().0.clone();
        let b = cache.load::<A2>(&nested_id(id)).ok().map(|h| h.read().0.clone());
        let s = cache.get_cached::<S1>(id).map(|h| h.read().0.clone());
        Ok(CP(format!("CP[{a}|{b:?}|{s:?}]")))
    }
}

// ---------------------------------------------------------------------------
// cases

#[derive(Debug, Clone, Copy, Serialize, Deserialize, PartialEq, Eq, PartialOrd, Ord)]
pub enum T {
    A1,
    A2,
    CP,
    S1,
    RE,
    Dir,
    Rec,
}

#[derive(Debug, Clone, Serialize, Deserialize)]
pub enum Op {
    Load(T, String),
    LoadOwned(T, String),
    GetCached(T, String),
    GetOrInsert(T, String, u8),
    Contains(T, String),
    Remove(T, String),
    Take(T, String),
    Clear,
    /// hot front-ends only: the source announces a change of `<id>.t` (content unchanged) and the
    /// reloads it triggers are awaited; a no-op on the other front-ends
    Notify(String),
}

#[derive(Debug, Clone, Serialize, Deserialize)]
pub enum FileState {
    Valid(u8),
    Bad,
}

#[derive(Debug, Clone, Serialize, Deserialize)]
pub struct Case {
    /// files `<id>.t`
    files: BTreeMap<String, FileState>,
    /// extra empty directories
    dirs: Vec<String>,
    ops: Vec<Op>,
    /// CPUs visible while the AssetCache front-ends are constructed (0 = unchanged); decides the shard count
    #[serde(default)]
    cpus: u8,
}

// ---------------------------------------------------------------------------
// reference model

#[derive(Debug, Clone, PartialEq, Eq)]
enum Obs {
    Val(String),
    Ids(Vec<String>),
    Err,
    Absent,
    Bool(bool),
    Unit,
}

struct Model<'a> {
    case: &'a Case,
    map: BTreeMap<(T, String), Obs>,
}

fn parent_of(id: &str) -> Option<&str> {
    crate::memsrc::parent_of(id)
}

impl Model<'_> {
    fn all_dirs(&self) -> std::collections::BTreeSet<String> {
        let mut d = std::collections::BTreeSet::new();
        d.insert(String::new());
        let mut add = |mut cur: &str| {
            while !cur.is_empty() {
                d.insert(cur.to_string());
                cur = parent_of(cur).unwrap();
            }
        };
        for id in self.case.files.keys() {
            if let Some(p) = parent_of(id) {
                add(p);
            }
        }
        for dir in &self.case.dirs {
            add(dir);
        }
        d
    }

    fn dir_ids(&self, dir: &str) -> Option<Vec<String>> {
        if !self.all_dirs().contains(dir) {
            return None;
        }
        // Directory<A1>: files directly in dir with extension "t"
        let mut ids: Vec<String> = self.case.files.keys().filter(|id| parent_of(id) == Some(dir)).cloned().collect();
        ids.sort();
        Some(ids)
    }

    fn source_value(&self, id: &str) -> Option<String> {
        match self.case.files.get(id) {
            Some(FileState::Valid(v)) => Some(format!("v{v}")),
            _ => None,
        }
    }

    /// `load`: returns the observation and applies the insertions.
    fn load(&mut self, t: T, id: &str, owned: bool) -> Obs {
        if !owned {
            if let Some(v) = self.map.get(&(t, id.to_string())) {
                return v.clone();
            }
        }
        let val = match t {
            T::A1 | T::A2 => match self.source_value(id) {
                Some(v) => Obs::Val(v),
                None => Obs::Err,
            },
            T::CP => {
                let a = match self.load(T::A1, id, false) {
                    Obs::Val(a) => a,
                    _ => return Obs::Err,
                };
                let b = match self.load(T::A2, &nested_id(id), false) {
                    Obs::Val(b) => Some(b),
                    _ => None,
                };
                let s = match self.map.get(&(T::S1, id.to_string())) {
                    Some(Obs::Val(s)) => Some(s.clone()),
                    _ => None,
                };
                Obs::Val(format!("CP[{a}|{b:?}|{s:?}]"))
            }
            T::Dir => match self.dir_ids(id) {
                Some(ids) => Obs::Ids(ids),
                None => Obs::Err,
            },
            T::Rec => {
                let mut ids = match self.load(T::Dir, id, false) {
                    Obs::Ids(ids) => ids,
                    _ => return Obs::Err,
                };
                let subs: Vec<String> = self.all_dirs().into_iter().filter(|d| parent_of(d) == Some(id)).collect();
                for sub in subs {
                    if let Obs::Ids(more) = self.load(T::Rec, &sub, false) {
                        ids.extend(more);
                    }
                }
                ids.sort();
                Obs::Ids(ids)
            }
            T::RE => {
                let inner = match self.map.entry((T::RE, id.to_string())).or_insert(Obs::Val("inner".into())) {
                    Obs::Val(v) => v.clone(),
                    _ => unreachable!(),
                };
                if !owned {
                    // the entry inserted during the load is the one that stays
                    return Obs::Val(inner);
                }
                Obs::Val(format!("outer-saw-{inner}"))
            }
            T::S1 => unreachable!("S1 cannot be loaded"),
        };
        if !owned && val != Obs::Err {
            self.map.insert((t, id.to_string()), val.clone());
        }
        val
    }

    fn apply(&mut self, op: &Op) -> Obs {
        match op {
            Op::Load(t, id) => self.load(*t, id, false),
            Op::LoadOwned(t, id) => self.load(*t, id, true),
            Op::GetCached(t, id) => self.map.get(&(*t, id.clone())).cloned().unwrap_or(Obs::Absent),
            Op::GetOrInsert(t, id, v) => self.map.entry((*t, id.clone())).or_insert(Obs::Val(format!("ins{v}"))).clone(),
            Op::Contains(t, id) => Obs::Bool(self.map.contains_key(&(*t, id.clone()))),
            Op::Remove(t, id) => Obs::Bool(self.map.remove(&(*t, id.clone())).is_some()),
            Op::Take(t, id) => self.map.remove(&(*t, id.clone())).unwrap_or(Obs::Absent),
            Op::Clear => {
                self.map.clear();
                Obs::Unit
            }
            Op::Notify(_) => Obs::Unit,
        }
    }

    /// No entry whose reload recomputes its value from the cache is present.
    fn only_plain_entries(&self) -> bool {
        self.map.keys().all(|(t, _)| matches!(t, T::A1 | T::A2 | T::S1))
    }
}

// ---------------------------------------------------------------------------
// front-ends

fn obs_ids<'a>(it: impl Iterator<Item = &'a SharedString>) -> Obs {
    let mut v: Vec<String> = it.map(|s| s.to_string()).collect();
    v.sort();
    Obs::Ids(v)
}

/// The read-only / inserting operations, through an `AnyCache`.
fn any_apply(c: AnyCache, op: &Op) -> Option<Obs> {
    macro_rules! val {
        ($r:expr) => {
            match $r {
                Ok(h) => Obs::Val(h.read().0.clone()),
                Err(_) => Obs::Err,
            }
        };
    }
    Some(match op {
        Op::Load(T::A1, id) => val!(c.load::<A1>(id)),
        Op::Load(T::A2, id) => val!(c.load::<A2>(id)),
        Op::Load(T::CP, id) => val!(c.load::<CP>(id)),
        Op::Load(T::RE, id) => val!(c.load::<RE>(id)),
        Op::Load(T::Dir, id) => match c.load_dir::<A1>(id) {
            Ok(h) => obs_ids(h.read().ids()),
            Err(_) => Obs::Err,
        },
        Op::Load(T::Rec, id) => match c.load_rec_dir::<A1>(id) {
            Ok(h) => obs_ids(h.read().ids()),
            Err(_) => Obs::Err,
        },
        Op::LoadOwned(T::A1, id) => c.load_owned::<A1>(id).map(|v| Obs::Val(v.0)).unwrap_or(Obs::Err),
        Op::LoadOwned(T::A2, id) => c.load_owned::<A2>(id).map(|v| Obs::Val(v.0)).unwrap_or(Obs::Err),
        Op::LoadOwned(T::CP, id) => c.load_owned::<CP>(id).map(|v| Obs::Val(v.0)).unwrap_or(Obs::Err),
        Op::LoadOwned(T::RE, id) => c.load_owned::<RE>(id).map(|v| Obs::Val(v.0)).unwrap_or(Obs::Err),
        Op::LoadOwned(T::Dir, id) => c.load_owned::<Directory<A1>>(id).map(|v| obs_ids(v.ids())).unwrap_or(Obs::Err),
        Op::LoadOwned(T::Rec, id) => c.load_owned::<RecursiveDirectory<A1>>(id).map(|v| obs_ids(v.ids())).unwrap_or(Obs::Err),
        Op::GetCached(T::A1, id) => c.get_cached::<A1>(id).map(|h| Obs::Val(h.read().0.clone())).unwrap_or(Obs::Absent),
        Op::GetCached(T::A2, id) => c.get_cached::<A2>(id).map(|h| Obs::Val(h.read().0.clone())).unwrap_or(Obs::Absent),
        Op::GetCached(T::CP, id) => c.get_cached::<CP>(id).map(|h| Obs::Val(h.read().0.clone())).unwrap_or(Obs::Absent),
        Op::GetCached(T::RE, id) => c.get_cached::<RE>(id).map(|h| Obs::Val(h.read().0.clone())).unwrap_or(Obs::Absent),
        Op::GetCached(T::S1, id) => c.get_cached::<S1>(id).map(|h| Obs::Val(h.read().0.clone())).unwrap_or(Obs::Absent),
        Op::GetCached(T::Dir, id) => c.get_cached::<Directory<A1>>(id).map(|h| obs_ids(h.read().ids())).unwrap_or(Obs::Absent),
        Op::GetCached(T::Rec, id) => c.get_cached::<RecursiveDirectory<A1>>(id).map(|h| obs_ids(h.read().ids())).unwrap_or(Obs::Absent),
        Op::GetOrInsert(T::A1, id, v) => Obs::Val(c.get_or_insert(id, A1(format!("ins{v}"))).read().0.clone()),
        Op::GetOrInsert(T::A2, id, v) => Obs::Val(c.get_or_insert(id, A2(format!("ins{v}"))).read().0.clone()),
        Op::GetOrInsert(T::CP, id, v) => Obs::Val(c.get_or_insert(id, CP(format!("ins{v}"))).read().0.clone()),
        Op::GetOrInsert(T::RE, id, v) => Obs::Val(c.get_or_insert(id, RE(format!("ins{v}"))).read().0.clone()),
        Op::GetOrInsert(T::S1, id, v) => Obs::Val(c.get_or_insert(id, S1(format!("ins{v}"))).read().0.clone()),
        Op::Contains(T::A1, id) => Obs::Bool(c.contains::<A1>(id)),
        Op::Contains(T::A2, id) => Obs::Bool(c.contains::<A2>(id)),
        Op::Contains(T::CP, id) => Obs::Bool(c.contains::<CP>(id)),
        Op::Contains(T::RE, id) => Obs::Bool(c.contains::<RE>(id)),
        Op::Contains(T::S1, id) => Obs::Bool(c.contains::<S1>(id)),
        Op::Contains(T::Dir, id) => Obs::Bool(c.contains::<Directory<A1>>(id)),
        Op::Contains(T::Rec, id) => Obs::Bool(c.contains::<RecursiveDirectory<A1>>(id)),
        _ => return None,
    })
}

macro_rules! direct_apply {
    ($c:expr, $op:expr) => {{
        macro_rules! val {
            ($r:expr) => {
                match $r {
                    Ok(h) => Obs::Val(h.read().0.clone()),
                    Err(_) => Obs::Err,
                }
            };
        }
        let c = $c;
        match $op {
            Op::Load(T::A1, id) => val!(c.load::<A1>(id)),
            Op::Load(T::A2, id) => val!(c.load::<A2>(id)),
            Op::Load(T::CP, id) => val!(c.load::<CP>(id)),
            Op::Load(T::RE, id) => val!(c.load::<RE>(id)),
            Op::Load(T::Dir, id) => match c.load_dir::<A1>(id) {
                Ok(h) => obs_ids(h.read().ids()),
                Err(_) => Obs::Err,
            },
            Op::Load(T::Rec, id) => match c.load_rec_dir::<A1>(id) {
                Ok(h) => obs_ids(h.read().ids()),
                Err(_) => Obs::Err,
            },
            Op::LoadOwned(T::A1, id) => c.load_owned::<A1>(id).map(|v| Obs::Val(v.0)).unwrap_or(Obs::Err),
            Op::LoadOwned(T::A2, id) => c.load_owned::<A2>(id).map(|v| Obs::Val(v.0)).unwrap_or(Obs::Err),
            Op::LoadOwned(T::CP, id) => c.load_owned::<CP>(id).map(|v| Obs::Val(v.0)).unwrap_or(Obs::Err),
            Op::LoadOwned(T::RE, id) => c.load_owned::<RE>(id).map(|v| Obs::Val(v.0)).unwrap_or(Obs::Err),
            Op::LoadOwned(T::Dir, id) => c.load_owned::<Directory<A1>>(id).map(|v| obs_ids(v.ids())).unwrap_or(Obs::Err),
            Op::LoadOwned(T::Rec, id) => c.load_owned::<RecursiveDirectory<A1>>(id).map(|v| obs_ids(v.ids())).unwrap_or(Obs::Err),
            Op::GetCached(T::A1, id) => c.get_cached::<A1>(id).map(|h| Obs::Val(h.read().0.clone())).unwrap_or(Obs::Absent),
            Op::GetCached(T::A2, id) => c.get_cached::<A2>(id).map(|h| Obs::Val(h.read().0.clone())).unwrap_or(Obs::Absent),
            Op::GetCached(T::CP, id) => c.get_cached::<CP>(id).map(|h| Obs::Val(h.read().0.clone())).unwrap_or(Obs::Absent),
            Op::GetCached(T::RE, id) => c.get_cached::<RE>(id).map(|h| Obs::Val(h.read().0.clone())).unwrap_or(Obs::Absent),
            Op::GetCached(T::S1, id) => c.get_cached::<S1>(id).map(|h| Obs::Val(h.read().0.clone())).unwrap_or(Obs::Absent),
            Op::GetCached(T::Dir, id) => c.get_cached::<Directory<A1>>(id).map(|h| obs_ids(h.read().ids())).unwrap_or(Obs::Absent),
            Op::GetCached(T::Rec, id) => c.get_cached::<RecursiveDirectory<A1>>(id).map(|h| obs_ids(h.read().ids())).unwrap_or(Obs::Absent),
            Op::GetOrInsert(T::A1, id, v) => Obs::Val(c.get_or_insert(id, A1(format!("ins{v}"))).read().0.clone()),
            Op::GetOrInsert(T::A2, id, v) => Obs::Val(c.get_or_insert(id, A2(format!("ins{v}"))).read().0.clone()),
            Op::GetOrInsert(T::CP, id, v) => Obs::Val(c.get_or_insert(id, CP(format!("ins{v}"))).read().0.clone()),
            Op::GetOrInsert(T::RE, id, v) => Obs::Val(c.get_or_insert(id, RE(format!("ins{v}"))).read().0.clone()),
            Op::GetOrInsert(T::S1, id, v) => Obs::Val(c.get_or_insert(id, S1(format!("ins{v}"))).read().0.clone()),
            Op::Contains(T::A1, id) => Obs::Bool(c.contains::<A1>(id)),
            Op::Contains(T::A2, id) => Obs::Bool(c.contains::<A2>(id)),
            Op::Contains(T::CP, id) => Obs::Bool(c.contains::<CP>(id)),
            Op::Contains(T::RE, id) => Obs::Bool(c.contains::<RE>(id)),
            Op::Contains(T::S1, id) => Obs::Bool(c.contains::<S1>(id)),
            Op::Contains(T::Dir, id) => Obs::Bool(c.contains::<Directory<A1>>(id)),
            Op::Contains(T::Rec, id) => Obs::Bool(c.contains::<RecursiveDirectory<A1>>(id)),
            _ => unreachable!("not a shared-borrow op or not generated: {:?}", $op),
        }
    }};
}

macro_rules! mut_apply {
    ($c:expr, $op:expr) => {{
        let c = $c;
        match $op {
            Op::Remove(T::A1, id) => Obs::Bool(c.remove::<A1>(id)),
            Op::Remove(T::A2, id) => Obs::Bool(c.remove::<A2>(id)),
            Op::Remove(T::CP, id) => Obs::Bool(c.remove::<CP>(id)),
            Op::Remove(T::RE, id) => Obs::Bool(c.remove::<RE>(id)),
            Op::Remove(T::S1, id) => Obs::Bool(c.remove::<S1>(id)),
            Op::Remove(T::Dir, id) => Obs::Bool(c.remove::<Directory<A1>>(id)),
            Op::Remove(T::Rec, id) => Obs::Bool(c.remove::<RecursiveDirectory<A1>>(id)),
            Op::Take(T::A1, id) => c.take::<A1>(id).map(|v| Obs::Val(v.0)).unwrap_or(Obs::Absent),
            Op::Take(T::A2, id) => c.take::<A2>(id).map(|v| Obs::Val(v.0)).unwrap_or(Obs::Absent),
            Op::Take(T::CP, id) => c.take::<CP>(id).map(|v| Obs::Val(v.0)).unwrap_or(Obs::Absent),
            Op::Take(T::RE, id) => c.take::<RE>(id).map(|v| Obs::Val(v.0)).unwrap_or(Obs::Absent),
            Op::Take(T::S1, id) => c.take::<S1>(id).map(|v| Obs::Val(v.0)).unwrap_or(Obs::Absent),
            Op::Take(T::Dir, id) => c.take::<Directory<A1>>(id).map(|v| obs_ids(v.ids())).unwrap_or(Obs::Absent),
            Op::Take(T::Rec, id) => c.take::<RecursiveDirectory<A1>>(id).map(|v| obs_ids(v.ids())).unwrap_or(Obs::Absent),
            Op::Clear => {
                c.clear();
                Obs::Unit
            }
            _ => unreachable!(),
        }
    }};
}

fn is_mut(op: &Op) -> bool {
    matches!(op, Op::Remove(..) | Op::Take(..) | Op::Clear)
}

fn make_source(case: &Case, hot: bool) -> MemSource {
    let src = MemSource::new(hot);
    {
        let mut t = src.tree();
        for (id, st) in &case.files {
            let bytes = match st {
                FileState::Valid(v) => format!("ok:v{v}").into_bytes(),
                FileState::Bad => b"garbage".to_vec(),
            };
            t.put(id, "t", bytes, Variant::Buffer);
        }
        for d in &case.dirs {
            t.mkdirs(d);
        }
    }
    src
}

#[derive(Clone, Copy, Debug)]
enum Front {
    Asset,
    AssetAny,
    AssetHot,
    AssetHotAny,
    Local,
    LocalAny,
}

const FRONTS: [Front; 6] = [Front::Asset, Front::AssetAny, Front::AssetHot, Front::AssetHotAny, Front::Local, Front::LocalAny];

/// All (type, id) pairs that a final scan looks at.
fn scan_keys(case: &Case) -> Vec<(T, String)> {
    let mut ids: std::collections::BTreeSet<String> = std::collections::BTreeSet::new();
    ids.insert(String::new());
    for id in case.files.keys() {
        ids.insert(id.clone());
        let mut cur = id.as_str();
        while let Some(p) = parent_of(cur) {
            ids.insert(p.to_string());
            cur = p;
        }
    }
    for d in &case.dirs {
        ids.insert(d.clone());
    }
    for op in &case.ops {
        match op {
            Op::Load(_, id) | Op::LoadOwned(_, id) | Op::GetCached(_, id) | Op::GetOrInsert(_, id, _) | Op::Contains(_, id) | Op::Remove(_, id) | Op::Take(_, id) => {
                ids.insert(id.clone());
                ids.insert(nested_id(id));
            }
            Op::Notify(id) => {
                ids.insert(id.clone());
            }
            Op::Clear => {}
        }
    }
    let mut out = Vec::new();
    for id in ids {
        for t in [T::A1, T::A2, T::CP, T::S1, T::RE, T::Dir, T::Rec] {
            out.push((t, id.clone()));
        }
    }
    out
}

/// Sentinel asset of the hot front-ends (its extension keeps it out of the directory listings the model sees).
#[derive(Debug, Clone, PartialEq, Eq)]
pub struct Sent(pub String);
impl Loader<Sent> for TLoader {
    fn load(content: Cow<[u8]>, _: &str) -> Result<Sent, BoxedError> {
        Ok(Sent(decode_value(&content)?))
    }
}
impl Asset for Sent {
    const EXTENSION: &'static str = "sn";
    type Loader = TLoader;
}
const SENTINEL: &str = "zz_sentinel";

/// Announces a change of `<id>.t` and waits until the reloader has processed it.
fn notify_and_wait(cache: &AssetCache<MemSource>, src: &MemSource, id: &str, version: &mut u32) -> bool {
    src.send(&crate::memsrc::OwnedEntry::File(id.to_string(), "t".to_string()));
    sentinel_barrier(cache, src, version)
}

/// Creates the sentinel's file (call before the cache is used).
pub fn install_sentinel(src: &MemSource) {
    src.tree().put(SENTINEL, "sn", b"ok:S0".to_vec(), Variant::Buffer);
}

/// Quiescence barrier: the sentinel's own change is announced on the same channel as every earlier
/// notification; when its new value is visible, the earlier ones have been processed. Bounded by
/// counting synchronous hot_reload round trips.
pub fn sentinel_barrier(cache: &AssetCache<MemSource>, src: &MemSource, version: &mut u32) -> bool {
    use crate::memsrc::OwnedEntry;
    let Ok(sent) = cache.load::<Sent>(SENTINEL) else { return false };
    *version += 1;
    let want = format!("S{version}");
    src.tree().put(SENTINEL, "sn", format!("ok:{want}").into_bytes(), Variant::Buffer);
    src.send(&OwnedEntry::File(SENTINEL.to_string(), "sn".to_string()));
    for _ in 0..4000 {
        cache.hot_reload();
        if sent.read().0 == want {
            // one more synchronous round trip: reloads of the same batch are finished when it returns
            cache.hot_reload();
            return true;
        }
        std::thread::yield_now();
    }
    false
}

fn with_cpus<R>(cpus: u8, f: impl FnOnce() -> R) -> R {
    if cpus == 0 {
        return f();
    }
    let old = crate::procfs::set_cpus(cpus as usize);
    let r = f();
    if let Some(old) = &old {
        crate::procfs::restore_cpus(old);
    }
    r
}

fn run_front(front: Front, case: &Case, out: &mut Outcome) {
    let mut model = Model { case, map: BTreeMap::new() };
    let scan = scan_keys(case);
    let mut version = 0u32;
    macro_rules! drive {
        ($cache:expr, $any:expr, $notify:expr) => {{
            let mut cache = $cache;
            macro_rules! probe {
                ($t:expr, $id:expr) => {{
                    let c_op = Op::Contains($t, $id.clone());
                    let g_op = Op::GetCached($t, $id.clone());
                    if $any {
                        (any_apply(cache.as_any_cache(), &c_op).unwrap(), any_apply(cache.as_any_cache(), &g_op).unwrap())
                    } else {
                        (direct_apply!(&cache, &c_op), direct_apply!(&cache, &g_op))
                    }
                }};
            }
            for (k, op) in case.ops.iter().enumerate() {
                if let Op::Notify(id) = op {
                    #[allow(clippy::redundant_closure_call)]
                    let done: Option<bool> = ($notify)(&cache, id.as_str(), &mut version);
                    match done {
                        None => {}
                        Some(false) => {
                            out.fail("reload-lost", format!("front-end {front:?}, step {k} {op:?}: the announced change of the sentinel was never applied although hot_reload kept returning"));
                            return;
                        }
                        Some(true) => {
                            let strict = model.only_plain_entries();
                            for (t, id) in &scan {
                                let (c, g) = probe!(*t, id);
                                let exp = model.map.get(&(*t, id.clone())).cloned();
                                if strict {
                                    if c != Obs::Bool(exp.is_some()) || g != exp.clone().unwrap_or(Obs::Absent) {
                                        out.fail(
                                            "reload-changed-map",
                                            format!("front-end {front:?}, step {k} {op:?}: no compound is cached and no file content changed, yet after the reload key ({t:?}, {id:?}) has contains={c:?} get_cached={g:?}, the map model says {exp:?}"),
                                        );
                                        return;
                                    }
                                } else if c != Obs::Bool(g != Obs::Absent) {
                                    out.fail("contains-get-cached-disagree", format!("front-end {front:?}, step {k}: key ({t:?}, {id:?}) contains={c:?} get_cached={g:?}"));
                                    return;
                                } else {
                                    // compounds recompute their value from the cache when reloaded (C05's subject):
                                    // adopt the cache's state and go on
                                    match g {
                                        Obs::Absent => {
                                            model.map.remove(&(*t, id.clone()));
                                        }
                                        g => {
                                            model.map.insert((*t, id.clone()), g);
                                        }
                                    }
                                }
                            }
                            if strict {
                                out.label("notify-strict");
                            }
                        }
                    }
                    continue;
                }
                let exp = model.apply(op);
                let got = if is_mut(op) {
                    mut_apply!(&mut cache, op)
                } else if $any {
                    any_apply(cache.as_any_cache(), op).expect("any op")
                } else {
                    direct_apply!(&cache, op)
                };
                if got != exp {
                    out.fail(
                        "model-mismatch",
                        format!("front-end {front:?}, step {k} {op:?}: returned {got:?}, the map model says {exp:?}"),
                    );
                    return;
                }
            }
            // final scan: presence and values of every key equal the model's
            for (t, id) in &scan {
                let exp = model.map.get(&(*t, id.clone())).cloned();
                let (c, g) = probe!(*t, id);
                if c != Obs::Bool(exp.is_some()) || g != exp.clone().unwrap_or(Obs::Absent) {
                    out.fail(
                        "final-scan-mismatch",
                        format!("front-end {front:?}: after the sequence, key ({t:?}, {id:?}) has contains={c:?} get_cached={g:?}, the map model says {exp:?}"),
                    );
                    return;
                }
            }
        }};
    }
    fn no_notify<C>(_: &C, _: &str, _: &mut u32) -> Option<bool> {
        None
    }
    let cpus = case.cpus;
    match front {
        Front::Asset => drive!(with_cpus(cpus, || AssetCache::without_hot_reloading(make_source(case, false))), false, no_notify),
        Front::AssetAny => drive!(with_cpus(cpus, || AssetCache::with_source(make_source(case, false))), true, no_notify),
        Front::AssetHot | Front::AssetHotAny => {
            let src = make_source(case, true);
            install_sentinel(&src);
            let h = src.handle();
            let notify = move |c: &AssetCache<MemSource>, id: &str, v: &mut u32| -> Option<bool> { Some(notify_and_wait(c, &h, id, v)) };
            if matches!(front, Front::AssetHot) {
                drive!(with_cpus(cpus, || AssetCache::with_source(src)), false, notify)
            } else {
                drive!(with_cpus(cpus, || AssetCache::with_source(src)), true, notify)
            }
        }
        Front::Local => drive!(LocalAssetCache::with_source(make_source(case, false)), false, no_notify),
        Front::LocalAny => drive!(LocalAssetCache::with_source(make_source(case, false)), true, no_notify),
    }
}

// ---------------------------------------------------------------------------

/// the last six have empty components or a '/' or are longer than 32 bytes: ids are keys verbatim, whatever file the source maps them to
const IDS: [&str; 15] = ["a", "b", "c", "a_n", "d.a", "d.b", "d.e.a", "d_n", "zz", ".a", "a.", "d..a", "d/a", "a/", "d.e.a_long_identifier_of_more_than_thirty_two_bytes"];
const DIR_IDS: [&str; 5] = ["", "d", "d.e", "g", "nodir"];

fn t_loadable() -> impl Strategy<Value = T> {
    prop_oneof![3 => Just(T::A1), 3 => Just(T::A2), 3 => Just(T::CP), 1 => Just(T::RE)]
}
fn t_storable() -> impl Strategy<Value = T> {
    prop_oneof![3 => Just(T::A1), 3 => Just(T::A2), 3 => Just(T::CP), 3 => Just(T::S1), 1 => Just(T::RE)]
}
fn id_s() -> impl Strategy<Value = String> {
    (0..IDS.len()).prop_map(|i| IDS[i].to_string())
}
fn dir_s() -> impl Strategy<Value = String> {
    (0..DIR_IDS.len()).prop_map(|i| DIR_IDS[i].to_string())
}
fn dir_t() -> impl Strategy<Value = T> {
    prop_oneof![Just(T::Dir), Just(T::Rec)]
}

fn op_strategy() -> impl Strategy<Value = Op> {
    prop_oneof![
        6 => (t_loadable(), id_s()).prop_map(|(t, i)| Op::Load(t, i)),
        3 => (t_loadable(), id_s()).prop_map(|(t, i)| Op::LoadOwned(t, i)),
        4 => (t_storable(), id_s()).prop_map(|(t, i)| Op::GetCached(t, i)),
        4 => (t_storable(), id_s(), 0u8..4).prop_map(|(t, i, v)| Op::GetOrInsert(t, i, v)),
        3 => (t_storable(), id_s()).prop_map(|(t, i)| Op::Contains(t, i)),
        3 => (t_storable(), id_s()).prop_map(|(t, i)| Op::Remove(t, i)),
        3 => (t_storable(), id_s()).prop_map(|(t, i)| Op::Take(t, i)),
        1 => Just(Op::Clear),
        2 => id_s().prop_map(Op::Notify),
        2 => (dir_t(), dir_s()).prop_map(|(t, i)| Op::Load(t, i)),
        1 => (dir_t(), dir_s()).prop_map(|(t, i)| Op::LoadOwned(t, i)),
        1 => (dir_t(), dir_s()).prop_map(|(t, i)| Op::GetCached(t, i)),
        1 => (dir_t(), dir_s()).prop_map(|(t, i)| Op::Remove(t, i)),
        1 => (dir_t(), dir_s()).prop_map(|(t, i)| Op::Take(t, i)),
    ]
}

fn nontrivial(case: &Case) -> bool {
    // a mutation after an insertion on the same id, or two types under one id
    let mut inserted: BTreeMap<&str, std::collections::BTreeSet<T>> = BTreeMap::new();
    for op in &case.ops {
        match op {
            Op::Load(t, id) | Op::GetOrInsert(t, id, _) => {
                let e = inserted.entry(id.as_str()).or_default();
                e.insert(*t);
                if e.len() >= 2 {
                    return true;
                }
            }
            Op::Remove(_, id) | Op::Take(_, id) => {
                if inserted.contains_key(id.as_str()) {
                    return true;
                }
            }
            Op::Clear => {
                if !inserted.is_empty() {
                    return true;
                }
            }
            _ => {}
        }
    }
    false
}

pub struct C02;

impl Prop for C02 {
    fn id(&self) -> &'static str {
        "C02"
    }

    fn rule(&self) -> String {
        "cases = (source contents: per id valid/undecodable/absent over a small tree with nested and empty directories; op sequence over \
         load, load_owned, get_cached, get_or_insert, contains, remove, take, clear, load_dir, load_rec_dir on types A1, A2 (same extension), \
         CP (compound loading A1(id), A2(id_n) and peeking S1(id)), S1 (Storable), RE (a compound that get_or_inserts its own key while loading: the first insertion must win)). Every sequence is run on six front-ends, the AssetCache ones constructed under a CPU affinity of 1/2/3/5/6/7/12 CPUs or unchanged (shard count) \
         (AssetCache without reloader, its AnyCache view, AssetCache with a live reloader, its AnyCache view, LocalAssetCache, its AnyCache view) and every return value \
         plus a final contains/get_cached scan over all ids x types is compared with a BTreeMap reference model. Ids include three with empty components (.a, a., d..a) two with a '/' (d/a, a/) and one of 51 bytes: keys are verbatim. Notify(id): on the two front-ends with a live reloader the source announces a change of id's file \
         (content unchanged) and the reloads are awaited behind a sentinel; when only plain assets / storables are cached nothing may change (full scan), otherwise the model adopts the cache's state. Enumerated part: every sequence up to the length bound over a 2-id alphabet. \
         non-trivial = a remove/take/clear after an insertion on the same id, or two types inserted under one id; distinct = different canonical JSON"
            .into()
    }

    fn assumptions(&self) -> Vec<String> {
        vec!["single-threaded histories (races are C01's subject); hash seeds: one fresh RandomState per cache, i.e. six per case".into()]
    }

    fn plan(&self, tier: Tier) -> Plan {
        Plan::new(match tier {
            Tier::Quick => 10000,
            Tier::Thorough => 100_000,
        })
    }

    fn strategy(&self, tier: Tier) -> BoxedStrategy<Value> {
        let max_len = if tier == Tier::Quick { 30 } else { 60 };
        let files = prop::collection::btree_map(
            id_s(),
            prop_oneof![3 => (0u8..3).prop_map(FileState::Valid), 1 => Just(FileState::Bad)],
            0..IDS.len(),
        );
        let dirs = prop::collection::vec((0..3usize).prop_map(|i| ["g", "d.e", "h.i"][i].to_string()), 0..3);
        let cpus = prop_oneof![4 => Just(0u8), 1 => Just(1u8), 1 => Just(2u8), 2 => Just(3u8), 1 => Just(5u8), 1 => Just(6u8), 1 => Just(7u8), 1 => Just(12u8)];
        (files, dirs, prop::collection::vec(op_strategy(), 1..max_len), cpus)
            .prop_map(|(files, dirs, ops, cpus)| to_case(&Case { files, dirs, ops, cpus }))
            .boxed()
    }

    fn enumerate(&self, tier: Tier) -> Vec<Value> {
        let ids = ["a", "b"];
        let mut alphabet: Vec<Op> = Vec::new();
        for id in ids {
            let id = id.to_string();
            for t in [T::A1, T::A2, T::CP] {
                alphabet.push(Op::Load(t, id.clone()));
                alphabet.push(Op::LoadOwned(t, id.clone()));
            }
            for t in [T::A1, T::A2, T::CP, T::S1] {
                alphabet.push(Op::GetCached(t, id.clone()));
                alphabet.push(Op::GetOrInsert(t, id.clone(), 1));
                alphabet.push(Op::Contains(t, id.clone()));
                alphabet.push(Op::Remove(t, id.clone()));
                alphabet.push(Op::Take(t, id.clone()));
            }
        }
        alphabet.push(Op::Clear);
        alphabet.push(Op::Load(T::RE, "a".to_string()));
        alphabet.push(Op::LoadOwned(T::RE, "a".to_string()));
        alphabet.push(Op::GetCached(T::RE, "a".to_string()));
        alphabet.push(Op::Load(T::Dir, String::new()));
        alphabet.push(Op::Load(T::Rec, String::new()));
        let max_len = if tier == Tier::Quick { 2 } else { 3 };
        let mut files = BTreeMap::new();
        files.insert("a".to_string(), FileState::Valid(0));
        files.insert("b".to_string(), FileState::Bad);
        files.insert("a_n".to_string(), FileState::Valid(1));
        files.insert("d.a".to_string(), FileState::Valid(2));
        let mut out = Vec::new();
        let mut frontier: Vec<Vec<Op>> = vec![vec![]];
        for _ in 0..max_len {
            let mut next = Vec::new();
            for s in &frontier {
                for op in &alphabet {
                    let mut t = s.clone();
                    t.push(op.clone());
                    next.push(t);
                }
            }
            for s in &next {
                out.push(to_case(&Case { files: files.clone(), dirs: vec![], ops: s.clone(), cpus: 0 }));
            }
            frontier = next;
        }
        out
    }

    fn enumerate_note(&self, tier: Tier) -> String {
        format!(
            "every op sequence of length <= {} over a 58-op alphabet (2 ids x 4 types x all operations, clear, root directory loads) on a fixed source (a valid, b undecodable)",
            if tier == Tier::Quick { 2 } else { 3 }
        )
    }

    fn run(&self, case: &Value) -> Outcome {
        let c: Case = from_case(case);
        let mut out = Outcome::new();
        for f in FRONTS {
            run_front(f, &c, &mut out);
            if out.failed() {
                break;
            }
        }
        out.nontrivial = nontrivial(&c);
        if out.nontrivial {
            out.label("mutation-after-insert/two-types");
        }
        if c.ops.iter().any(|o| matches!(o, Op::Load(T::Dir | T::Rec, _))) {
            out.label("dir-load");
        }
        if c.ops.iter().any(|o| matches!(o, Op::Load(T::CP, _) | Op::LoadOwned(T::CP, _))) {
            out.label("compound");
        }
        if c.cpus != 0 && !c.cpus.is_power_of_two() {
            out.label("shards-not-power-of-two-cpus");
        }
        if c.ops.iter().any(|o| matches!(o, Op::Load(_, id) | Op::GetOrInsert(_, id, _) if id.starts_with('.') || id.ends_with('.') || id.contains("..") || id.contains('/'))) {
            out.label("id-with-empty-component");
        }
        out
    }

    fn required_labels(&self) -> Vec<&'static str> {
        vec!["mutation-after-insert/two-types", "dir-load", "compound", "notify-strict", "shards-not-power-of-two-cpus", "id-with-empty-component"]
    }
}

/// Fuzz decoder.
pub fn decode(u: &mut arbitrary::Unstructured) -> arbitrary::Result<Value> {
    let mut files = BTreeMap::new();
    for id in IDS {
        match u.int_in_range(0..=3)? {
            0 | 1 => {
                files.insert(id.to_string(), FileState::Valid(u.int_in_range(0..=2)?));
            }
            2 => {
                files.insert(id.to_string(), FileState::Bad);
            }
            _ => {}
        }
    }
    let mut dirs = Vec::new();
    for d in ["g", "d.e", "h.i"] {
        if u.arbitrary()? {
            dirs.push(d.to_string());
        }
    }
    let types = [T::A1, T::A2, T::CP, T::S1, T::RE];
    let mut ops = Vec::new();
    for _ in 0..u.int_in_range(1..=50)? {
        let t = types[u.int_in_range(0..=4)?];
        let loadable = if t == T::S1 { T::A1 } else { t };
        let id = IDS[u.int_in_range(0..=IDS.len() - 1)?].to_string();
        let dir = DIR_IDS[u.int_in_range(0..=DIR_IDS.len() - 1)?].to_string();
        let dt = if u.arbitrary()? { T::Dir } else { T::Rec };
        ops.push(match u.int_in_range(0..=13)? {
            13 => Op::Notify(id),
            0 | 1 => Op::Load(loadable, id),
            2 => Op::LoadOwned(loadable, id),
            3 => Op::GetCached(t, id),
            4 | 5 => Op::GetOrInsert(t, id, u.int_in_range(0..=3)?),
            6 => Op::Contains(t, id),
            7 => Op::Remove(t, id),
            8 => Op::Take(t, id),
            9 => Op::Clear,
            10 => Op::Load(dt, dir),
            11 => Op::Remove(dt, dir),
            _ => Op::Take(dt, dir),
        });
    }
    let cpus = [0u8, 0, 1, 2, 3, 5, 6, 7][u.int_in_range(0..=7)?];
    Ok(to_case(&Case { files, dirs, ops, cpus }))
}
