//! C16 - SharedBytes / SharedString are immutable shared buffers.

use crate::calloc;
use crate::engine::{from_case, to_case, Outcome, Plan, Prop, Tier};
use assets_manager::{SharedBytes, SharedString};
use proptest::prelude::*;
use serde::de::IntoDeserializer;
use serde::{Deserialize, Serialize};
use serde_json::Value;
use std::borrow::Cow;
use std::collections::hash_map::DefaultHasher;
use std::hash::{Hash, Hasher};

#[derive(Debug, Clone, Serialize, Deserialize)]
pub enum BCtor {
    Slice,
    Vec { extra_cap: u8 },
    Boxed,
    CowBorrowed,
    CowOwned { extra_cap: u8 },
    Iter,
    /// an iterator whose size_hint claims `len + delta` elements (exactly, if `exact`)
    IterHint { delta: i8, exact: bool },
    FromRef,
    DeBytes,
    DeByteBuf { extra_cap: u8 },
    DeStr,
    DeString,
}

#[derive(Debug, Clone, Serialize, Deserialize)]
pub enum SCtor {
    FromUtf8 { vec_backed: bool },
    FromString { extra_cap: u8 },
    FromStr,
    CowBorrowed,
    CowOwned,
    DeStr,
    DeString,
    DeBytes,
    DeByteBuf,
    Json,
}

#[derive(Debug, Clone, Serialize, Deserialize)]
pub enum Op {
    NewBytes(BCtor, Vec<u8>),
    /// string constructors get raw bytes: they may be invalid UTF-8
    NewStr(SCtor, Vec<u8>),
    Clone(u16),
    /// `pool[a].clone_from(&pool[b])` (same kind only): a now aliases b's buffer, a's old buffer lost one owner
    CloneFrom(u16, u16),
    Drop(u16),
    DropOnThread(u16),
    Compare(u16, u16),
    CompareSlice(u16, Vec<u8>),
    HashIt(u16),
    IntoBytes(u16),
    ToStringOp(u16),
    Storm { h: u16, threads: u8, iters: u8 },
    /// `rounds` fresh buffers with exactly two handles each; two threads drop the last two handles
    /// of every buffer at the same instant (spin rendezvous)
    RaceDrop { rounds: u16, vec_backed: bool, len: u8 },
}

#[derive(Debug, Clone, Serialize, Deserialize)]
pub struct Case {
    ops: Vec<Op>,
}

enum H {
    B(SharedBytes, Vec<u8>),
    S(SharedString, String),
}

impl H {
    fn bytes(&self) -> &[u8] {
        match self {
            H::B(b, _) => b,
            H::S(s, _) => s.as_bytes(),
        }
    }
    fn model(&self) -> &[u8] {
        match self {
            H::B(_, m) => m,
            H::S(_, m) => m.as_bytes(),
        }
    }
}

/// A deserializer that calls exactly one visitor method with the given data.
enum OneShot {
    Bytes(Vec<u8>),
    ByteBuf(Vec<u8>),
    Str(String),
    String(String),
}

impl<'de> serde::Deserializer<'de> for OneShot {
    type Error = serde::de::value::Error;
    fn deserialize_any<V: serde::de::Visitor<'de>>(self, v: V) -> Result<V::Value, Self::Error> {
        match self {
            OneShot::Bytes(b) => v.visit_bytes(&b),
            OneShot::ByteBuf(b) => v.visit_byte_buf(b),
            OneShot::Str(s) => v.visit_str(&s),
            OneShot::String(s) => v.visit_string(s),
        }
    }
    serde::forward_to_deserialize_any! {
        bool i8 i16 i32 i64 i128 u8 u16 u32 u64 u128 f32 f64 char str string
        bytes byte_buf option unit unit_struct newtype_struct seq tuple
        tuple_struct map struct enum identifier ignored_any
    }
}

fn vec_with_cap(bytes: &[u8], extra: u8) -> Vec<u8> {
    let mut v = Vec::with_capacity(bytes.len() + extra as usize);
    v.extend_from_slice(bytes);
    v
}

fn hash_of<T: Hash + ?Sized>(t: &T) -> u64 {
    let mut h = DefaultHasher::new();
    t.hash(&mut h);
    h.finish()
}

pub struct C16;

fn bytes_strategy() -> impl Strategy<Value = Vec<u8>> {
    prop_oneof![
        3 => Just(Vec::new()),
        10 => prop::collection::vec(any::<u8>(), 0..24),
        4 => prop::collection::vec(any::<u8>(), 24..300),
        1 => prop::collection::vec(any::<u8>(), 3000..5000),
        // valid utf-8 of various widths
        8 => "[a-zé€𝄞 ]{0,12}".prop_map(|s| s.into_bytes()),
        // truncated multi-byte sequence at the end
        3 => ("[a-z€𝄞]{1,6}", 1usize..3).prop_map(|(s, cut)| {
            let mut b = format!("{s}€").into_bytes();
            let n = b.len();
            b.truncate(n - cut);
            b
        }),
        // invalid byte inside
        3 => ("[a-z]{0,6}", prop_oneof![Just(0xFFu8), Just(0xC0), Just(0x80), Just(0xF8)], "[a-z]{0,6}")
            .prop_map(|(a, x, b)| { let mut v = a.into_bytes(); v.push(x); v.extend(b.into_bytes()); v }),
    ]
}

fn bctor() -> impl Strategy<Value = BCtor> {
    prop_oneof![
        Just(BCtor::Slice),
        (0u8..4).prop_map(|e| BCtor::Vec { extra_cap: e * 7 }),
        Just(BCtor::Boxed),
        Just(BCtor::CowBorrowed),
        (0u8..3).prop_map(|e| BCtor::CowOwned { extra_cap: e * 5 }),
        Just(BCtor::Iter),
        (-3i8..4, any::<bool>()).prop_map(|(delta, exact)| BCtor::IterHint { delta, exact }),
        Just(BCtor::FromRef),
        Just(BCtor::DeBytes),
        (0u8..3).prop_map(|e| BCtor::DeByteBuf { extra_cap: e * 9 }),
        Just(BCtor::DeStr),
        Just(BCtor::DeString),
    ]
}

fn sctor() -> impl Strategy<Value = SCtor> {
    prop_oneof![
        any::<bool>().prop_map(|v| SCtor::FromUtf8 { vec_backed: v }),
        (0u8..3).prop_map(|e| SCtor::FromString { extra_cap: e * 11 }),
        Just(SCtor::FromStr),
        Just(SCtor::CowBorrowed),
        Just(SCtor::CowOwned),
        Just(SCtor::DeStr),
        Just(SCtor::DeString),
        Just(SCtor::DeBytes),
        Just(SCtor::DeByteBuf),
        Just(SCtor::Json),
    ]
}

fn op_strategy() -> impl Strategy<Value = Op> {
    prop_oneof![
        6 => (bctor(), bytes_strategy()).prop_map(|(c, b)| Op::NewBytes(c, b)),
        6 => (sctor(), bytes_strategy()).prop_map(|(c, b)| Op::NewStr(c, b)),
        6 => any::<u16>().prop_map(Op::Clone),
        3 => (any::<u16>(), any::<u16>()).prop_map(|(a, b)| Op::CloneFrom(a, b)),
        6 => any::<u16>().prop_map(Op::Drop),
        3 => any::<u16>().prop_map(Op::DropOnThread),
        3 => (any::<u16>(), any::<u16>()).prop_map(|(a, b)| Op::Compare(a, b)),
        2 => (any::<u16>(), bytes_strategy()).prop_map(|(a, b)| Op::CompareSlice(a, b)),
        2 => any::<u16>().prop_map(Op::HashIt),
        2 => any::<u16>().prop_map(Op::IntoBytes),
        1 => any::<u16>().prop_map(Op::ToStringOp),
        1 => (any::<u16>(), 2u8..6, 1u8..40).prop_map(|(h, threads, iters)| Op::Storm { h, threads, iters }),
    ]
}

struct Flags {
    cross_thread: bool,
    zero_cap: bool,
    invalid_utf8: bool,
    storm: bool,
    race_drop: bool,
}

fn run_ops(c: &Case, flags: &mut Flags) -> Result<(), (String, String)> {
    let mut pool: Vec<H> = Vec::new();
    macro_rules! fail {
        ($sig:expr, $($fmt:tt)+) => { return Err(($sig.to_string(), format!($($fmt)+))) };
    }
    fn pick(pool: &[H], i: u16) -> Option<usize> {
        if pool.is_empty() {
            None
        } else {
            Some(super::common::pick(i, pool.len()))
        }
    }
    for (k, op) in c.ops.iter().enumerate() {
        match op {
            Op::NewBytes(ctor, bytes) => {
                if bytes.is_empty() {
                    if let BCtor::Vec { extra_cap: 0 } | BCtor::Boxed | BCtor::Iter = ctor {
                        flags.zero_cap = true;
                    }
                }
                let mut model = bytes.clone();
                let b: SharedBytes = match ctor {
                    BCtor::Slice => SharedBytes::from_slice(bytes),
                    BCtor::Vec { extra_cap } => SharedBytes::from_vec(vec_with_cap(bytes, *extra_cap)),
                    BCtor::Boxed => SharedBytes::from(bytes.clone().into_boxed_slice()),
                    BCtor::CowBorrowed => SharedBytes::from(Cow::Borrowed(&bytes[..])),
                    BCtor::CowOwned { extra_cap } => SharedBytes::from(Cow::<[u8]>::Owned(vec_with_cap(bytes, *extra_cap))),
                    BCtor::Iter => bytes.iter().copied().collect(),
                    BCtor::IterHint { delta, exact } => {
                        struct Lying<'a>(std::slice::Iter<'a, u8>, usize, bool);
                        impl Iterator for Lying<'_> {
                            type Item = u8;
                            fn next(&mut self) -> Option<u8> {
                                self.0.next().copied()
                            }
                            fn size_hint(&self) -> (usize, Option<usize>) {
                                if self.2 { (self.1, Some(self.1)) } else { (0, Some(self.1)) }
                            }
                        }
                        let claim = (bytes.len() as i64 + *delta as i64).max(0) as usize;
                        Lying(bytes.iter(), claim, *exact).collect()
                    }
                    BCtor::FromRef => {
                        let tmp = SharedBytes::from_slice(bytes);
                        let b = SharedBytes::from(&tmp);
                        if b.as_ptr() != tmp.as_ptr() {
                            fail!("clone-not-aliasing", "step {k}: From<&SharedBytes> does not alias its source");
                        }
                        drop(tmp);
                        b
                    }
                    BCtor::DeBytes => match SharedBytes::deserialize(OneShot::Bytes(bytes.clone())) {
                        Ok(b) => b,
                        Err(e) => fail!("de-bytes-error", "step {k}: deserialising SharedBytes from bytes failed: {e}"),
                    },
                    BCtor::DeByteBuf { extra_cap } => match SharedBytes::deserialize(OneShot::ByteBuf(vec_with_cap(bytes, *extra_cap))) {
                        Ok(b) => b,
                        Err(e) => fail!("de-bytes-error", "step {k}: deserialising SharedBytes from a byte buffer failed: {e}"),
                    },
                    BCtor::DeStr | BCtor::DeString => {
                        let s = String::from_utf8_lossy(bytes).into_owned();
                        model = s.clone().into_bytes();
                        let d = if matches!(ctor, BCtor::DeStr) { OneShot::Str(s) } else { OneShot::String(s) };
                        match SharedBytes::deserialize(d) {
                            Ok(b) => b,
                            Err(e) => fail!("de-bytes-error", "step {k}: deserialising SharedBytes from a string failed: {e}"),
                        }
                    }
                };
                pool.push(H::B(b, model));
            }
            Op::NewStr(ctor, bytes) => {
                let valid = std::str::from_utf8(bytes).is_ok();
                if !valid {
                    flags.invalid_utf8 = true;
                }
                // constructors that take a &str/String can only be fed valid input
                let lossy = String::from_utf8_lossy(bytes).into_owned();
                let res: Result<SharedString, String> = match ctor {
                    SCtor::FromUtf8 { vec_backed } => {
                        let b = if *vec_backed { SharedBytes::from_vec(bytes.clone()) } else { SharedBytes::from_slice(bytes) };
                        SharedString::from_utf8(b).map_err(|e| e.to_string())
                    }
                    SCtor::DeBytes => SharedString::deserialize(OneShot::Bytes(bytes.clone())).map_err(|e| e.to_string()),
                    SCtor::DeByteBuf => SharedString::deserialize(OneShot::ByteBuf(bytes.clone())).map_err(|e| e.to_string()),
                    _ => {
                        let s = lossy.clone();
                        Ok(match ctor {
                            SCtor::FromString { extra_cap } => {
                                let mut t = String::with_capacity(s.len() + *extra_cap as usize);
                                t.push_str(&s);
                                SharedString::from(t)
                            }
                            SCtor::FromStr => SharedString::from(s.as_str()),
                            SCtor::CowBorrowed => SharedString::from(Cow::Borrowed(s.as_str())),
                            SCtor::CowOwned => SharedString::from(Cow::<str>::Owned(s.clone())),
                            SCtor::DeStr => match SharedString::deserialize(OneShot::Str(s.clone())) {
                                Ok(v) => v,
                                Err(e) => fail!("de-str-error", "step {k}: deserialising a SharedString from a str failed: {e}"),
                            },
                            SCtor::DeString => match SharedString::deserialize(OneShot::String(s.clone())) {
                                Ok(v) => v,
                                Err(e) => fail!("de-str-error", "step {k}: deserialising a SharedString from a String failed: {e}"),
                            },
                            SCtor::Json => {
                                let js = serde_json::to_string(&s).unwrap();
                                let v: SharedString = match serde_json::from_str(&js) {
                                    Ok(v) => v,
                                    Err(e) => fail!("de-str-error", "step {k}: deserialising a SharedString from JSON failed: {e}"),
                                };
                                let back = serde_json::to_string(&v).unwrap();
                                if back != js {
                                    fail!("serde-roundtrip", "step {k}: SharedString JSON round trip changed {js} into {back}");
                                }
                                let d: Result<String, serde::de::value::Error> = String::deserialize(v.as_str().into_deserializer());
                                if d.ok().as_deref() != Some(s.as_str()) {
                                    fail!("serde-roundtrip", "step {k}: as_str() of a deserialised SharedString differs");
                                }
                                v
                            }
                            _ => unreachable!(),
                        })
                    }
                };
                let takes_raw = matches!(ctor, SCtor::FromUtf8 { .. } | SCtor::DeBytes | SCtor::DeByteBuf);
                match res {
                    Ok(s) => {
                        if takes_raw && !valid {
                            fail!("invalid-utf8-accepted", "step {k}: {ctor:?} accepted invalid UTF-8 {:?}", bytes);
                        }
                        let model = if takes_raw { String::from_utf8(bytes.clone()).unwrap() } else { lossy };
                        if std::str::from_utf8(s.as_bytes()).is_err() {
                            fail!("string-not-utf8", "step {k}: a SharedString does not hold valid UTF-8");
                        }
                        pool.push(H::S(s, model));
                    }
                    Err(e) => {
                        if valid {
                            fail!("valid-utf8-rejected", "step {k}: {ctor:?} rejected valid UTF-8 {:?}: {e}", bytes);
                        }
                    }
                }
            }
            Op::Clone(i) => {
                if let Some(i) = pick(&pool, *i) {
                    let h = match &pool[i] {
                        H::B(b, m) => {
                            let c = b.clone();
                            if c.as_ptr() != b.as_ptr() {
                                fail!("clone-not-aliasing", "step {k}: a clone does not alias the original buffer");
                            }
                            H::B(c, m.clone())
                        }
                        H::S(s, m) => {
                            let c = s.clone();
                            if c.as_ptr() != s.as_ptr() {
                                fail!("clone-not-aliasing", "step {k}: a string clone does not alias the original buffer");
                            }
                            H::S(c, m.clone())
                        }
                    };
                    pool.push(h);
                }
            }
            Op::CloneFrom(a, b) => {
                if let (Some(a), Some(b)) = (pick(&pool, *a), pick(&pool, *b)) {
                    if a != b {
                        // take b's handle out to borrow both
                        let src = pool.swap_remove(b);
                        let a = if a == pool.len() { b } else { a };
                        match (&mut pool[a], &src) {
                            (H::B(x, mx), H::B(y, my)) => {
                                x.clone_from(y);
                                *mx = my.clone();
                                if x.as_ptr() != y.as_ptr() {
                                    fail!("clone-not-aliasing", "step {k}: after a.clone_from(&b) a does not alias b's buffer");
                                }
                            }
                            (H::S(x, mx), H::S(y, my)) => {
                                x.clone_from(y);
                                *mx = my.clone();
                                if x.as_ptr() != y.as_ptr() {
                                    fail!("clone-not-aliasing", "step {k}: after a.clone_from(&b) the string a does not alias b's buffer");
                                }
                            }
                            _ => {}
                        }
                        pool.push(src);
                    }
                }
            }
            Op::Drop(i) => {
                if let Some(i) = pick(&pool, *i) {
                    drop(pool.swap_remove(i));
                }
            }
            Op::DropOnThread(i) => {
                if let Some(i) = pick(&pool, *i) {
                    flags.cross_thread = true;
                    let h = pool.swap_remove(i);
                    let ok = std::thread::spawn(move || {
                        let ok = h.bytes() == h.model();
                        drop(h);
                        ok
                    })
                    .join()
                    .unwrap_or(false);
                    if !ok {
                        fail!("content-mismatch", "step {k}: a handle moved to another thread does not read its source bytes");
                    }
                }
            }
            Op::Compare(a, b) => {
                if let (Some(a), Some(b)) = (pick(&pool, *a), pick(&pool, *b)) {
                    match (&pool[a], &pool[b]) {
                        (H::B(x, mx), H::B(y, my)) => {
                            if (x == y) != (mx == my) || x.cmp(y) != mx.cmp(my) || x.partial_cmp(y) != mx.partial_cmp(my) {
                                fail!("compare-mismatch", "step {k}: SharedBytes ==/cmp disagree with the slices {:?} vs {:?}", mx, my);
                            }
                        }
                        (H::S(x, mx), H::S(y, my)) => {
                            if (x == y) != (mx == my) || x.cmp(y) != mx.cmp(my) || x.partial_cmp(y) != mx.partial_cmp(my) {
                                fail!("compare-mismatch", "step {k}: SharedString ==/cmp disagree with the strs {:?} vs {:?}", mx, my);
                            }
                        }
                        _ => {}
                    }
                }
            }
            Op::CompareSlice(a, other) => {
                if let Some(a) = pick(&pool, *a) {
                    match &pool[a] {
                        H::B(x, m) => {
                            let o: &[u8] = other;
                            let ok = (*x == *o) == (m[..] == *o)
                                && (*x == o) == (m[..] == *o)
                                && (*x == other.clone()) == (m == other)
                                && x.partial_cmp(o) == Some(m[..].cmp(o));
                            if !ok {
                                fail!("compare-mismatch", "step {k}: SharedBytes compared with a slice disagrees with the slices");
                            }
                        }
                        H::S(x, m) => {
                            let o = String::from_utf8_lossy(other).into_owned();
                            let ok = (*x == *o.as_str()) == (m == &o)
                                && (*x == o.as_str()) == (m == &o)
                                && (*x == o) == (m == &o)
                                && x.partial_cmp(o.as_str()) == Some(m.as_str().cmp(o.as_str()));
                            if !ok {
                                fail!("compare-mismatch", "step {k}: SharedString compared with a str disagrees with the strs");
                            }
                        }
                    }
                }
            }
            Op::HashIt(a) => {
                if let Some(a) = pick(&pool, *a) {
                    let ok = match &pool[a] {
                        H::B(x, m) => hash_of(x) == hash_of(&m[..]),
                        H::S(x, m) => hash_of(x) == hash_of(m.as_str()),
                    };
                    if !ok {
                        fail!("hash-mismatch", "step {k}: the hash differs from the hash of the slice");
                    }
                }
            }
            Op::IntoBytes(a) => {
                if let Some(a) = pick(&pool, *a) {
                    if let H::S(..) = &pool[a] {
                        if let H::S(s, m) = pool.swap_remove(a) {
                            let p = s.as_ptr();
                            let b = s.into_bytes();
                            if b.as_ptr() != p {
                                fail!("clone-not-aliasing", "step {k}: into_bytes copied the buffer");
                            }
                            pool.push(H::B(b, m.into_bytes()));
                        }
                    }
                }
            }
            Op::ToStringOp(a) => {
                if let Some(a) = pick(&pool, *a) {
                    if let H::S(s, m) = &pool[a] {
                        #[allow(clippy::inherent_to_string_shadow_display)]
                        let t = s.to_string();
                        if &t != m || format!("{s}") != *m || s.as_str() != m {
                            fail!("content-mismatch", "step {k}: to_string/Display/as_str differ from the source string");
                        }
                    }
                }
            }
            Op::Storm { h, threads, iters } => {
                if let Some(i) = pick(&pool, *h) {
                    flags.storm = true;
                    flags.cross_thread = true;
                    let mut joins = Vec::new();
                    for t in 0..*threads {
                        let (hb, model): (SharedBytes, Vec<u8>) = match &pool[i] {
                            H::B(b, m) => (b.clone(), m.clone()),
                            H::S(s, m) => (s.clone().into_bytes(), m.clone().into_bytes()),
                        };
                        let iters = *iters as usize;
                        joins.push(std::thread::spawn(move || {
                            let mut held = Vec::new();
                            let mut ok = true;
                            for j in 0..iters {
                                held.push(hb.clone());
                                if (j + t as usize) % 3 == 0 {
                                    held.pop();
                                    held.pop();
                                }
                                ok &= hb[..] == model[..];
                            }
                            for c in held {
                                ok &= c[..] == model[..];
                            }
                            ok
                        }));
                    }
                    let mut ok = true;
                    for j in joins {
                        ok &= j.join().unwrap_or(false);
                    }
                    if !ok {
                        fail!("content-mismatch", "step {k}: a clone read different bytes during a cross-thread clone/drop storm");
                    }
                }
            }
            Op::RaceDrop { rounds, vec_backed, len } => {
                flags.cross_thread = true;
                flags.race_drop = true;
                let data: Vec<u8> = (0..*len).collect();
                let mut a = Vec::with_capacity(*rounds as usize);
                let mut b = Vec::with_capacity(*rounds as usize);
                for _ in 0..*rounds {
                    let x = if *vec_backed { SharedBytes::from_vec(vec_with_cap(&data, 5)) } else { SharedBytes::from_slice(&data) };
                    b.push(x.clone());
                    a.push(x);
                }
                let sb = std::sync::Arc::new(super::common::SpinBarrier::new(2));
                let mut joins = Vec::new();
                for handles in [a, b] {
                    let sb = sb.clone();
                    let data = data.clone();
                    joins.push(std::thread::spawn(move || {
                        let mut ok = true;
                        for h in handles {
                            ok &= h[..] == data[..];
                            sb.wait();
                            drop(h);
                        }
                        ok
                    }));
                }
                let mut ok = true;
                for j in joins {
                    ok &= j.join().unwrap_or(false);
                }
                if !ok {
                    fail!("content-mismatch", "step {k}: a handle read different bytes just before a racing final drop");
                }
            }
        }
        // invariant after every step: every live handle reads its source
        for (n, h) in pool.iter().enumerate() {
            if h.bytes() != h.model() {
                fail!("content-mismatch", "step {k} ({op:?}): handle #{n} reads {:?} but was built from {:?}", h.bytes(), h.model());
            }
        }
        if calloc::error_count() != 0 {
            fail!("allocator", "step {k} ({op:?}): {}", calloc::describe_errors());
        }
    }
    drop(pool);
    if calloc::error_count() != 0 {
        fail!("allocator", "after dropping all handles: {}", calloc::describe_errors());
    }
    Ok(())
}

impl Prop for C16 {
    fn id(&self) -> &'static str {
        "C16"
    }

    fn rule(&self) -> String {
        "cases = op sequences (<= 40 ops) over a pool of SharedBytes/SharedString handles: every constructor path \
         (slice, Vec with/without spare capacity, empty Vec with capacity 0, Box, both Cow arms, iterator, From<&SharedBytes>, \
         the four serde visitor methods, JSON), clone, clone_from, drop, drop on another thread, compare/order/hash, into_bytes, to_string, \
         cross-thread clone/drop storms, racing final drops (two threads drop the last two handles of 100..1500 buffers at the same instant), iterators with wrong size hints; byte inputs include empty, long, valid multi-byte, truncated and invalid UTF-8. \
         Every case ends with two Vec-backed buffers built while the allocator serves small blocks from a packed arena of 32-byte slots (no in-band headers, last freed slot first), so that the header from_vec allocates lies directly in front of the Vec's data, and with a thread whose thread-local destructor drops the last clones of a buffer and a string. \
         Oracle: Vec<u8>/String model per handle + checking allocator (layout on free, double free, poison, live blocks). \
         non-trivial = a handle dropped on another thread, or the zero-capacity Vec path, or an invalid UTF-8 input; \
         distinct = different canonical JSON"
            .into()
    }

    fn assumptions(&self) -> Vec<String> {
        vec![
            "thread interleavings in clone/drop storms are sampled, not enumerated".into(),
            "leak detection counts blocks allocated by the case's own thread; a leak is reported only if it repeats on three consecutive executions of the case".into(),
        ]
    }

    fn plan(&self, tier: Tier) -> Plan {
        let mut p = Plan::new(match tier {
            Tier::Quick => 12_000,
            Tier::Thorough => 400_000,
        });
        p.workers = 16;
        p
    }

    fn strategy(&self, _tier: Tier) -> BoxedStrategy<Value> {
        let race = prop_oneof![
            9 => Just(None),
            1 => (100u16..1200, any::<bool>(), 0u8..40).prop_map(|(rounds, vec_backed, len)| Some(Op::RaceDrop { rounds, vec_backed, len })),
        ];
        (prop::collection::vec(op_strategy(), 1..40), race)
            .prop_map(|(mut ops, race)| {
                ops.extend(race);
                to_case(&Case { ops })
            })
            .boxed()
    }

    fn run(&self, case: &Value) -> Outcome {
        let c: Case = from_case(case);
        let mut out = Outcome::new();
        calloc::reset_errors();
        let mut flags = Flags { cross_thread: false, zero_cap: false, invalid_utf8: false, storm: false, race_drop: false };
        let mut leaks = 0;
        for attempt in 0..3 {
            calloc::new_scope_generation();
            let r = calloc::scoped(|| run_ops(&c, &mut flags));
            if let Err((sig, what)) = r {
                out.fail(sig, what);
                break;
            }
            let (blocks, bytes) = calloc::scoped_live();
            if calloc::installed() && blocks != 0 {
                leaks += 1;
                if attempt == 2 && leaks == 3 {
                    out.fail("leak", format!("{blocks} block(s) / {bytes} bytes allocated by the case are still alive after every handle was dropped (3 executions in a row)"));
                }
            } else {
                break;
            }
        }
        if !out.failed() && calloc::installed() {
            let content: Vec<u8> = c
                .ops
                .iter()
                .find_map(|op| match op {
                    Op::NewBytes(_, b) if !b.is_empty() => Some(b.clone()),
                    _ => None,
                })
                .unwrap_or_else(|| b"neighbours".to_vec());
            match packed_neighbours(&content) {
                Ok(true) => out.label("header-directly-before-data"),
                Ok(false) => {}
                Err((sig, what)) => out.fail(sig, what),
            }
            if !out.failed() {
                if let Err((sig, what)) = dropped_by_thread_local_destructor(&content) {
                    out.fail(sig, what);
                }
            }
        }
        if flags.cross_thread {
            out.label("cross-thread-drop");
        }
        if flags.zero_cap {
            out.label("zero-capacity-vec");
        }
        if flags.invalid_utf8 {
            out.label("invalid-utf8");
        }
        if flags.storm {
            out.label("storm");
        }
        if flags.race_drop {
            out.label("race-drop");
        }
        out.nontrivial = flags.cross_thread || flags.zero_cap || flags.invalid_utf8;
        out
    }

    fn required_labels(&self) -> Vec<&'static str> {
        vec!["cross-thread-drop", "zero-capacity-vec", "invalid-utf8", "header-directly-before-data"]
    }
}

/// With an allocator that packs equal-sized blocks (size classes, slabs), the header that `from_vec` allocates can
/// land directly in front of the Vec's data. The buffer is Vec-backed all the same: same content, both blocks
/// released with their own layouts. Returns whether the two blocks really were neighbours.
fn packed_neighbours(content: &[u8]) -> Result<bool, (String, String)> {
    let content = &content[..content.len().min(32)];
    let (neighbours, ok, before, after) = calloc::packed(|| {
        let mut before = 0;
        let mut neighbours = false;
        let mut ok = true;
        // (the first two rounds warm up whatever the implementation may keep per thread; the last two are measured)
        for (round, cap) in [32usize, content.len().max(1), 32usize, content.len().max(1)].into_iter().enumerate() {
            if round == 2 {
                before = calloc::packed_live();
            }
            let a: Vec<u8> = Vec::with_capacity(32);
            let mut v: Vec<u8> = Vec::with_capacity(cap);
            let n = content.len().min(cap);
            v.extend_from_slice(&content[..n]);
            let a_at = a.as_ptr() as usize;
            // the slot of `a` is the next one to be handed out
            drop(a);
            let sb = SharedBytes::from_vec(v);
            neighbours |= sb.as_ptr() as usize == a_at + 32;
            let c2 = sb.clone();
            ok &= *sb == content[..n] && *c2 == content[..n];
            drop(sb);
            drop(c2);
        }
        (neighbours, ok, before, calloc::packed_live())
    });
    if !ok {
        return Err(("content-mismatch".into(), "a Vec-backed SharedBytes whose header was allocated directly in front of the Vec's data does not read the Vec's bytes".into()));
    }
    if calloc::error_count() != 0 {
        return Err(("allocator".into(), format!("Vec-backed SharedBytes whose header was allocated directly in front of the Vec's data (packed allocator): {}", calloc::describe_errors())));
    }
    if after != before {
        return Err(("leak".into(), format!("Vec-backed SharedBytes whose header was allocated directly in front of the Vec's data (packed allocator): {} block(s) still alive after every clone was dropped", after - before)));
    }
    Ok(neighbours)
}

/// The last clone of a Vec-backed buffer is dropped by the destructor of a thread-local of a thread that is
/// exiting - a thread-local that was first used before the thread built any buffer, so that it is destroyed after
/// whatever the implementation itself keeps per thread. (A failure here aborts the process: the engine reports it.)
fn dropped_by_thread_local_destructor(content: &[u8]) -> Result<(), (String, String)> {
    thread_local! {
        static LAST: std::cell::RefCell<Option<(SharedBytes, SharedString)>> = const { std::cell::RefCell::new(None) };
    }
    let content = content.to_vec();
    let r = std::thread::spawn(move || {
        LAST.with(|l| l.borrow().is_none());
        let mut v = Vec::with_capacity(content.len() + 9);
        v.extend_from_slice(&content);
        let b = SharedBytes::from_vec(v);
        let s = SharedString::from(String::from("kept until the thread is gone"));
        let ok = *b == content[..];
        LAST.with(|l| *l.borrow_mut() = Some((b.clone(), s.clone())));
        drop((b, s));
        ok
    })
    .join();
    match r {
        Ok(true) => Ok(()),
        Ok(false) => Err(("content-mismatch".into(), "a Vec-backed SharedBytes built on a short-lived thread does not read the Vec's bytes".into())),
        Err(_) => Err(("panic".into(), "a thread that keeps the last clone of a buffer in a thread-local panicked".into())),
    }
}

/// Fuzz decoder: libFuzzer bytes -> a case (the byte payloads of the ops are taken verbatim from the input,
/// so that the fuzzer mutates the UTF-8 edge cases directly).
pub fn decode(u: &mut arbitrary::Unstructured) -> arbitrary::Result<Value> {
    let n = u.int_in_range(1..=30)?;
    let mut ops = Vec::new();
    for _ in 0..n {
        let payload = |u: &mut arbitrary::Unstructured| -> arbitrary::Result<Vec<u8>> {
            let len = u.int_in_range(0..=40)?;
            Ok(u.bytes(len.min(u.len()))?.to_vec())
        };
        let op = match u.int_in_range(0..=10)? {
            0 | 1 => {
                let c = match u.int_in_range(0..=11)? {
                    0 => BCtor::Slice,
                    1 => BCtor::Vec { extra_cap: u.int_in_range(0..=20)? },
                    2 => BCtor::Boxed,
                    3 => BCtor::CowBorrowed,
                    4 => BCtor::CowOwned { extra_cap: u.int_in_range(0..=20)? },
                    5 => BCtor::Iter,
                    6 => BCtor::IterHint { delta: u.int_in_range(-3..=3)?, exact: u.arbitrary()? },
                    7 => BCtor::FromRef,
                    8 => BCtor::DeBytes,
                    9 => BCtor::DeByteBuf { extra_cap: u.int_in_range(0..=20)? },
                    10 => BCtor::DeStr,
                    _ => BCtor::DeString,
                };
                Op::NewBytes(c, payload(u)?)
            }
            2 | 3 => {
                let c = match u.int_in_range(0..=9)? {
                    0 => SCtor::FromUtf8 { vec_backed: u.arbitrary()? },
                    1 => SCtor::FromString { extra_cap: u.int_in_range(0..=20)? },
                    2 => SCtor::FromStr,
                    3 => SCtor::CowBorrowed,
                    4 => SCtor::CowOwned,
                    5 => SCtor::DeStr,
                    6 => SCtor::DeString,
                    7 => SCtor::DeBytes,
                    8 => SCtor::DeByteBuf,
                    _ => SCtor::Json,
                };
                Op::NewStr(c, payload(u)?)
            }
            4 => if u.arbitrary::<bool>()? { Op::Clone(u.arbitrary()?) } else { Op::CloneFrom(u.arbitrary()?, u.arbitrary()?) },
            5 => Op::Drop(u.arbitrary()?),
            6 => Op::Compare(u.arbitrary()?, u.arbitrary()?),
            7 => Op::CompareSlice(u.arbitrary()?, payload(u)?),
            8 => Op::HashIt(u.arbitrary()?),
            9 => Op::IntoBytes(u.arbitrary()?),
            _ => Op::ToStringOp(u.arbitrary()?),
        };
        ops.push(op);
    }
    Ok(to_case(&Case { ops }))
}
