//! C05 - hot-reloading converges: cached values follow the source, transitively.

use super::hot::{self, GenOpts, Runner, WCase};
use crate::engine::{from_case, to_case, Outcome, Plan, Prop, Tier};
use crate::world::{AKey, Kind};
use proptest::prelude::*;
use serde_json::Value;
use std::collections::BTreeMap;

/// The reloader's loop is slowed down at its two schedule points (hook `verif::set_schedule_hook`: timing only),
/// so that "load b; change b; notify; hot_reload" happens while the reloader sits between its request loop and
/// its look at the event channel, right after a request consumed the event that had woken it up. The change of b
/// was notified after b was loaded and before the call: the call must apply it. In every other round the cache
/// is cleared before b is loaded: the notification must not be examined before that (earlier) message either.
fn widened_windows(rounds: u8, p0_us: u16, p1_us: u16, out: &mut Outcome) {
    use crate::memsrc::{MemSource, OwnedEntry, Variant};
    use crate::props::common::Ver;
    use assets_manager::hot_reloading::verif;
    use assets_manager::AssetCache;
    let src = MemSource::new(true);
    let mut cache = AssetCache::with_source(src.handle());
    let put = |id: &str, v: u64| src.tree().put(id, "v", v.to_string().into_bytes(), Variant::Buffer);
    for round in 0..rounds {
        let (ka, kb) = (format!("a{round}"), format!("b{round}"));
        put(&ka, 0);
        put(&kb, 0);
        let Ok(a) = cache.load::<Ver>(&ka) else { return };
        if round % 2 == 1 {
            // variant: b is already registered when the cache is cleared and b is loaded again (below)
            let _ = cache.load::<Ver>(&kb);
        }
        // let the reloader register a (and b) and go back to sleep
        std::thread::sleep(std::time::Duration::from_millis(3));
        verif::set_schedule_hook(Some(std::sync::Arc::new(move |point| {
            std::thread::sleep(std::time::Duration::from_micros(if point == 0 { p0_us } else { p1_us } as u64));
        })));
        put(&ka, 1);
        src.send(&OwnedEntry::File(ka.clone(), "v".into()));
        cache.hot_reload();
        let a_now = a.read().0;
        if round % 2 == 1 {
            // variant: the cache is emptied first (a message that precedes the notification of b's change; examined
            // before that message the notification matches b's old registration and is then forgotten with it)
            cache.clear();
        }
        let Ok(b) = cache.load::<Ver>(&kb) else {
            verif::set_schedule_hook(None);
            return;
        };
        put(&kb, 1);
        src.send(&OwnedEntry::File(kb.clone(), "v".into()));
        cache.hot_reload();
        let b_first = b.read().0;
        let mut calls = 0;
        while b.read().0 != 1 && calls < 300 {
            cache.hot_reload();
            calls += 1;
            std::thread::sleep(std::time::Duration::from_micros(500));
        }
        verif::set_schedule_hook(None);
        if a_now != 1 {
            out.fail("hot-reload-returned-before-notified-change", format!("widened windows, round {round}: {ka} was changed and notified before hot_reload was called, the call returned with the old value"));
            return;
        }
        if b.read().0 != 1 {
            out.fail("reload-lost", format!("widened windows, round {round}: {kb} was loaded, then changed and notified, then hot_reload was called 300 times: the change was never applied (the event was examined before the message that registers {kb} and dropped)"));
            return;
        }
        if b_first != 1 {
            out.fail("hot-reload-returned-before-notified-change", format!("widened windows, round {round}: {kb} was loaded, changed and notified before hot_reload was called; the change was applied only {calls} call(s) later"));
            return;
        }
    }
    // Second half: the same with another thread calling hot_reload all the time, so that the notification of b's
    // change is usually examined by *its* request, before the message that registers b (queued behind that
    // request) was seen: the entry has to be remembered until then.
    let cache = &cache;
    let stop = std::sync::atomic::AtomicBool::new(false);
    let lost = std::thread::scope(|s| {
        s.spawn(|| {
            while !stop.load(std::sync::atomic::Ordering::SeqCst) {
                cache.hot_reload();
            }
        });
        let mut lost = None;
        for round in 0..rounds as u32 * 4 {
            let kb = format!("c{round}");
            put(&kb, 0);
            if round % 8 == 0 {
                verif::set_schedule_hook(Some(std::sync::Arc::new(move |point| {
                    std::thread::sleep(std::time::Duration::from_micros(if point == 0 { p0_us } else { p1_us } as u64 / 4));
                })));
            } else if round % 8 == 4 {
                verif::set_schedule_hook(None);
            }
            let Ok(b) = cache.load::<Ver>(&kb) else { break };
            put(&kb, 1);
            src.send(&OwnedEntry::File(kb.clone(), "v".into()));
            cache.hot_reload();
            let b_first = b.read().0;
            let mut calls = 0;
            while b.read().0 != 1 && calls < 300 {
                cache.hot_reload();
                calls += 1;
                std::thread::sleep(std::time::Duration::from_micros(500));
            }
            if b.read().0 != 1 {
                lost = Some(("reload-lost", format!("widened windows, two threads, round {round}: {kb} was loaded, then changed and notified, then hot_reload was called 300 times while another thread was calling it too: the change was never applied")));
                break;
            }
            if b_first != 1 {
                lost = Some(("hot-reload-returned-before-notified-change", format!("widened windows, two threads, round {round}: {kb} was loaded, changed and notified before hot_reload was called (another thread calling it too); the change was applied only {calls} call(s) later")));
                break;
            }
        }
        stop.store(true, std::sync::atomic::Ordering::SeqCst);
        verif::set_schedule_hook(None);
        lost
    });
    if let Some((sig, what)) = lost {
        out.fail(sig, what);
        return;
    }
    // and the same file notified twice around the load of its asset, behind queued requests
    if let Some((sig, what)) = super::c07::notified_twice_behind_queued_requests() {
        out.fail(sig, what);
        return;
    }
    out.label("widened-reloader-windows");
}

pub struct C05;

pub fn opts(tier: Tier) -> GenOpts {
    GenOpts { blocks: 1, unnotified: false, max_nodes: if tier == Tier::Quick { 6 } else { 9 }, max_steps: if tier == Tier::Quick { 6 } else { 10 }, faults: true }
}

impl Prop for C05 {
    fn id(&self) -> &'static str {
        "C05"
    }

    fn rule(&self) -> String {
        "cases = a generated world (leaf files with two extensions, 1..9 compound nodes whose recipes - stored in the source - load / load_owned / get_cached leaves, lower-numbered nodes (a DAG), \
         directories and raw files, with no_record / thread / other-cache / catch blocks), top-level loads, mode hot_reload() or enhance_hot_reloading, then 1..10 steps; a step = 1..3 edits \
         (value edit, delete, create, recipe rewiring, recipe corruption, new directory / new file in a directory) all notified as a watcher would (entry + parent directory), single or batched, shuffled, with duplicates and noise, \
         followed by a quiescence barrier (sentinel asset notified last; hot_reload until its reload id grows - in hot_reload() mode the very first call must already have applied it: every notification precedes the call). One case in forty ends with the widened-windows scenario (the reloader's loop slowed down at its two schedule points through the hook verif::set_schedule_hook: 'load b; change b; notify; hot_reload' while the reloader sits between its request loop and its look at the event channel): the call must apply the change. Oracle: every cached reloadable asset equals a pure model evaluation of its recipe against the current source \
         and the current values in the real cache (local consistency => global convergence); failing reloads keep the previous value; inside each pass no asset is reloaded before one of its (shadow-recorded) dependencies. \
         non-trivial = some step affects (per the shadow dependency graph) an asset that does not depend directly on a notified entry, or rewires a recipe, or repairs an asset whose previous reload failed; distinct = different canonical JSON"
            .into()
    }

    fn assumptions(&self) -> Vec<String> {
        vec![
            "excluded by construction (counted): assets that tolerated the failure/absence of a nested asset in their latest successful load, or whose latest reload attempt failed, when they differ from the model (not tracked by design); cyclic load recipes".into(),
            "real-filesystem sources are covered by C12's real part, not here; the in-memory source sends the notifications a watcher would".into(),
        ]
    }

    fn plan(&self, tier: Tier) -> Plan {
        let mut p = Plan::new(match tier {
            Tier::Quick => 15000,
            Tier::Thorough => 150_000,
        });
        p.workers = 12;
        p.cases_per_process = 400;
        p
    }

    fn strategy(&self, tier: Tier) -> BoxedStrategy<Value> {
        (hot::wcase_strategy(opts(tier), 0.1), prop_oneof![40 => Just(None), 1 => (2u8..5, 500u16..4000, 3000u16..15000).prop_map(Some)])
            .prop_map(|(mut c, windows)| {
                c.windows = windows;
                to_case(&c)
            })
            .boxed()
    }

    /// Every DAG of load edges on up to 3 (quick) / 4 (thorough) nodes: node i loads its own leaf and a
    /// subset of the lower-numbered nodes; then every leaf is edited alone, then all at once in one batch.
    fn enumerate(&self, tier: Tier) -> Vec<Value> {
        use crate::world::{ROp, SecondCache};
        let max = if tier == Tier::Quick { 3 } else { 4 };
        let mut out = Vec::new();
        for n in 1..=max {
            let pairs: Vec<(usize, usize)> = (0..n).flat_map(|j| (0..j).map(move |i| (i, j))).collect();
            for mask in 0..(1u32 << pairs.len()) {
                let nodes: Vec<hot::NodeDef> = (0..n)
                    .map(|j| {
                        let mut ops = vec![ROp::L { kind: Kind::Leaf, id: hot::LEAVES[j].to_string(), tolerant: false }];
                        for (k, (i, jj)) in pairs.iter().enumerate() {
                            if *jj == j && (mask >> k) & 1 == 1 {
                                ops.push(ROp::L { kind: if i % 2 == 0 { Kind::N0 } else { Kind::N1 }, id: format!("n{i}"), tolerant: false });
                            }
                        }
                        hot::NodeDef { kind: if j % 2 == 0 { Kind::N0 } else { Kind::N1 }, id: format!("n{j}"), ops }
                    })
                    .collect();
                let files = (0..n).map(|j| (hot::LEAVES[j].to_string(), "la".to_string(), hot::Content::Ok(j as u16))).collect();
                let top = nodes.iter().map(|nd| (nd.kind, nd.id.clone(), false)).collect();
                let single = |j: usize, v: u16, batched: bool| hot::Step {
                    edits: vec![hot::Edit::SetFile { id: hot::LEAVES[j].to_string(), ext: "la".into(), content: hot::Content::Ok(v) }],
                    notified: vec![true],
                    batched,
                    duplicate: false,
                    noise: vec![],
                    order: 0,
                };
                let mut steps: Vec<hot::Step> = (0..n).map(|j| single(j, 100 + j as u16, false)).collect();
                steps.push(hot::Step {
                    edits: (0..n).map(|j| hot::Edit::SetFile { id: hot::LEAVES[j].to_string(), ext: "la".into(), content: hot::Content::Ok(200 + j as u16) }).collect(),
                    notified: vec![true; 4],
                    batched: true,
                    duplicate: false,
                    noise: vec![],
                    order: mask as u16 + 1,
                });
                // break the lowest leaf, then repair it
                steps.push(hot::Step { edits: vec![hot::Edit::SetFile { id: hot::LEAVES[0].to_string(), ext: "la".into(), content: hot::Content::Bad }], notified: vec![true], batched: false, duplicate: false, noise: vec![], order: 0 });
                steps.push(single(0, 300, false));
                out.push(to_case(&WCase { files, nodes, top, static_mode: false, second: SecondCache::None, files2: vec![], steps, dir_ops: vec![], windows: None }));
            }
        }
        out
    }

    fn enumerate_note(&self, tier: Tier) -> String {
        format!(
            "every DAG of load edges on 1..{} nodes (node i loads its own leaf and any subset of the lower-numbered nodes): each leaf edited alone, all leaves in one batch, then the lowest leaf broken and repaired",
            if tier == Tier::Quick { 3 } else { 4 }
        )
    }

    fn run(&self, case: &Value) -> Outcome {
        let c: WCase = from_case(case);
        let mut out = Outcome::new();
        let mut r = Runner::new(&c);
        r.initial_loads(&c);
        let mut had_failure: BTreeMap<AKey, bool> = BTreeMap::new();
        for (sn, step) in c.steps.iter().enumerate() {
            let deps_before = r.world.shadow_deps();
            let extra_before = r.world.shadow_failed_extra();
            let notes = r.apply_edits(step);
            let sent = r.send(step, notes);
            if !r.barrier() {
                out.fail("reload-lost", format!("step {sn}: the notified change of a loaded asset's file (the barrier's sentinel) was never applied although hot_reload kept returning {}", r.lost_detail));
                break;
            }
            if let Some(n) = r.late_applications.first() {
                out.fail(
                    "hot-reload-returned-before-notified-change",
                    format!("step {sn}: a change of a loaded asset's file was notified (EventSender::send returned) before hot_reload was called by the same thread, yet it was not applied when hot_reload returned: {n} more call(s) were needed"),
                );
                break;
            }
            let grew: BTreeMap<AKey, u32> = r.watches.iter().map(|(k, w)| (k.clone(), w.growths)).collect();
            let checked = hot::check_convergence(&r, &mut out, sn, &grew, &deps_before, &sent);
            if out.failed() {
                break;
            }
            if !c.static_mode {
                hot::check_order(&r, &mut out, sn, &deps_before);
                if out.failed() {
                    break;
                }
            }
            // classification
            let (lower, _upper) = hot::affected_sets(&r, &deps_before, &extra_before, &sent);
            let direct: std::collections::BTreeSet<AKey> = deps_before
                .iter()
                .filter(|((t, _), ds)| *t == r.world.tag && sent.iter().any(|e| ds.contains(&crate::world::Dep::from_entry(e))))
                .map(|((_, k), _)| k.clone())
                .collect();
            let cached = r.cached();
            if lower.iter().any(|k| cached.contains(k) && !direct.contains(k) && k.1 != crate::world::SENTINEL) {
                out.nontrivial = true;
                out.label("transitive-reload");
            }
            if step.edits.iter().any(|e| matches!(e, hot::Edit::Rewire { .. })) {
                out.nontrivial = true;
                out.label("rewiring");
            }
            for (k, g) in &grew {
                if *g > 0 && had_failure.get(k).copied().unwrap_or(false) {
                    out.nontrivial = true;
                    out.label("break-then-repair");
                    had_failure.insert(k.clone(), false);
                }
            }
            for pass in r.reload_attempts() {
                for (k, ok) in pass {
                    if ok == Some(false) {
                        had_failure.insert(k, true);
                    }
                }
            }
            for k in cached.iter().filter(|k| k.0 == Kind::Leaf) {
                if matches!(r.world.fresh(k.0, &k.1), crate::world::Fresh::Err | crate::world::Fresh::Panic) {
                    had_failure.insert(k.clone(), true);
                }
            }
            if step.edits.iter().any(|e| matches!(e, hot::Edit::MkDir { .. } | hot::Edit::DeleteFile { .. })) {
                out.label("dir-entry-change");
            }
            if checked > 2 {
                out.label("checked>2-assets");
            }
            for w in r.watches.values_mut() {
                w.growths = 0;
            }
            r.snapshot_values();
        }
        if c.static_mode {
            out.label("enhance_hot_reloading");
        }
        if let (Some((rounds, p0, p1)), false) = (c.windows, out.failed()) {
            drop(r);
            widened_windows(rounds, p0, p1, &mut out);
        }
        out
    }

    fn required_labels(&self) -> Vec<&'static str> {
        vec!["transitive-reload", "rewiring", "break-then-repair", "enhance_hot_reloading", "dir-entry-change", "widened-reloader-windows"]
    }
}
