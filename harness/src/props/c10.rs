//! C10 - what is declared non-reloadable is never rewritten.

use crate::engine::{from_case, to_case, Outcome, Plan, Prop, Tier};
use crate::memsrc::{MemSource, OwnedEntry, Variant};
use crate::world::{self, Kind, Leaf, LeafS, ROp, N0, NS};
use assets_manager::{AnyCache, AssetCache, LocalAssetCache, ReloadId, Storable};
use proptest::prelude::*;
use serde::{Deserialize, Serialize};
use serde_json::Value;
use std::collections::BTreeMap;

#[derive(Debug, Clone, PartialEq, Eq)]
pub struct SV(pub String);
impl Storable for SV {}

#[derive(Debug, Clone, Copy, Serialize, Deserialize, PartialEq, Eq, PartialOrd, Ord)]
pub enum K {
    Leaf,
    N0,
    LeafS,
    NS,
    Stor,
    /// `Arc<LeafS>`: an Arc of an opt-out type opts out too
    ArcLeafS,
    /// `Arc<Leaf>`: reloadable
    ArcLeaf,
    /// `OnceInitCell<LeafS, String>`: a cell around an opt-out type opts out too
    CellLeafS,
    /// `OnceInitCell<Option<LeafS>, String>`: so does the Option flavour
    CellOptLeafS,
}

type ALeafS = std::sync::Arc<LeafS>;
type ALeaf = std::sync::Arc<Leaf>;
type CLeafS = assets_manager::OnceInitCell<LeafS, String>;
type COLeafS = assets_manager::OnceInitCell<Option<LeafS>, String>;
fn cell_value(c: &CLeafS) -> String {
    c.get_or_init(|seed| seed.0.clone()).clone()
}
fn cell_opt_value(c: &COLeafS) -> String {
    c.get_or_init(|seed| seed.as_ref().map(|l| l.0.clone()).unwrap_or_default()).clone()
}

#[derive(Debug, Clone, Copy, Serialize, Deserialize, PartialEq, Eq)]
pub enum Ctor {
    WithReloader,
    WithoutHotReloading,
    SourceWithoutSupport,
    Local,
    /// with_source on a source whose configure_hot_reloading fails after it stored the EventSender
    ConfigureFails,
}

#[derive(Debug, Clone, Serialize, Deserialize)]
pub enum Op {
    Load(K, u8),
    LoadOwned(K, u8),
    GetOrInsert(K, u8, u8),
    Remove(K, u8),
    Take(K, u8),
    Clear,
    /// edit the file(s) behind key number `.0` and notify them
    Edit(u8, u16),
    /// a second thread loads the key while this one inserts it
    RaceLoadInsert(u8, u8),
    Barrier,
    /// get_or_insert of the reloadable leaf `.0` made by the loader of a reloadable compound (loaded with
    /// load_owned if `.2`), i.e. while the dependencies of that compound are being recorded
    InsertInLoader(u8, u8, bool),
}

/// What the next run of `Inserter`'s loader inserts (id of a reloadable leaf, value); taken by that run.
static ARMED: std::sync::Mutex<Option<(String, String)>> = std::sync::Mutex::new(None);
/// What that get_or_insert returned.
static INSERTED: std::sync::Mutex<Option<String>> = std::sync::Mutex::new(None);

/// A reloadable compound whose loader stores a value with get_or_insert when it is armed (only during the
/// `InsertInLoader` step: when the reloader runs it again later it does nothing).
pub struct Inserter;
impl assets_manager::Compound for Inserter {
    fn load(cache: AnyCache, _id: &assets_manager::SharedString) -> Result<Self, assets_manager::BoxedError> {
        let armed = ARMED.lock().unwrap_or_else(|e| e.into_inner()).take();
        if let Some((id, v)) = armed {
            let got = cache.get_or_insert(&id, Leaf(v)).read().0.clone();
            *INSERTED.lock().unwrap_or_else(|e| e.into_inner()) = Some(got);
        }
        Ok(Inserter)
    }
}

/// Returns what the get_or_insert made inside the loader returned (None if the loader did not run).
fn insert_in_loader(c: AnyCache, id: &str, v: String, owned: bool, step: usize) -> Option<String> {
    *INSERTED.lock().unwrap_or_else(|e| e.into_inner()) = None;
    *ARMED.lock().unwrap_or_else(|e| e.into_inner()) = Some((id.to_string(), v));
    let cid = format!("inserter{step}");
    if owned {
        drop(c.load_owned::<Inserter>(&cid));
    } else {
        drop(c.load::<Inserter>(&cid));
    }
    *ARMED.lock().unwrap_or_else(|e| e.into_inner()) = None;
    INSERTED.lock().unwrap_or_else(|e| e.into_inner()).take()
}

#[derive(Debug, Clone, Serialize, Deserialize)]
pub struct Case {
    ctor: Ctor,
    ops: Vec<Op>,
}

const NKEYS: u8 = 3;

fn id_of(k: K, n: u8) -> String {
    // all kinds share the id, so that a notification for "the file behind the key" hits every kind
    let _ = k;
    format!("k{n}")
}

#[derive(Debug, Clone)]
struct Entry {
    value: String,
    frozen: bool,
    /// address and content of `Handle::get()` captured when the entry was created (NotHotReloaded kinds)
    got: Option<(usize, String)>,
}

fn typed_value(c: AnyCache, k: K, id: &str) -> Option<String> {
    match k {
        K::Leaf => c.get_cached::<Leaf>(id).map(|h| h.read().0.clone()),
        K::N0 => c.get_cached::<N0>(id).map(|h| h.read().0.clone()),
        K::LeafS => c.get_cached::<LeafS>(id).map(|h| h.read().0.clone()),
        K::NS => c.get_cached::<NS>(id).map(|h| h.read().0.clone()),
        K::Stor => c.get_cached::<SV>(id).map(|h| h.read().0.clone()),
        K::ArcLeafS => c.get_cached::<ALeafS>(id).map(|h| h.read().0.clone()),
        K::ArcLeaf => c.get_cached::<ALeaf>(id).map(|h| h.read().0.clone()),
        K::CellLeafS => c.get_cached::<CLeafS>(id).map(|h| cell_value(&h.read())),
        K::CellOptLeafS => c.get_cached::<COLeafS>(id).map(|h| cell_opt_value(&h.read())),
    }
}

/// (reload id, watcher says reloaded, global flag, address+content of get() for NotHotReloaded kinds)
fn typed_meta(c: AnyCache, k: K, id: &str) -> Option<(ReloadId, bool, Option<(usize, String)>)> {
    macro_rules! m {
        ($t:ty, $get:expr) => {
            c.get_cached::<$t>(id).map(|h| {
                let g: Option<(usize, String)> = $get(h);
                (h.last_reload_id(), h.reloaded_global(), g)
            })
        };
    }
    match k {
        K::Leaf => m!(Leaf, |_h| None),
        K::N0 => m!(N0, |_h| None),
        K::LeafS => m!(LeafS, |h: &assets_manager::Handle<LeafS>| Some((h.get() as *const LeafS as usize, h.get().0.clone()))),
        K::NS => m!(NS, |h: &assets_manager::Handle<NS>| Some((h.get() as *const NS as usize, h.get().0.clone()))),
        K::Stor => m!(SV, |_h| None),
        K::ArcLeafS => m!(ALeafS, |_h| None),
        K::ArcLeaf => m!(ALeaf, |_h| None),
        K::CellLeafS => m!(CLeafS, |_h| None),
        K::CellOptLeafS => m!(COLeafS, |_h| None),
    }
}

fn typed_load(c: AnyCache, k: K, id: &str) -> Option<String> {
    match k {
        K::Leaf => c.load::<Leaf>(id).ok().map(|h| h.read().0.clone()),
        K::N0 => c.load::<N0>(id).ok().map(|h| h.read().0.clone()),
        K::LeafS => c.load::<LeafS>(id).ok().map(|h| h.read().0.clone()),
        K::NS => c.load::<NS>(id).ok().map(|h| h.read().0.clone()),
        K::ArcLeafS => c.load::<ALeafS>(id).ok().map(|h| h.read().0.clone()),
        K::ArcLeaf => c.load::<ALeaf>(id).ok().map(|h| h.read().0.clone()),
        K::CellLeafS => c.load::<CLeafS>(id).ok().map(|h| cell_value(&h.read())),
        K::CellOptLeafS => c.load::<COLeafS>(id).ok().map(|h| cell_opt_value(&h.read())),
        K::Stor => None,
    }
}

fn typed_load_owned(c: AnyCache, k: K, id: &str) {
    match k {
        K::Leaf => drop(c.load_owned::<Leaf>(id)),
        K::N0 => drop(c.load_owned::<N0>(id)),
        K::LeafS => drop(c.load_owned::<LeafS>(id)),
        K::NS => drop(c.load_owned::<NS>(id)),
        K::ArcLeafS => drop(c.load_owned::<ALeafS>(id)),
        K::ArcLeaf => drop(c.load_owned::<ALeaf>(id)),
        K::CellLeafS => drop(c.load_owned::<CLeafS>(id)),
        K::CellOptLeafS => drop(c.load_owned::<COLeafS>(id)),
        K::Stor => {}
    }
}

fn typed_goi(c: AnyCache, k: K, id: &str, v: String) -> String {
    match k {
        K::Leaf => c.get_or_insert(id, Leaf(v)).read().0.clone(),
        K::N0 => c.get_or_insert(id, N0(v)).read().0.clone(),
        K::LeafS => c.get_or_insert(id, LeafS(v)).read().0.clone(),
        K::NS => c.get_or_insert(id, NS(v)).read().0.clone(),
        K::Stor => c.get_or_insert(id, SV(v)).read().0.clone(),
        K::ArcLeafS => c.get_or_insert(id, std::sync::Arc::new(LeafS(v))).read().0.clone(),
        K::ArcLeaf => c.get_or_insert(id, std::sync::Arc::new(Leaf(v))).read().0.clone(),
        K::CellLeafS => cell_value(&c.get_or_insert(id, CLeafS::new(LeafS(v))).read()),
        K::CellOptLeafS => cell_opt_value(&c.get_or_insert(id, COLeafS::new(Some(LeafS(v)))).read()),
    }
}

macro_rules! typed_mut {
    ($cache:expr, $k:expr, $id:expr, $m:ident) => {
        match $k {
            K::Leaf => $cache.$m::<Leaf>($id).map(|_| ()),
            K::N0 => $cache.$m::<N0>($id).map(|_| ()),
            K::LeafS => $cache.$m::<LeafS>($id).map(|_| ()),
            K::NS => $cache.$m::<NS>($id).map(|_| ()),
            K::Stor => $cache.$m::<SV>($id).map(|_| ()),
            K::ArcLeafS => $cache.$m::<ALeafS>($id).map(|_| ()),
            K::ArcLeaf => $cache.$m::<ALeaf>($id).map(|_| ()),
            K::CellLeafS => $cache.$m::<CLeafS>($id).map(|_| ()),
            K::CellOptLeafS => $cache.$m::<COLeafS>($id).map(|_| ()),
        }
    };
}

fn reloadable_kind(k: K) -> bool {
    matches!(k, K::Leaf | K::N0 | K::ArcLeaf)
}

fn populate(src: &MemSource) {
    let mut t = src.tree();
    for n in 0..NKEYS {
        let id = format!("k{n}");
        t.put(&id, "la", b"ok:v0".to_vec(), Variant::Buffer);
        t.put(&id, "ls", b"ok:s0".to_vec(), Variant::Buffer);
        // N0 k_n reads its own leaf file raw (so that the same notification concerns it) and a static leaf
        // ... and loads (caches) the reloadable leaf of the same number
        t.put(
            &id,
            "n0",
            world::recipe_bytes(&[ROp::F { id: id.clone(), ext: "la".into() }, ROp::O { kind: Kind::LeafS, id: id.clone(), tolerant: true }, ROp::L { kind: Kind::Leaf, id: id.clone(), tolerant: true }]),
            Variant::Buffer,
        );
        t.put(&id, "ns", world::recipe_bytes(&[ROp::F { id: id.clone(), ext: "la".into() }, ROp::O { kind: Kind::Leaf, id: id.clone(), tolerant: true }]), Variant::Buffer);
    }
    t.put(world::SENTINEL, "la", b"ok:S0".to_vec(), Variant::Buffer);
}

/// The compound N0 k_n loads (and thereby caches) the reloadable leaf k_n: when N0's loader has run, the leaf may
/// be in the cache without having been asked for by the history.
fn adopt_leaf_loaded_by_n0(model: &mut Model, any: AnyCache, n: u8) {
    if !model.entries.contains_key(&(K::Leaf, n)) {
        if let Some(v) = typed_value(any, K::Leaf, &id_of(K::Leaf, n)) {
            model.entries.insert((K::Leaf, n), Entry { value: v, frozen: !model.has_reloader, got: None });
        }
    }
}

struct Model {
    entries: BTreeMap<(K, u8), Entry>,
    has_reloader: bool,
    /// the latest source value per key number (what a reload would install)
    edits: u32,
    reloads_seen: u32,
    frozen_after_reuse: bool,
    inserted_in_loader_on_known_key: bool,
}

/// Runs the history on a cache type (AssetCache or LocalAssetCache share the same method names).
macro_rules! drive {
    ($cache:ident, $src:ident, $c:ident, $out:ident, $model:ident, $can_hot_reload:expr) => {{
        let mut sentinel_version = 0u64;
        let mut known_keys: std::collections::BTreeSet<u8> = Default::default();
        for (step, op) in $c.ops.iter().enumerate() {
            match op {
                Op::Load(k, n) => {
                    let id = id_of(*k, *n);
                    if *k == K::Stor {
                        continue;
                    }
                    let was = $model.entries.contains_key(&(*k, *n));
                    let v = typed_load($cache.as_any_cache(), *k, &id);
                    known_keys.insert(*n);
                    if let (false, Some(v)) = (was, v) {
                        let got = typed_meta($cache.as_any_cache(), *k, &id).and_then(|m| m.2);
                        $model.entries.insert((*k, *n), Entry { value: v, frozen: !(reloadable_kind(*k) && $model.has_reloader), got });
                    }
                    if *k == K::N0 && !was {
                        adopt_leaf_loaded_by_n0(&mut $model, $cache.as_any_cache(), *n);
                    }
                }
                Op::LoadOwned(k, n) => {
                    typed_load_owned($cache.as_any_cache(), *k, &id_of(*k, *n));
                    known_keys.insert(*n);
                    if *k == K::N0 {
                        adopt_leaf_loaded_by_n0(&mut $model, $cache.as_any_cache(), *n);
                    }
                }
                Op::GetOrInsert(k, n, v) => {
                    let id = id_of(*k, *n);
                    let was = $model.entries.contains_key(&(*k, *n));
                    let val = typed_goi($cache.as_any_cache(), *k, &id, format!("ins{v}"));
                    if !was {
                        if val != format!("ins{v}") {
                            $out.fail("get-or-insert-wrong-value", format!("step {step}: get_or_insert on an absent key returned {val:?}"));
                            break;
                        }
                        let got = typed_meta($cache.as_any_cache(), *k, &id).and_then(|m| m.2);
                        if known_keys.contains(n) {
                            $model.frozen_after_reuse = true;
                        }
                        $model.entries.insert((*k, *n), Entry { value: val, frozen: true, got });
                    }
                }
                Op::InsertInLoader(n, v, owned) => {
                    let id = id_of(K::Leaf, *n);
                    let was = $model.entries.contains_key(&(K::Leaf, *n));
                    let Some(val) = insert_in_loader($cache.as_any_cache(), &id, format!("ins{v}"), *owned, step) else {
                        $out.fail("harness", format!("step {step}: the loader of a compound that was never loaded before did not run"));
                        break;
                    };
                    if !was {
                        if val != format!("ins{v}") {
                            $out.fail("get-or-insert-wrong-value", format!("step {step}: get_or_insert (made by the loader of a compound) on an absent key returned {val:?}"));
                            break;
                        }
                        let got = typed_meta($cache.as_any_cache(), K::Leaf, &id).and_then(|m| m.2);
                        if known_keys.contains(n) {
                            $model.frozen_after_reuse = true;
                            $model.inserted_in_loader_on_known_key = true;
                        }
                        $model.entries.insert((K::Leaf, *n), Entry { value: val, frozen: true, got });
                    }
                }
                Op::Remove(k, n) => {
                    let _ = typed_mut!($cache, *k, &id_of(*k, *n), take);
                    $model.entries.remove(&(*k, *n));
                }
                Op::Take(k, n) => {
                    let _ = typed_mut!($cache, *k, &id_of(*k, *n), take);
                    $model.entries.remove(&(*k, *n));
                }
                Op::Clear => {
                    $cache.clear();
                    $model.entries.clear();
                }
                Op::Edit(n, v) => {
                    let id = format!("k{n}");
                    {
                        let mut t = $src.tree();
                        t.put(&id, "la", format!("ok:v{v}").into_bytes(), Variant::Buffer);
                        t.put(&id, "ls", format!("ok:s{v}").into_bytes(), Variant::Buffer);
                    }
                    $model.edits += 1;
                    for ext in ["la", "ls", "n0", "ns"] {
                        $src.send(&OwnedEntry::File(id.clone(), ext.to_string()));
                    }
                }
                Op::RaceLoadInsert(n, v) => {
                    let id = id_of(K::Leaf, *n);
                    let was = $model.entries.contains_key(&(K::Leaf, *n));
                    let any = $cache.as_any_cache();
                    let sb = crate::props::common::SpinBarrier::new(2);
                    let val = race_load_insert(&$cache, &sb, any, &id, *v);
                    known_keys.insert(*n);
                    if !was {
                        let inserted = val == format!("ins{v}");
                        $model.entries.insert((K::Leaf, *n), Entry { value: val, frozen: inserted || !$model.has_reloader, got: None });
                    }
                }
                Op::Barrier => {
                    if $can_hot_reload && $model.has_reloader {
                        // sentinel barrier (the sentinel may have been cleared: load it again)
                        sentinel_version += 1;
                        let before = match $cache.as_any_cache().load::<Leaf>(world::SENTINEL) {
                            Ok(h) => h.last_reload_id(),
                            Err(_) => continue,
                        };
                        $src.tree().put(world::SENTINEL, "la", format!("ok:S{sentinel_version}").into_bytes(), Variant::Buffer);
                        $src.send(&OwnedEntry::File(world::SENTINEL.to_string(), "la".to_string()));
                        let mut applied = false;
                        for _ in 0..4000 {
                            hot_reload_of(&$cache);
                            if $cache.as_any_cache().get_cached::<Leaf>(world::SENTINEL).map(|h| h.last_reload_id()) != Some(before) {
                                applied = true;
                                break;
                            }
                            std::thread::yield_now();
                        }
                        if !applied {
                            $out.fail("reload-lost", format!("step {step}: the notified change of the sentinel (loaded just before) was not applied by 4000 hot_reload calls; crate log: {}", crate::tracelog::tail(60)));
                            break;
                        }
                    } else {
                        // no reloader: nothing to wait for; a fixed number of calls gives a reloader that
                        // should not exist the time to act on the notifications
                        for _ in 0..(if $c.ctor == Ctor::ConfigureFails { 40 } else { 1 }) {
                            hot_reload_of(&$cache);
                            std::thread::yield_now();
                        }
                    }
                    // a leaf nobody asked for is in the cache only if a cached, reloadable N0 of the same number was
                    // reloaded (its loader loads the leaf); the reloader never runs the loader of a key that is not
                    // cached any more, or of a value stored with get_or_insert
                    for n in 0..NKEYS {
                        if !$model.entries.contains_key(&(K::Leaf, n)) && typed_value($cache.as_any_cache(), K::Leaf, &id_of(K::Leaf, n)).is_some() {
                            let by_reload = $model.has_reloader && matches!($model.entries.get(&(K::N0, n)), Some(e) if !e.frozen);
                            if !by_reload {
                                $out.fail("ghost-entry", format!("step {step}: (Leaf, {:?}) is in the cache although the history never loaded it since it was removed and no cached reloadable compound loads it: the loader of a key that is not cached (or not reloadable) any more was run (N0 of that number: {})", id_of(K::Leaf, n), match $model.entries.get(&(K::N0, n)) { Some(e) if e.frozen => "stored with get_or_insert", Some(_) => "cached", None => "not cached" }));
                                break;
                            }
                            adopt_leaf_loaded_by_n0(&mut $model, $cache.as_any_cache(), n);
                        }
                    }
                    if $out.failed() {
                        break;
                    }
                    // every frozen entry is exactly as it was created
                    for ((k, n), e) in $model.entries.iter_mut() {
                        let id = id_of(*k, *n);
                        let any = $cache.as_any_cache();
                        let now = typed_value(any, *k, &id);
                        let meta = typed_meta(any, *k, &id);
                        if e.frozen {
                            if now.as_deref() != Some(e.value.as_str()) {
                                $out.fail("frozen-value-rewritten", format!("step {step}: the non-reloadable entry ({k:?}, {id:?}) held {:?} when it was created and holds {now:?} after notified edits and hot_reload (cache: {:?})", e.value, $c.ctor));
                                break;
                            }
                            if let Some((rid, global, got)) = meta {
                                if rid != ReloadId::NEVER || global {
                                    $out.fail("frozen-reload-reported", format!("step {step}: the non-reloadable entry ({k:?}, {id:?}) reports a reload (last_reload_id {rid:?}, reloaded_global {global})"));
                                    break;
                                }
                                if let (Some(g0), Some(g1)) = (&e.got, &got) {
                                    if g0 != g1 {
                                        $out.fail("get-reference-changed", format!("step {step}: Handle::get() of ({k:?}, {id:?}) was {g0:?} and is {g1:?} now"));
                                        break;
                                    }
                                }
                            }
                        } else if let Some(v) = now {
                            if v != e.value {
                                $model.reloads_seen += 1;
                                e.value = v;
                            }
                        }
                    }
                    if $out.failed() {
                        break;
                    }
                }
            }
        }
    }};
}

trait HotReloadable {
    fn hr(&self);
}
impl HotReloadable for AssetCache<MemSource> {
    fn hr(&self) {
        self.hot_reload()
    }
}
impl HotReloadable for LocalAssetCache<MemSource> {
    fn hr(&self) {}
}
fn hot_reload_of<C: HotReloadable>(c: &C) {
    c.hr()
}

trait Racer {
    fn race(&self, sb: &crate::props::common::SpinBarrier, id: &str, v: u8) -> String;
}
impl Racer for AssetCache<MemSource> {
    fn race(&self, sb: &crate::props::common::SpinBarrier, id: &str, v: u8) -> String {
        std::thread::scope(|s| {
            let t = s.spawn(|| {
                sb.wait();
                let _ = self.load::<Leaf>(id);
            });
            sb.wait();
            let val = self.get_or_insert(id, Leaf(format!("ins{v}"))).read().0.clone();
            t.join().expect("racing loader");
            val
        })
    }
}
impl Racer for LocalAssetCache<MemSource> {
    fn race(&self, _sb: &crate::props::common::SpinBarrier, id: &str, v: u8) -> String {
        self.get_or_insert(id, Leaf(format!("ins{v}"))).read().0.clone()
    }
}
fn race_load_insert<C: Racer>(c: &C, sb: &crate::props::common::SpinBarrier, _any: AnyCache, id: &str, v: u8) -> String {
    c.race(sb, id, v)
}

pub struct C10;

fn kind_s() -> impl Strategy<Value = K> {
    prop_oneof![4 => Just(K::Leaf), 2 => Just(K::N0), 2 => Just(K::LeafS), 1 => Just(K::NS), 1 => Just(K::Stor), 1 => Just(K::ArcLeafS), 1 => Just(K::ArcLeaf), 1 => Just(K::CellLeafS), 1 => Just(K::CellOptLeafS)]
}

fn op_strategy() -> impl Strategy<Value = Op> {
    prop_oneof![
        5 => (kind_s(), 0..NKEYS).prop_map(|(k, n)| Op::Load(k, n)),
        3 => (kind_s(), 0..NKEYS).prop_map(|(k, n)| Op::LoadOwned(k, n)),
        6 => (kind_s(), 0..NKEYS, 0u8..50).prop_map(|(k, n, v)| Op::GetOrInsert(k, n, v)),
        2 => (kind_s(), 0..NKEYS).prop_map(|(k, n)| Op::Remove(k, n)),
        2 => (kind_s(), 0..NKEYS).prop_map(|(k, n)| Op::Take(k, n)),
        1 => Just(Op::Clear),
        6 => (0..NKEYS, 1u16..1000).prop_map(|(n, v)| Op::Edit(n, v)),
        1 => (0..NKEYS, 50u8..100).prop_map(|(n, v)| Op::RaceLoadInsert(n, v)),
        5 => Just(Op::Barrier),
        2 => (0..NKEYS, 100u8..150, any::<bool>()).prop_map(|(n, v, owned)| Op::InsertInLoader(n, v, owned)),
    ]
}

impl Prop for C10 {
    fn id(&self) -> &'static str {
        "C10"
    }

    fn rule(&self) -> String {
        "cases = (cache constructor: with_source on a hot-reloadable source (reloader) | without_hot_reloading | with_source on a source without hot-reloading support | with_source on a source whose configure_hot_reloading fails after having stored the EventSender | LocalAssetCache; \
         history over 3 ids x kinds {reloadable asset, reloadable compound, opt-out asset, opt-out compound, Storable, Arc of an opt-out asset, Arc of a reloadable asset, OnceInitCell<U, T> and OnceInitCell<Option<U>, T> around an opt-out asset} of load / load_owned / get_or_insert / remove / take / clear, edits of the files behind the ids (all notified), \
         a load racing a get_or_insert, a get_or_insert made by the loader of a reloadable compound (loaded with load or load_owned, i.e. while its dependencies are recorded), and barriers; the reloadable compound of number n loads - and thereby caches - the reloadable leaf of number n). At every barrier every frozen entry (created by get_or_insert, or of an opt-out type, or in a cache without reloader) must hold exactly the value it was created with, \
         report ReloadId::NEVER and no reload, and Handle::get() must return the same address and content; a leaf that the history did not load is in the cache only if a cached reloadable compound that loads it was reloaded. \
         non-trivial = a frozen entry created by get_or_insert on a key the reloader already knew (loaded / load_owned before, then removed or cleared) with a later notified edit; distinct = different canonical JSON"
            .into()
    }

    fn assumptions(&self) -> Vec<String> {
        vec!["reloadable entries are observed to follow the source in the same histories (counted in evidence as a sanity check that hot-reloading is live)".into()]
    }

    fn plan(&self, tier: Tier) -> Plan {
        let mut p = Plan::new(match tier {
            Tier::Quick => 30000,
            Tier::Thorough => 300_000,
        });
        p.workers = 12;
        p
    }

    fn strategy(&self, _tier: Tier) -> BoxedStrategy<Value> {
        let ctor = prop_oneof![6 => Just(Ctor::WithReloader), 1 => Just(Ctor::WithoutHotReloading), 1 => Just(Ctor::SourceWithoutSupport), 1 => Just(Ctor::Local), 1 => Just(Ctor::ConfigureFails)];
        (ctor, prop::collection::vec(op_strategy(), 3..40))
            .prop_map(|(ctor, mut ops)| {
                ops.push(Op::Barrier);
                to_case(&Case { ctor, ops })
            })
            .boxed()
    }

    fn run(&self, case: &Value) -> Outcome {
        let c: Case = from_case(case);
        let mut out = Outcome::new();
        let _trace = crate::tracelog::scoped_trace();
        world::reset();
        let hot = c.ctor == Ctor::WithReloader;
        let src = MemSource::new(hot);
        populate(&src);
        let mut model = Model { entries: BTreeMap::new(), has_reloader: hot, edits: 0, reloads_seen: 0, frozen_after_reuse: false, inserted_in_loader_on_known_key: false };
        match c.ctor {
            Ctor::WithReloader | Ctor::SourceWithoutSupport => {
                let mut cache = AssetCache::with_source(src.handle());
                world::register_cache(src.tag(), &cache);
                drive!(cache, src, c, out, model, true);
                drop(cache);
            }
            Ctor::WithoutHotReloading => {
                let hot_src = MemSource::new(true);
                populate(&hot_src);
                let mut cache = AssetCache::without_hot_reloading(hot_src.handle());
                world::register_cache(hot_src.tag(), &cache);
                drive!(cache, hot_src, c, out, model, true);
                drop(cache);
            }
            Ctor::ConfigureFails => {
                let f_src = MemSource::new_failing_configure();
                populate(&f_src);
                let mut cache = AssetCache::with_source(f_src.handle());
                world::register_cache(f_src.tag(), &cache);
                drive!(cache, f_src, c, out, model, true);
                drop(cache);
            }
            Ctor::Local => {
                let mut cache = LocalAssetCache::with_source(src.handle());
                drive!(cache, src, c, out, model, false);
                drop(cache);
            }
        }
        world::shutdown();
        if model.frozen_after_reuse && model.edits > 0 && hot {
            out.nontrivial = true;
            out.label("frozen-entry-on-known-key");
        }
        if model.inserted_in_loader_on_known_key && model.edits > 0 && hot {
            out.label("inserted-by-a-loader-on-known-key");
        }
        if model.reloads_seen > 0 {
            out.label("live-reloads-observed");
        }
        out.label(format!("{:?}", c.ctor));
        out
    }

    fn required_labels(&self) -> Vec<&'static str> {
        vec!["frozen-entry-on-known-key", "inserted-by-a-loader-on-known-key", "live-reloads-observed", "Local", "WithoutHotReloading", "ConfigureFails"]
    }
}
