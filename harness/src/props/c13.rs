//! C13 - every stored value is dropped exactly once; type erasure never lies.

use crate::calloc;
use crate::engine::{from_case, to_case, Outcome, Plan, Prop, Tier};
use crate::ledger::{self, Tracked};
use crate::memsrc::{MemSource, OwnedEntry, Variant};
use assets_manager::{loader::Loader, AnyCache, Asset, AssetCache, BoxedError, Handle, LocalAssetCache, Storable};
use proptest::prelude::*;
use serde::{Deserialize, Serialize};
use serde_json::Value;
use std::borrow::Cow;
use std::collections::BTreeMap;
use std::sync::atomic::{AtomicI64, AtomicU64, AtomicUsize, Ordering::SeqCst};
use std::sync::Mutex;

// ---- the four layouts

static Z_LIVE: AtomicI64 = AtomicI64::new(0);
static Z_MADE: AtomicU64 = AtomicU64::new(0);
static B_LIVE: AtomicI64 = AtomicI64::new(0);
static B_MADE: AtomicU64 = AtomicU64::new(0);

/// zero-sized
pub struct ZT;
impl ZT {
    fn new() -> ZT {
        Z_LIVE.fetch_add(1, SeqCst);
        Z_MADE.fetch_add(1, SeqCst);
        ZT
    }
}
impl Drop for ZT {
    fn drop(&mut self) {
        Z_LIVE.fetch_sub(1, SeqCst);
    }
}

/// one byte
pub struct B1(u8);
impl B1 {
    fn new() -> B1 {
        B_LIVE.fetch_add(1, SeqCst);
        B_MADE.fetch_add(1, SeqCst);
        B1(0xB1)
    }
}
impl Drop for B1 {
    fn drop(&mut self) {
        B_LIVE.fetch_sub(1, SeqCst);
    }
}

/// heap-owning
pub struct HV {
    tok: Tracked,
    data: Vec<u8>,
}
impl HV {
    fn new() -> HV {
        let tok = Tracked::new();
        let data = vec![(tok.token % 251) as u8; 1 + (tok.token % 97) as usize];
        HV { tok, data }
    }
    fn valid(&self) -> bool {
        self.data.len() == 1 + (self.tok.token % 97) as usize && self.data.iter().all(|b| *b == (self.tok.token % 251) as u8)
    }
}

/// The tracked value with this token panics in its destructor, once (0 = nobody).
static PANIC_ON_DROP: AtomicU64 = AtomicU64::new(0);
fn maybe_panic_in_drop(token: u64) {
    if token != 0 && !std::thread::panicking() && PANIC_ON_DROP.compare_exchange(token, 0, SeqCst, SeqCst).is_ok() {
        panic!("the destructor of the value replaced by a reload panics");
    }
}
impl Drop for HV {
    fn drop(&mut self) {
        maybe_panic_in_drop(self.tok.token);
    }
}
impl Drop for A64 {
    fn drop(&mut self) {
        maybe_panic_in_drop(self.tok.token);
    }
}

/// over-aligned
#[repr(align(64))]
pub struct A64 {
    tok: Tracked,
    pad: [u8; 40],
}
impl A64 {
    fn new() -> A64 {
        let tok = Tracked::new();
        let b = (tok.token % 199) as u8;
        A64 { tok, pad: [b; 40] }
    }
    fn valid(&self) -> bool {
        (self as *const A64 as usize) % 64 == 0 && self.pad.iter().all(|b| *b == (self.tok.token % 199) as u8)
    }
}

/// Storable-only type (never an asset): for wrong-type views
pub struct Other(#[allow(dead_code)] u32);
impl Storable for Other {}

struct Gate {
    expected: usize,
    arrived: AtomicUsize,
    /// somebody gave up waiting
    timed_out: std::sync::atomic::AtomicBool,
}
static GATE: Mutex<Option<std::sync::Arc<Gate>>> = Mutex::new(None);

fn gate_wait() {
    let g = GATE.lock().unwrap_or_else(|e| e.into_inner()).clone();
    if let Some(g) = g {
        g.arrived.fetch_add(1, SeqCst);
        let mut spins = 0u32;
        while g.arrived.load(SeqCst) < g.expected && spins < 300_000 {
            spins += 1;
            if spins % 64 == 0 {
                std::thread::yield_now();
            } else {
                std::hint::spin_loop();
            }
        }
        if g.arrived.load(SeqCst) < g.expected {
            g.timed_out.store(true, SeqCst);
        }
    }
}

pub struct L13;
macro_rules! asset {
    ($t:ident, $ext:expr) => {
        impl Loader<$t> for L13 {
            fn load(content: Cow<[u8]>, _: &str) -> Result<$t, BoxedError> {
                if content.starts_with(b"bad") {
                    return Err("bad".into());
                }
                gate_wait();
                Ok($t::new())
            }
        }
        impl Asset for $t {
            const EXTENSION: &'static str = $ext;
            type Loader = L13;
        }
    };
}
asset!(ZT, "zt");
asset!(B1, "b1");
asset!(HV, "hv");
asset!(A64, "a6");

#[derive(Debug, Clone, Copy, Serialize, Deserialize, PartialEq, Eq, PartialOrd, Ord)]
pub enum T {
    ZT,
    B1,
    HV,
    A64,
}

impl T {
    fn ext(self) -> &'static str {
        match self {
            T::ZT => "zt",
            T::B1 => "b1",
            T::HV => "hv",
            T::A64 => "a6",
        }
    }
}

#[derive(Debug, Clone, Serialize, Deserialize)]
pub enum Op {
    Load(T, u8),
    LoadOwned(T, u8),
    GetOrInsert(T, u8),
    Remove(T, u8),
    Take(T, u8),
    Clear,
    /// edit + notify + hot_reload until the handle's reload id moves (only if cached by a load)
    Reload(T, u8),
    /// a failing reload: the old value stays
    BadReload(T, u8),
    /// a failing reload because the file is gone: the old value stays, and stays reachable
    MissingReload(T, u8),
    /// the file of a key that is not cached (any more) changes and is notified: nothing is created, rewritten or dropped
    GhostReload(T, u8),
    /// a reload in which the destructor of the replaced value panics (tracked layouts)
    PanickyReload(T, u8),
    /// a reader holds a guard across a reload
    GuardedReload(T, u8, u8),
    /// `n` threads load the (uncached) key at the same instant
    RaceLoad(T, u8, u8),
    DropOwned(u8),
    WrongTypeViews(T, u8),
}

#[derive(Debug, Clone, Serialize, Deserialize)]
pub struct Case {
    ops: Vec<Op>,
    hot: bool,
    /// afterwards: 2..4 workers insert and load through the AnyCache view of a LocalAssetCache - on threads
    /// if (and only if) `AnyCache` is `Send + Sync`, one after the other otherwise
    #[serde(default)]
    local_any_workers: u8,
}

const NIDS: u8 = 3;

/// token of the value behind a handle (tracked layouts), validating its content
fn token_of(cache: &AssetCache<MemSource>, t: T, id: &str) -> Option<Result<Option<u64>, String>> {
    match t {
        T::ZT => cache.get_cached::<ZT>(id).map(|h| {
            let _g = h.read();
            Ok(None)
        }),
        T::B1 => cache.get_cached::<B1>(id).map(|h| if h.read().0 == 0xB1 { Ok(None) } else { Err("a 1-byte value does not read its byte".into()) }),
        T::HV => cache.get_cached::<HV>(id).map(|h| {
            let g = h.read();
            g.tok.touch();
            if g.valid() {
                Ok(Some(g.tok.token))
            } else {
                Err(format!("the heap-owning value (token {}) reads corrupted data", g.tok.token))
            }
        }),
        T::A64 => cache.get_cached::<A64>(id).map(|h| {
            let g = h.read();
            g.tok.touch();
            if g.valid() {
                Ok(Some(g.tok.token))
            } else {
                Err(format!("the 64-byte-aligned value (token {}) is misaligned or corrupted", g.tok.token))
            }
        }),
    }
}

enum Owned {
    ZT(ZT),
    B1(B1),
    HV(HV),
    A64(A64),
}

impl Owned {
    fn token(&self) -> Option<u64> {
        match self {
            Owned::HV(v) => Some(v.tok.token),
            Owned::A64(v) => Some(v.tok.token),
            _ => None,
        }
    }
    fn kind(&self) -> T {
        match self {
            Owned::ZT(_) => T::ZT,
            Owned::B1(_) => T::B1,
            Owned::HV(_) => T::HV,
            Owned::A64(_) => T::A64,
        }
    }
    fn valid(&self) -> bool {
        match self {
            Owned::HV(v) => v.valid(),
            Owned::A64(v) => v.valid(),
            Owned::B1(v) => v.0 == 0xB1,
            Owned::ZT(_) => true,
        }
    }
}

macro_rules! by_type {
    ($t:expr, $f:ident, $($args:expr),*) => {
        match $t {
            T::ZT => $f::<ZT>($($args),*),
            T::B1 => $f::<B1>($($args),*),
            T::HV => $f::<HV>($($args),*),
            T::A64 => $f::<A64>($($args),*),
        }
    };
}

fn do_load<A: Asset>(cache: &AssetCache<MemSource>, id: &str) -> bool {
    cache.load::<A>(id).is_ok()
}
fn reload_id_of<A: Asset>(cache: &AssetCache<MemSource>, id: &str) -> Option<assets_manager::ReloadId> {
    cache.get_cached::<A>(id).map(|h| h.last_reload_id())
}
fn do_remove<A: Asset>(cache: &mut AssetCache<MemSource>, id: &str) -> bool {
    cache.remove::<A>(id)
}

struct State {
    /// cached keys: expected token (tracked layouts) and whether hot-reloading may rewrite it
    cached: BTreeMap<(T, u8), (Option<u64>, bool)>,
    owned: Vec<Owned>,
    reloads: u32,
    removed_reloaded: bool,
    lost_race: bool,
    was_reloaded: BTreeMap<(T, u8), bool>,
}

fn check_ledger(st: &State, out: &mut Outcome, step: usize, what: &str) {
    // tracked layouts: exactly the cached and the owned tokens are alive
    let mut expect: Vec<u64> = st.cached.values().filter_map(|(t, _)| *t).chain(st.owned.iter().filter_map(|o| o.token())).collect();
    expect.sort_unstable();
    let alive = ledger::alive_tokens();
    if alive != expect {
        let leaked: Vec<&u64> = alive.iter().filter(|t| !expect.contains(t)).collect();
        let lost: Vec<&u64> = expect.iter().filter(|t| !alive.contains(t)).collect();
        out.fail(
            if !lost.is_empty() { "dropped-while-reachable" } else { "not-dropped" },
            format!("step {step} ({what}): tracked values alive {alive:?}, but the cache holds / the caller owns {expect:?} (still alive though unreachable: {leaked:?}; dropped though reachable: {lost:?})"),
        );
        return;
    }
    if ledger::double_drops() != 0 || ledger::use_after_drop() != 0 {
        out.fail("double-drop", format!("step {step} ({what}): {} value(s) dropped twice, {} read(s) of a dropped value", ledger::double_drops(), ledger::use_after_drop()));
        return;
    }
    let z = st.cached.keys().filter(|k| k.0 == T::ZT).count() as i64 + st.owned.iter().filter(|o| o.kind() == T::ZT).count() as i64;
    let b = st.cached.keys().filter(|k| k.0 == T::B1).count() as i64 + st.owned.iter().filter(|o| o.kind() == T::B1).count() as i64;
    if Z_LIVE.load(SeqCst) != z || B_LIVE.load(SeqCst) != b {
        out.fail(
            "count-mismatch",
            format!("step {step} ({what}): {} zero-sized and {} one-byte values are alive, but {z} and {b} are cached or owned", Z_LIVE.load(SeqCst), B_LIVE.load(SeqCst)),
        );
        return;
    }
    if calloc::error_count() != 0 {
        out.fail("allocator", format!("step {step} ({what}): {}", calloc::describe_errors()));
    }
}

fn wait_reload<A: Asset>(cache: &AssetCache<MemSource>, id: &str, before: assets_manager::ReloadId) -> bool {
    for _ in 0..4000 {
        cache.hot_reload();
        if reload_id_of::<A>(cache, id) != Some(before) {
            return true;
        }
    }
    false
}

fn wrong_views<A: Asset>(cache: &AssetCache<MemSource>, id: &str, out: &mut Outcome, step: usize) {
    fn probe<S: Asset, U: Storable>(h: &Handle<S>, cache: &AssetCache<MemSource>, id: &str, same: bool, out: &mut Outcome, step: usize) {
        let u = h.as_untyped();
        let is = u.is::<U>();
        let dc = u.downcast_ref::<U>().is_some();
        let rd = u.read().downcast::<U>().is_ok();
        let gc = cache.get_cached::<U>(id).is_some();
        if is != same || dc != same || rd != same || (!same && gc && false) {
            out.fail(
                "type-erasure-lies",
                format!("step {step}: a handle created as {} viewed as {}: is = {is}, downcast_ref = {dc}, read().downcast = {rd} (expected all {same})", std::any::type_name::<S>(), std::any::type_name::<U>()),
            );
        }
        let _ = gc;
    }
    if let Some(h) = cache.get_cached::<A>(id) {
        let me = std::any::TypeId::of::<A>();
        probe::<A, ZT>(h, cache, id, me == std::any::TypeId::of::<ZT>(), out, step);
        probe::<A, B1>(h, cache, id, me == std::any::TypeId::of::<B1>(), out, step);
        probe::<A, HV>(h, cache, id, me == std::any::TypeId::of::<HV>(), out, step);
        probe::<A, A64>(h, cache, id, me == std::any::TypeId::of::<A64>(), out, step);
        probe::<A, Other>(h, cache, id, false, out, step);
        probe::<A, u64>(h, cache, id, false, out, step);
        probe::<A, String>(h, cache, id, false, out, step);
        if h.as_untyped().id().as_str() != id {
            out.fail("type-erasure-lies", format!("step {step}: the untyped view reports id {:?} for {id:?}", h.as_untyped().id()));
        }
    }
}

fn run_case(c: &Case, out: &mut Outcome, flags: &mut (bool, bool, bool, bool)) {
    let src = MemSource::new(c.hot);
    {
        let mut t = src.tree();
        for n in 0..NIDS {
            for ty in [T::ZT, T::B1, T::HV, T::A64] {
                t.put(&format!("k{n}"), ty.ext(), b"v0".to_vec(), Variant::Buffer);
            }
        }
    }
    let mut cache = AssetCache::with_source(src.handle());
    let mut st = State { cached: BTreeMap::new(), owned: Vec::new(), reloads: 0, removed_reloaded: false, lost_race: false, was_reloaded: BTreeMap::new() };
    let mut version = 0u32;
    for (step, op) in c.ops.iter().enumerate() {
        let what = format!("{op:?}");
        crate::tracelog::note(format!("step {step} {what}"));
        match op {
            Op::Load(t, n) => {
                let id = format!("k{n}");
                let was = st.cached.contains_key(&(*t, *n));
                if by_type!(*t, do_load, &cache, &id) && !was {
                    let tok = match token_of(&cache, *t, &id) {
                        Some(Ok(tok)) => tok,
                        Some(Err(e)) => {
                            out.fail("corrupted-value", format!("step {step}: {e}"));
                            break;
                        }
                        None => None,
                    };
                    st.cached.insert((*t, *n), (tok, c.hot));
                }
            }
            Op::LoadOwned(t, n) => {
                let id = format!("k{n}");
                let o = match t {
                    T::ZT => cache.load_owned::<ZT>(&id).ok().map(Owned::ZT),
                    T::B1 => cache.load_owned::<B1>(&id).ok().map(Owned::B1),
                    T::HV => cache.load_owned::<HV>(&id).ok().map(Owned::HV),
                    T::A64 => cache.load_owned::<A64>(&id).ok().map(Owned::A64),
                };
                st.owned.extend(o);
            }
            Op::GetOrInsert(t, n) => {
                let id = format!("k{n}");
                let was = st.cached.contains_key(&(*t, *n));
                // the offered value is dropped at once if the key is present
                match t {
                    T::ZT => drop(cache.get_or_insert(&id, ZT::new()).read()),
                    T::B1 => drop(cache.get_or_insert(&id, B1::new()).read()),
                    T::HV => drop(cache.get_or_insert(&id, HV::new()).read()),
                    T::A64 => drop(cache.get_or_insert(&id, A64::new()).read()),
                }
                if !was {
                    let tok = token_of(&cache, *t, &id).and_then(|r| r.ok()).flatten();
                    st.cached.insert((*t, *n), (tok, false));
                }
            }
            Op::Remove(t, n) => {
                let id = format!("k{n}");
                let r = by_type!(*t, do_remove, &mut cache, &id);
                let had = st.cached.remove(&(*t, *n)).is_some();
                if r != had {
                    out.fail("remove-result", format!("step {step}: remove returned {r} but the key was {}", if had { "cached" } else { "absent" }));
                    break;
                }
                if had && st.was_reloaded.remove(&(*t, *n)).unwrap_or(false) {
                    st.removed_reloaded = true;
                }
            }
            Op::Take(t, n) => {
                let id = format!("k{n}");
                let o = match t {
                    T::ZT => cache.take::<ZT>(&id).map(Owned::ZT),
                    T::B1 => cache.take::<B1>(&id).map(Owned::B1),
                    T::HV => cache.take::<HV>(&id).map(Owned::HV),
                    T::A64 => cache.take::<A64>(&id).map(Owned::A64),
                };
                let had = st.cached.remove(&(*t, *n));
                match (&o, had) {
                    (Some(o), Some((tok, _))) => {
                        if o.token() != tok || !o.valid() {
                            out.fail("take-wrong-value", format!("step {step}: take handed back token {:?}, the cache held {tok:?} (valid content: {})", o.token(), o.valid()));
                            break;
                        }
                        if st.was_reloaded.remove(&(*t, *n)).unwrap_or(false) {
                            st.removed_reloaded = true;
                        }
                    }
                    (None, None) => {}
                    _ => {
                        out.fail("take-result", format!("step {step}: take returned {} but the model says {}", if o.is_some() { "a value" } else { "None" }, if had.is_some() { "cached" } else { "absent" }));
                        break;
                    }
                }
                st.owned.extend(o);
            }
            Op::Clear => {
                cache.clear();
                if st.was_reloaded.values().any(|b| *b) {
                    st.removed_reloaded = true;
                }
                st.cached.clear();
                st.was_reloaded.clear();
            }
            Op::Reload(t, n) | Op::BadReload(t, n) | Op::MissingReload(t, n) | Op::PanickyReload(t, n) => {
                let id = format!("k{n}");
                let missing = matches!(op, Op::MissingReload(..));
                let bad = missing || matches!(op, Op::BadReload(..));
                if let Some((tok_before, true)) = st.cached.get(&(*t, *n)).copied() {
                    if matches!(op, Op::PanickyReload(..)) {
                        match tok_before {
                            Some(tok) => {
                                PANIC_ON_DROP.store(tok, SeqCst);
                                flags.3 = true;
                            }
                            None => continue,
                        }
                    }
                    version += 1;
                    let before = by_type!(*t, reload_id_of, &cache, &id).unwrap();
                    if missing {
                        src.tree().remove(&id, t.ext());
                    } else {
                        src.tree().put(&id, t.ext(), if bad { b"bad".to_vec() } else { format!("v{version}").into_bytes() }, Variant::Buffer);
                    }
                    let sent_ok = src.send(&OwnedEntry::File(id.clone(), t.ext().to_string()));
                    if bad {
                        // a failed reload keeps (and does not drop) the old value; wait until the reloader has read the bad file
                        let _ = src.take_log();
                        let mut seen = false;
                        for _ in 0..4000 {
                            cache.hot_reload();
                            if src.take_log().iter().any(|e| e.entry == OwnedEntry::File(id.clone(), t.ext().to_string())) {
                                seen = true;
                                break;
                            }
                        }
                        if !seen {
                            let threads: Vec<String> = crate::procfs::self_threads().iter().map(|t| format!("{}:{}", t.comm, t.state)).collect();
                            out.fail("reload-lost", format!("step {step}: the notified change of ({t:?}, {id}) was never looked at in 4000 hot_reload calls (event accepted by the channel: {sent_ok}; entry still cached: {}; threads: {threads:?}); crate log: {}", by_type!(*t, reload_id_of, &cache, &id).is_some(), crate::tracelog::tail(40)));
                            break;
                        }
                        src.tree().put(&id, t.ext(), format!("v{version}").into_bytes(), Variant::Buffer);
                    } else {
                        if !by_type!(*t, wait_reload, &cache, &id, before) {
                            let threads: Vec<String> = crate::procfs::self_threads().iter().map(|t| format!("{}:{}", t.comm, t.state)).collect();
                            out.fail("reload-lost", format!("step {step}: the notified change of ({t:?}, {id}) was never applied (event accepted by the channel: {sent_ok}; threads: {threads:?}); crate log: {}", crate::tracelog::tail(40)));
                            break;
                        }
                        st.reloads += 1;
                        st.was_reloaded.insert((*t, *n), true);
                        // a later (queued) reload of the same key may still be pending from the bad edit: settle
                        let tok = match token_of(&cache, *t, &id) {
                            Some(Ok(tok)) => tok,
                            Some(Err(e)) => {
                                out.fail("corrupted-value", format!("step {step}: after the reload: {e}"));
                                break;
                            }
                            None => None,
                        };
                        st.cached.insert((*t, *n), (tok, true));
                        if PANIC_ON_DROP.swap(0, SeqCst) != 0 {
                            out.fail("replaced-value-not-dropped", format!("step {step}: the reload of ({t:?}, {id}) was applied but the destructor of the replaced value has not run"));
                            break;
                        }
                    }
                }
            }
            Op::GuardedReload(t, n, yields) => {
                let id = format!("k{n}");
                if !matches!(t, T::HV | T::A64) {
                    continue;
                }
                if let Some((Some(tok0), true)) = st.cached.get(&(*t, *n)).copied() {
                    version += 1;
                    flags.1 = true;
                    let before = by_type!(*t, reload_id_of, &cache, &id).unwrap();
                    let holding = std::sync::atomic::AtomicBool::new(false);
                    let problem: Mutex<Option<String>> = Mutex::new(None);
                    let ok = std::thread::scope(|s| {
                        let reader = s.spawn(|| {
                            macro_rules! hold {
                                ($ty:ty) => {{
                                    let h = cache.get_cached::<$ty>(&id).unwrap();
                                    let g = h.read();
                                    holding.store(true, SeqCst);
                                    for _ in 0..(*yields as u32 * 20 + 50) {
                                        std::thread::yield_now();
                                        if g.tok.token != tok0 || !ledger::is_alive(tok0) || !g.valid() {
                                            *problem.lock().unwrap() = Some(format!(
                                                "while a read guard was alive the value behind it changed (token {tok0} -> {}) or was dropped (alive: {})",
                                                g.tok.token,
                                                ledger::is_alive(tok0)
                                            ));
                                            break;
                                        }
                                    }
                                    drop(g);
                                }};
                            }
                            match t {
                                T::HV => hold!(HV),
                                _ => hold!(A64),
                            }
                        });
                        crate::props::common::spin_until(|| holding.load(SeqCst));
                        src.tree().put(&id, t.ext(), format!("v{version}").into_bytes(), Variant::Buffer);
                        src.send(&OwnedEntry::File(id.clone(), t.ext().to_string()));
                        // blocks until the guard is released (the reload needs the write lock)
                        let ok = by_type!(*t, wait_reload, &cache, &id, before);
                        reader.join().expect("reader");
                        ok
                    });
                    if let Some(p) = problem.lock().unwrap().take() {
                        out.fail("changed-under-guard", format!("step {step}: {p}"));
                        break;
                    }
                    if !ok {
                        out.fail("reload-lost", format!("step {step}: the notified change of ({t:?}, {id}) was never applied"));
                        break;
                    }
                    st.reloads += 1;
                    st.was_reloaded.insert((*t, *n), true);
                    let tok = token_of(&cache, *t, &id).and_then(|r| r.ok()).flatten();
                    st.cached.insert((*t, *n), (tok, true));
                }
            }
            Op::GhostReload(t, n) => {
                if st.cached.contains_key(&(*t, *n)) || !c.hot {
                    continue;
                }
                let id = format!("k{n}");
                version += 1;
                src.tree().put(&id, t.ext(), format!("v{version}").into_bytes(), Variant::Buffer);
                let _ = src.send(&OwnedEntry::File(id.clone(), t.ext().to_string()));
                cache.hot_reload();
                cache.hot_reload();
                if by_type!(*t, reload_id_of, &cache, &id).is_some() {
                    out.fail("ghost-entry", format!("step {step}: ({t:?}, {id}) was not cached; after a notified change of its file and hot_reload it is"));
                    break;
                }
            }
            Op::RaceLoad(t, n, threads) => {
                let id = format!("k{n}");
                if st.cached.contains_key(&(*t, *n)) || !matches!(t, T::HV | T::A64) {
                    continue;
                }
                let nthreads = (*threads as usize).clamp(2, 4);
                *GATE.lock().unwrap() = Some(std::sync::Arc::new(Gate { expected: nthreads, arrived: AtomicUsize::new(0), timed_out: std::sync::atomic::AtomicBool::new(false) }));
                let made_before = ledger::created();
                // odd `threads`: the last racer does not load but inserts a value of its own (get_or_insert) once the
                // loaders are all inside the loader, i.e. past the cache miss; it counts as the gate's last arrival, so
                // the loaders come out of the loader after the insertion: the inserted value is the one that stays
                let with_inserter = *threads % 2 == 1;
                let gate_now = GATE.lock().unwrap().clone().unwrap();
                let offered = AtomicU64::new(0);
                let results: Vec<Option<(usize, u64, bool)>> = std::thread::scope(|s| {
                    let hs: Vec<_> = (0..nthreads)
                        .map(|i| {
                            let gate_now = gate_now.clone();
                            let (cache, id, offered) = (&cache, &id, &offered);
                            s.spawn(move || match t {
                                _ if with_inserter && i == nthreads - 1 => {
                                    let mut spins = 0u32;
                                    while gate_now.arrived.load(SeqCst) < nthreads - 1 && spins < 3_000_000 {
                                        spins += 1;
                                        if spins % 64 == 0 {
                                            std::thread::yield_now();
                                        }
                                    }
                                    let r = match t {
                                        T::HV => {
                                            let v = HV::new();
                                            offered.store(v.tok.token, SeqCst);
                                            let h = cache.get_or_insert(id, v);
                                            let g = h.read();
                                            g.tok.touch();
                                            (h as *const _ as usize, g.tok.token, g.valid())
                                        }
                                        _ => {
                                            let v = A64::new();
                                            offered.store(v.tok.token, SeqCst);
                                            let h = cache.get_or_insert(id, v);
                                            let g = h.read();
                                            g.tok.touch();
                                            (h as *const _ as usize, g.tok.token, g.valid())
                                        }
                                    };
                                    gate_now.arrived.fetch_add(1, SeqCst);
                                    r
                                }
                                T::HV => {
                                    let h = cache.load::<HV>(&id).expect("load");
                                    let g = h.read();
                                    g.tok.touch();
                                    (h as *const _ as usize, g.tok.token, g.valid())
                                }
                                _ => {
                                    let h = cache.load::<A64>(&id).expect("load");
                                    let g = h.read();
                                    g.tok.touch();
                                    (h as *const _ as usize, g.tok.token, g.valid())
                                }
                            })
                        })
                        .collect();
                    hs.into_iter().map(|h| h.join().ok()).collect()
                });
                if results.iter().any(|r| r.is_none()) {
                    *GATE.lock().unwrap() = None;
                    out.fail("racer-panicked", format!("step {step}: a thread racing to load ({t:?}, {id}) panicked while reading through the handle it was given (a handle on an entry that is not the stored one)"));
                    break;
                }
                let results: Vec<(usize, u64, bool)> = results.into_iter().flatten().collect();
                *GATE.lock().unwrap() = None;
                let made = ledger::created() - made_before;
                if made >= 2 {
                    st.lost_race = true;
                }
                let first = results[0];
                if results.iter().any(|r| r.0 != first.0 || r.1 != first.1) || results.iter().any(|r| !r.2) {
                    out.fail("racers-disagree", format!("step {step}: racing loads of ({t:?}, {id}) returned (handle, value token, content valid) = {results:?}"));
                    break;
                }
                // (an inserted value is not reloadable; which racer won is not known when the gate timed out)
                let inserted_won = with_inserter && offered.load(SeqCst) == first.1;
                if with_inserter && !inserted_won && !gate_now.timed_out.load(SeqCst) {
                    out.fail("racers-disagree", format!("step {step}: a value was stored with get_or_insert for ({t:?}, {id}) while {} threads were inside the loader for that key; they came out afterwards, yet the stored value is token {} and not the inserted one (token {})", nthreads - 1, first.1, offered.load(SeqCst)));
                    break;
                }
                st.cached.insert((*t, *n), (Some(first.1), c.hot && !inserted_won));
            }
            Op::DropOwned(i) => {
                if !st.owned.is_empty() {
                    let k = (*i as usize) % st.owned.len();
                    drop(st.owned.swap_remove(k));
                }
            }
            Op::WrongTypeViews(t, n) => {
                let id = format!("k{n}");
                by_type!(*t, wrong_views, &cache, &id, out, step);
                flags.2 = true;
            }
        }
        if out.failed() {
            break;
        }
        check_ledger(&st, out, step, &what);
        if out.failed() {
            break;
        }
    }
    // owned values must all still be valid, then everything goes away exactly once
    if !out.failed() {
        if st.owned.iter().any(|o| !o.valid()) {
            out.fail("owned-value-corrupted", "a value handed to the caller by take / load_owned is corrupted");
        }
    }
    drop(cache);
    let owned = std::mem::take(&mut st.owned);
    drop(owned);
    if !out.failed() {
        if ledger::alive_count() != 0 || ledger::double_drops() != 0 || Z_LIVE.load(SeqCst) != 0 || B_LIVE.load(SeqCst) != 0 {
            out.fail(
                "final-drop-accounting",
                format!("after dropping the cache and every owned value: {} tracked values alive, {} double drops, {} zero-sized and {} one-byte values alive", ledger::alive_count(), ledger::double_drops(), Z_LIVE.load(SeqCst), B_LIVE.load(SeqCst)),
            );
        }
        if calloc::error_count() != 0 {
            out.fail("allocator", calloc::describe_errors());
        }
    }
    flags.0 = st.reloads > 0 && st.removed_reloaded || st.lost_race;
}

/// Runs `n` workers over `&T`: on threads when `T: Sync` (inherent method, preferred by method resolution),
/// one after the other otherwise (trait method). Decided at compile time, so the harness compiles either way.
struct Workers<'a, T>(&'a T);
static WORKER_PANICS: AtomicUsize = AtomicUsize::new(0);
trait RunSequentially<T> {
    fn run(&self, n: usize, f: &(dyn Fn(&T, usize) + Sync)) -> bool;
}
impl<T> RunSequentially<T> for Workers<'_, T> {
    fn run(&self, n: usize, f: &(dyn Fn(&T, usize) + Sync)) -> bool {
        for i in 0..n {
            f(self.0, i);
        }
        false
    }
}
impl<T: Sync> Workers<'_, T> {
    fn run(&self, n: usize, f: &(dyn Fn(&T, usize) + Sync)) -> bool {
        let sb = super::common::SpinBarrier::new(n);
        std::thread::scope(|s| {
            for i in 0..n {
                let (t, sb) = (self.0, &sb);
                s.spawn(move || {
                    sb.wait();
                    if std::panic::catch_unwind(std::panic::AssertUnwindSafe(|| f(t, i))).is_err() {
                        WORKER_PANICS.fetch_add(1, SeqCst);
                    }
                });
            }
        });
        true
    }
}

/// The AnyCache view of a LocalAssetCache used by several workers: every key ends up with exactly one live value.
fn local_any_race(c: &Case, out: &mut Outcome) {
    ledger::reset();
    let src = MemSource::new(false);
    for n in 0..8 {
        src.tree().put(&format!("k{n}"), "hv", b"v0".to_vec(), Variant::Buffer);
    }
    let cache = LocalAssetCache::with_source(src);
    let any: AnyCache = cache.as_any_cache();
    let n = c.local_any_workers as usize;
    let work = |any: &AnyCache, i: usize| {
        for k in 0..300usize {
            let h = any.get_or_insert(&format!("r{}", k % 40), HV::new());
            h.read().tok.touch();
            if let Ok(h) = any.load::<HV>(&format!("k{}", (k + i) % 8)) {
                h.read().tok.touch();
            }
        }
    };
    WORKER_PANICS.store(0, SeqCst);
    let threaded = Workers(&any).run(n, &work);
    let alive = ledger::alive_tokens().len();
    if WORKER_PANICS.load(SeqCst) != 0 {
        out.fail("local-cache-race", format!("{n} workers on threads used the AnyCache view of a LocalAssetCache (AnyCache is Send + Sync): {} of them panicked inside the cache", WORKER_PANICS.load(SeqCst)));
        std::mem::forget(cache);
        return;
    }
    if alive != 48 || ledger::double_drops() != 0 || ledger::use_after_drop() != 0 {
        out.fail(
            "local-cache-race",
            format!("{n} workers (on threads: {threaded}) inserted 40 keys and loaded 8 through the AnyCache view of a LocalAssetCache: {alive} tracked values are alive (expected 48), {} double drops, {} reads of dropped values", ledger::double_drops(), ledger::use_after_drop()),
        );
    }
    drop(cache);
    if !out.failed() && (ledger::alive_count() != 0 || ledger::double_drops() != 0) {
        out.fail("final-drop-accounting", format!("after dropping the LocalAssetCache: {} tracked values alive, {} double drops", ledger::alive_count(), ledger::double_drops()));
    }
    if calloc::error_count() != 0 {
        out.fail("allocator", calloc::describe_errors());
    }
    out.label("local-any-cache-workers");
    if threaded {
        out.label("any-cache-is-sync");
    }
}

/// A compound whose load stores a placeholder under its own key (re-entrant insertion) and then returns another
/// value: the key is occupied when the loaded value arrives, so the loaded value is the one that is dropped; the
/// placeholder - to which a handle was already handed out - stays.
struct Reent {
    tok: Tracked,
}
thread_local! {
    static REENT_SEEN: std::cell::Cell<(usize, u64)> = const { std::cell::Cell::new((0, 0)) };
}
impl assets_manager::Compound for Reent {
    fn load(cache: AnyCache, id: &assets_manager::SharedString) -> Result<Self, BoxedError> {
        let placeholder = Reent { tok: Tracked::new() };
        let token = placeholder.tok.token;
        let h = cache.get_or_insert(id, placeholder);
        REENT_SEEN.with(|s| s.set((h as *const assets_manager::Handle<Reent> as usize, token)));
        Ok(Reent { tok: Tracked::new() })
    }
}

fn reentrant_insertion(out: &mut Outcome) {
    macro_rules! go {
        ($cache:expr, $what:expr) => {{
            ledger::reset();
            let cache = $cache;
            match cache.as_any_cache().load::<Reent>("re") {
                Ok(h) => {
                    let (p, token) = REENT_SEEN.with(|s| s.get());
                    let g = h.read();
                    g.tok.touch();
                    let alive = ledger::alive_tokens();
                    if h as *const assets_manager::Handle<Reent> as usize != p || g.tok.token != token || alive != vec![token] || ledger::use_after_drop() != 0 {
                        out.fail(
                            "reentrant-insert",
                            format!("{}: a compound stored a placeholder (token {token}, handle {p:#x}) under its own key while it was being loaded: afterwards load returns handle {:#x} reading token {}, alive values {alive:?}, reads of dropped values {} (the placeholder must stay, the loaded value must be the one that is dropped)", $what, h as *const assets_manager::Handle<Reent> as usize, g.tok.token, ledger::use_after_drop()),
                        );
                    }
                }
                Err(e) => out.fail("reentrant-insert", format!("{}: loading the compound failed: {e}", $what)),
            }
            drop(cache);
            if !out.failed() && (ledger::alive_count() != 0 || ledger::double_drops() != 0) {
                out.fail("final-drop-accounting", format!("{}: after dropping the cache {} tracked values are alive, {} double drops", $what, ledger::alive_count(), ledger::double_drops()));
            }
        }};
    }
    go!(LocalAssetCache::with_source(MemSource::new(false)), "LocalAssetCache");
    if !out.failed() {
        go!(AssetCache::with_source(MemSource::new(false)), "AssetCache");
    }
    out.label("reentrant-insertion");
}

pub struct C13;

fn t_s() -> impl Strategy<Value = T> {
    prop_oneof![1 => Just(T::ZT), 1 => Just(T::B1), 2 => Just(T::HV), 2 => Just(T::A64)]
}

fn op_strategy() -> impl Strategy<Value = Op> {
    prop_oneof![
        6 => (t_s(), 0..NIDS).prop_map(|(t, n)| Op::Load(t, n)),
        2 => (t_s(), 0..NIDS).prop_map(|(t, n)| Op::LoadOwned(t, n)),
        3 => (t_s(), 0..NIDS).prop_map(|(t, n)| Op::GetOrInsert(t, n)),
        2 => (t_s(), 0..NIDS).prop_map(|(t, n)| Op::Remove(t, n)),
        2 => (t_s(), 0..NIDS).prop_map(|(t, n)| Op::Take(t, n)),
        1 => Just(Op::Clear),
        6 => (t_s(), 0..NIDS).prop_map(|(t, n)| Op::Reload(t, n)),
        1 => (t_s(), 0..NIDS).prop_map(|(t, n)| Op::BadReload(t, n)),
        1 => (t_s(), 0..NIDS).prop_map(|(t, n)| Op::MissingReload(t, n)),
        2 => (t_s(), 0..NIDS).prop_map(|(t, n)| Op::GhostReload(t, n)),
        1 => (prop_oneof![Just(T::HV), Just(T::A64)], 0..NIDS).prop_map(|(t, n)| Op::PanickyReload(t, n)),
        2 => (t_s(), 0..NIDS, 0u8..5).prop_map(|(t, n, y)| Op::GuardedReload(t, n, y)),
        2 => (t_s(), 0..NIDS, 2u8..5).prop_map(|(t, n, k)| Op::RaceLoad(t, n, k)),
        2 => any::<u8>().prop_map(Op::DropOwned),
        2 => (t_s(), 0..NIDS).prop_map(|(t, n)| Op::WrongTypeViews(t, n)),
    ]
}

impl Prop for C13 {
    fn id(&self) -> &'static str {
        "C13"
    }

    fn rule(&self) -> String {
        "cases = histories over 3 ids x four value layouts (zero-sized, one byte, heap-owning, 64-byte aligned; all assets) of load, load_owned, get_or_insert, remove, take, clear, successful and failing reloads (undecodable file, deleted file), notified changes of files whose asset was removed or taken, reloads in which the destructor of the replaced value panics, \
         reloads while a reader thread holds a guard, 2..4 threads loading one uncached key at the same instant (rendezvous in the loader; in half of these races one thread stores a value with get_or_insert while the others are inside the loader: that value stays), dropping owned values, and wrong-type views of cached handles; with and without a reloader; in a fifth of the cases 2..4 workers then use the AnyCache view of a LocalAssetCache (on threads iff AnyCache is Sync - decided at compile time - else sequentially), and a compound that stores a placeholder under its own key while it is being loaded (LocalAssetCache and AssetCache: the placeholder stays). \
         Oracle after every step: the set of live tracked values equals exactly {values reachable through the cache} + {values owned by the caller} (drop ledger; counters for the untracked layouts), nothing dropped twice, nothing read after its drop, \
         content and alignment intact, racers agree on one handle and value, the value behind a live guard neither changes nor dies, take returns the stored value; untyped views answer is/downcast_ref/read().downcast true for the stored type only; \
         at the end everything is dropped exactly once and the checking allocator saw no bad free. \
         non-trivial = a history with >= 1 reload and a later removal of a reloaded entry, or a lost insertion race; distinct = different canonical JSON"
            .into()
    }

    fn assumptions(&self) -> Vec<String> {
        vec!["races (insertion, guard vs reload) are shaped with rendezvous and sampled".into()]
    }

    fn plan(&self, tier: Tier) -> Plan {
        let mut p = Plan::new(match tier {
            Tier::Quick => 15000,
            Tier::Thorough => 150_000,
        });
        p.workers = 10;
        p.repeats = 2;
        p
    }

    fn strategy(&self, _tier: Tier) -> BoxedStrategy<Value> {
        (prop::collection::vec(op_strategy(), 2..40), prop::bool::weighted(0.85), prop_oneof![4 => Just(0u8), 1 => 2u8..5])
            .prop_map(|(ops, hot, local_any_workers)| to_case(&Case { ops, hot, local_any_workers }))
            .boxed()
    }

    fn run(&self, case: &Value) -> Outcome {
        let c: Case = from_case(case);
        let mut out = Outcome::new();
        ledger::reset();
        calloc::reset_errors();
        Z_LIVE.store(0, SeqCst);
        B_LIVE.store(0, SeqCst);
        let mut flags = (false, false, false, false);
        PANIC_ON_DROP.store(0, SeqCst);
        let _trace = crate::tracelog::scoped_trace();
        run_case(&c, &mut out, &mut flags);
        out.nontrivial = flags.0;
        if flags.0 {
            out.label("reload-then-removal / lost-race");
        }
        if flags.1 {
            out.label("guard-across-reload");
        }
        if flags.2 {
            out.label("wrong-type-views");
        }
        if flags.3 {
            out.label("replaced-value-destructor-panics");
        }
        if c.local_any_workers >= 2 && !out.failed() {
            local_any_race(&c, &mut out);
            if !out.failed() {
                reentrant_insertion(&mut out);
            }
        }
        out
    }

    fn required_labels(&self) -> Vec<&'static str> {
        vec!["reload-then-removal / lost-race", "guard-across-reload", "wrong-type-views", "replaced-value-destructor-panics", "local-any-cache-workers"]
    }
}

/// Fuzz decoder (the deterministic, single-threaded operations).
pub fn decode(u: &mut arbitrary::Unstructured) -> arbitrary::Result<Value> {
    let hot = u.int_in_range(0..=7)? != 0;
    let mut ops = Vec::new();
    let ts = [T::ZT, T::B1, T::HV, T::A64];
    for _ in 0..u.int_in_range(2..=48)? {
        let t = ts[u.int_in_range(0..=3)?];
        let n = u.int_in_range(0..=NIDS - 1)?;
        ops.push(match u.int_in_range(0..=15)? {
            0..=2 => Op::Load(t, n),
            3 => Op::LoadOwned(t, n),
            4 | 5 => Op::GetOrInsert(t, n),
            6 => Op::Remove(t, n),
            7 => Op::Take(t, n),
            8 => Op::Clear,
            9 | 10 => Op::Reload(t, n),
            11 => Op::BadReload(t, n),
            12 => Op::DropOwned(u.arbitrary()?),
            14 => Op::MissingReload(t, n),
            15 => Op::GhostReload(t, n),
            _ => Op::WrongTypeViews(t, n),
        });
    }
    Ok(to_case(&Case { ops, hot, local_any_workers: 0 }))
}
