//! Helpers shared by the properties.

use crate::memsrc::{MemSource, OwnedEntry, Variant};
use assets_manager::{loader::Loader, Asset, AssetCache, BoxedError, Handle, ReloadId};
use std::borrow::Cow;

/// A versioned asset: file `<id>.v` holding a decimal number.
#[derive(Debug, Clone, PartialEq, Eq)]
pub struct Ver(pub u64);

pub struct VerLoader;
impl Loader<Ver> for VerLoader {
    fn load(content: Cow<[u8]>, _ext: &str) -> Result<Ver, BoxedError> {
        let s = std::str::from_utf8(&content)?;
        Ok(Ver(s.trim().parse()?))
    }
}

impl Asset for Ver {
    const EXTENSION: &'static str = "v";
    type Loader = VerLoader;
}

/// Spins (yielding) until `cond` holds. The supervisor's blocked-state
/// detector / hard cap bound this; it is never a correctness signal.
pub fn spin_until(mut cond: impl FnMut() -> bool) {
    let mut n = 0u64;
    while !cond() {
        n += 1;
        if n < 200 {
            std::thread::yield_now();
        } else {
            std::thread::sleep(std::time::Duration::from_micros(200));
        }
    }
}

/// Writes a new version, notifies it and calls `hot_reload` until the handle's
/// reload id grows. Returns the new id.
pub fn bump_and_reload(cache: &AssetCache<MemSource>, src: &MemSource, h: &Handle<Ver>, id: &str, value: u64) -> ReloadId {
    let before = h.last_reload_id();
    src.tree().put(id, "v", value.to_string().into_bytes(), Variant::Buffer);
    src.send(&OwnedEntry::File(id.to_string(), "v".to_string()));
    loop {
        cache.hot_reload();
        let now = h.last_reload_id();
        if now != before {
            return now;
        }
        std::thread::yield_now();
    }
}

/// Harvests `n` distinct reload ids (in creation order) from real reloads.
pub fn harvest_reload_ids(n: usize) -> Vec<ReloadId> {
    let src = MemSource::new(true);
    src.tree().put("p", "v", b"0".to_vec(), Variant::Buffer);
    let cache = AssetCache::with_source(src.handle());
    let h = cache.load::<Ver>("p").expect("load p");
    let mut ids = vec![h.last_reload_id()];
    for i in 1..n {
        ids.push(bump_and_reload(&cache, &src, h, "p", i as u64));
    }
    ids
}

/// Maps a generated 16-bit value monotonically onto `0..len` (shrinks towards 0).
pub fn pick(i: u16, len: usize) -> usize {
    ((i as usize) * len) >> 16
}

/// A rendezvous for `n` threads (reusable) used to make threads hit a window at (nearly) the same
/// instant: it spins first and falls back to blocking, so that a party that never arrives (a deadlock
/// elsewhere) leaves the waiters asleep, where the blocked-state detector can see them.
pub struct SpinBarrier {
    n: usize,
    count: std::sync::atomic::AtomicUsize,
    gen: std::sync::atomic::AtomicUsize,
    m: std::sync::Mutex<()>,
    cv: std::sync::Condvar,
}

impl SpinBarrier {
    pub fn new(n: usize) -> Self {
        SpinBarrier {
            n,
            count: std::sync::atomic::AtomicUsize::new(0),
            gen: std::sync::atomic::AtomicUsize::new(0),
            m: std::sync::Mutex::new(()),
            cv: std::sync::Condvar::new(),
        }
    }
    pub fn wait(&self) {
        use std::sync::atomic::Ordering::SeqCst;
        let gen = self.gen.load(SeqCst);
        if self.count.fetch_add(1, SeqCst) + 1 == self.n {
            self.count.store(0, SeqCst);
            let _g = self.m.lock().unwrap_or_else(|e| e.into_inner());
            self.gen.fetch_add(1, SeqCst);
            self.cv.notify_all();
        } else {
            let mut spins = 0u32;
            while self.gen.load(SeqCst) == gen {
                spins += 1;
                if spins < 30_000 {
                    std::hint::spin_loop();
                } else {
                    let mut g = self.m.lock().unwrap_or_else(|e| e.into_inner());
                    while self.gen.load(SeqCst) == gen {
                        g = self.cv.wait(g).unwrap_or_else(|e| e.into_inner());
                    }
                    break;
                }
            }
        }
    }
}
