//! C06 - reloads are precise and every one is reported exactly once.

use super::hot::{self, GenOpts, Runner, WCase};
use crate::engine::{from_case, to_case, Outcome, Plan, Prop, Tier};
use crate::memsrc::OwnedEntry;
use crate::world::{affected, AKey, Dep, Ev, Fresh, Kind, SENTINEL};
use assets_manager::ReloadId;
use proptest::prelude::*;
use serde_json::Value;
use std::collections::{BTreeMap, BTreeSet, HashMap};

pub struct C06;

fn opts(tier: Tier) -> GenOpts {
    GenOpts { blocks: 1, unnotified: true, max_nodes: if tier == Tier::Quick { 6 } else { 9 }, max_steps: if tier == Tier::Quick { 6 } else { 10 }, faults: true }
}

fn union(a: &HashMap<(u32, AKey), BTreeSet<Dep>>, b: &HashMap<(u32, AKey), BTreeSet<Dep>>) -> HashMap<(u32, AKey), BTreeSet<Dep>> {
    let mut u = a.clone();
    for (k, v) in b {
        u.entry(k.clone()).or_default().extend(v.iter().cloned());
    }
    u
}

impl Prop for C06 {
    fn id(&self) -> &'static str {
        "C06"
    }

    fn rule(&self) -> String {
        "cases = C05's generated worlds and steps, plus edits that are never notified and notifications for unrelated / unknown entries. After every barrier, from the loader/source log of the pass(es): \
         (1) an asset is re-loaded by the reloader only if the shadow dependency graph (what its loads were observed to touch, including failed attempts) connects it to a notified entry, and at most once per pass; \
         (2) the reloader thread reads the source only as part of such a reload; (3) reload ids start at NEVER and change exactly once per successful rewrite (polled after every hot_reload call), never for unaffected or failed ones, \
         whose values also stay bit-identical; (4) ReloadWatcher::reloaded and reloaded_global answer true exactly when at least one rewrite happened since they were last asked, then false - for watchers created at the start and asked now and then, and for watchers created right before each step and first asked after it; every watcher's last_reload_id() is the handle's; (5) in about one case in eight a racing phase: after the k-th true from a polling watcher the value read is at least version k. \
         non-trivial = a step with both reloaded and untouched cached assets, or an un-notified edit of a file some cached asset depends on, or a failed reload; distinct = different canonical JSON"
            .into()
    }

    fn assumptions(&self) -> Vec<String> {
        vec![
            "the polling-reader race is sampled (about one case in eight: 40..300 reloads against two polling watchers and two guard-holding readers, then 200..1500 rewrites against 2..3 concurrent pollers of reloaded_global(): at most one true per rewrite in total; then the late-registration scenario: an asset loaded for the first time after the notification about its file was examined by a request (a second request queued behind, schedule hook) is not reloaded; the same with the notification examined by the idle reloader, proved by the schedule hook)".into(),
            "'an entry it recorded was notified' is read as: notified after the asset recorded it. A notification that was sent and examined before the asset was first loaded (the late-registration scenario) is not a reason to reload it: the asset already read what the notification was about; the pinned tree never does".into(),
            "in enhance_hot_reloading mode passes cannot be delimited from outside: the exact once-per-rewrite count is checked in hot_reload() mode only".into(),
        ]
    }

    fn plan(&self, tier: Tier) -> Plan {
        let mut p = Plan::new(match tier {
            Tier::Quick => 4000,
            Tier::Thorough => 40_000,
        });
        p.workers = 12;
        p.cases_per_process = 400;
        p
    }

    fn strategy(&self, tier: Tier) -> BoxedStrategy<Value> {
        // about one case in eight ends with the polling-reader race (encoded as a marker step without edits)
        (hot::wcase_strategy(opts(tier), 0.08), prop::bool::weighted(0.12), 40u16..300)
            .prop_map(|(mut c, race, n)| {
                if race {
                    c.steps.push(hot::Step { edits: Vec::new(), notified: Vec::new(), batched: false, duplicate: false, noise: Vec::new(), order: n });
                }
                to_case(&c)
            })
            .boxed()
    }

    fn run(&self, case: &Value) -> Outcome {
        let c: WCase = from_case(case);
        let mut out = Outcome::new();
        let mut r = Runner::new(&c);
        r.initial_loads(&c);
        let tag = r.world.tag;
        for (k, w) in &r.watches {
            if w.last_id != ReloadId::NEVER {
                out.fail("initial-id-not-never", format!("{k:?} was just loaded but its reload id is {:?}", w.last_id));
                return out;
            }
        }
        for (k, w) in r.watches.iter_mut() {
            if w.watcher.reloaded() || crate::world::typed_reloaded_global(r.world.cache.as_any_cache(), k.0, &k.1) == Some(true) {
                out.fail("reported-without-reload", format!("{k:?} was never reloaded but a watcher / reloaded_global reports a reload"));
                return out;
            }
        }
        for (sn, step) in c.steps.iter().enumerate() {
            if step.edits.is_empty() && step.noise.is_empty() && sn + 1 == c.steps.len() && step.order >= 40 {
                // the racing reader: after the k-th true from a polling ReloadWatcher the value read is at least the k-th version
                if let Some((sig, what)) = super::c07::watcher_race(step.order, (step.order % 2) as u8) {
                    out.fail(format!("racing-reader:{sig}"), format!("polling reader against {} reloads: {what}", step.order));
                    return out;
                }
                // several pollers of the global flag: each rewrite is reported at most once in total
                if let Some((sig, what)) = super::c07::global_flag_pollers(step.order.saturating_mul(5), 2 + (step.order % 2) as u8) {
                    out.fail(format!("racing-reader:{sig}"), what);
                    return out;
                }
                // an asset loaded after the notification about its file was examined is not reloaded
                if let Some((sig, what)) = super::c07::late_registration() {
                    out.fail(format!("racing-reader:{sig}"), what);
                    return out;
                }
                out.nontrivial = true;
                out.label("racing-polling-reader");
                break;
            }
            let deps_before = union(&r.world.shadow_deps(), &r.world.shadow_failed_extra());
            let cached_before = r.cached();
            // watchers created now and not asked before the step is over: they report exactly the rewrites of this step
            let mut fresh_watchers: Vec<(AKey, assets_manager::ReloadWatcher<'static>)> =
                r.watches.keys().filter_map(|k| r.new_watcher(k).map(|(w, _)| (k.clone(), w))).collect();
            let notes = r.apply_edits(step);
            let sent = r.send(step, notes);
            if !r.barrier() {
                out.fail("reload-lost", format!("step {sn}: the notified change of a loaded asset's file (the barrier's sentinel) was never applied although hot_reload kept returning {}", r.lost_detail));
                break;
            }
            let deps_after = union(&r.world.shadow_deps(), &r.world.shadow_failed_extra());
            let all = union(&deps_before, &deps_after);
            let mut notified: Vec<OwnedEntry> = sent.clone();
            notified.push(OwnedEntry::File(SENTINEL.to_string(), "la".to_string()));
            let upper = affected(&all, tag, &notified);
            let rt = r.reloader_tid;

            // (1) precision and at-most-once per pass
            let attempts = r.reload_attempts();
            for (pn, pass) in attempts.iter().enumerate() {
                let mut seen: BTreeSet<&AKey> = BTreeSet::new();
                for (key, _ok) in pass {
                    if !cached_before.contains(key) && !r.values_before.contains_key(key) {
                        // a load of a not yet cached asset driven by the crate (e.g. a directory's children): not a reload
                        continue;
                    }
                    if !upper.contains(key) {
                        out.fail("reloaded-without-notification", format!("step {sn}, pass {pn}: {key:?} was re-loaded by the reloader although nothing it recorded (directly or through other assets) was notified; notified: {sent:?}"));
                        return out;
                    }
                    if !c.static_mode && !seen.insert(key) {
                        out.fail("reloaded-twice-in-a-pass", format!("step {sn}, pass {pn}: {key:?} was re-loaded twice in one pass"));
                        return out;
                    }
                }
            }
            // (2) the reloader never reads the source on its own
            for e in r.all_events() {
                if let Ev::Read { entry, tid, in_load: false, tag: t, .. } = e {
                    if Some(*tid) == rt && *t == tag {
                        let ok = match entry {
                            OwnedEntry::File(id, ext) => (ext == "la" || ext == "lb") && upper.contains(&(Kind::Leaf, id.clone())),
                            OwnedEntry::Dir(id) => {
                                // the directory itself, or (first load of a new sub-directory) a recursive directory above it
                                let mut ok = upper.contains(&(Kind::Dir, id.clone()));
                                let mut cur = Some(id.as_str());
                                while let Some(c) = cur {
                                    ok |= upper.contains(&(Kind::Rec, c.to_string()));
                                    cur = crate::memsrc::parent_of(c);
                                }
                                ok
                            }
                        };
                        if !ok {
                            out.fail("source-read-without-notification", format!("step {sn}: the reloader thread read {entry:?} from the source although no asset depending on a notified entry needs it; notified: {sent:?}"));
                            return out;
                        }
                    }
                }
            }
            // (3) reload-id accounting and untouched values
            let mut node_ok: BTreeMap<AKey, u32> = BTreeMap::new();
            let mut leaf_attempts: BTreeMap<AKey, u32> = BTreeMap::new();
            let mut any_failed = false;
            for pass in &attempts {
                for (key, ok) in pass {
                    match ok {
                        Some(true) => *node_ok.entry(key.clone()).or_default() += 1,
                        Some(false) => any_failed = true,
                        None => *leaf_attempts.entry(key.clone()).or_default() += 1,
                    }
                }
            }
            let mut reloaded_any = false;
            let mut untouched_any = false;
            let keys: Vec<AKey> = r.watches.keys().cloned().collect();
            for key in &keys {
                let growths = r.watches[key].growths;
                let in_upper = upper.contains(key);
                if growths > 0 {
                    reloaded_any = true;
                }
                if key.1 == SENTINEL || !cached_before.contains(key) {
                    // assets cached for the first time during this step: nothing to account yet
                    continue;
                }
                if !in_upper {
                    untouched_any = true;
                    if growths != 0 {
                        out.fail("id-grew-without-reload", format!("step {sn}: the reload id of {key:?} changed {growths} time(s) although nothing it depends on was notified"));
                        return out;
                    }
                    if let (Some(prev), Some(now)) = (r.values_before.get(key), r.world.cached_value(tag, key.0, &key.1)) {
                        if prev != &now {
                            out.fail("unaffected-value-changed", format!("step {sn}: {key:?} changed from {prev:?} to {now:?} although nothing it depends on was notified"));
                            return out;
                        }
                    }
                } else if !c.static_mode {
                    match key.0 {
                        Kind::N0 | Kind::N1 => {
                            let exp = node_ok.get(key).copied().unwrap_or(0);
                            if growths != exp {
                                if std::env::var("VERIF_TRACE").is_ok() {
                                    for (pn, p) in r.passes.iter().enumerate() {
                                        for e in p {
                                            eprintln!("pass {pn}: {e:?}");
                                        }
                                    }
                                    eprintln!("reloader tid {:?}", r.reloader_tid);
                                }
                                out.fail("id-count-mismatch", format!("step {sn}: {key:?} was successfully re-loaded {exp} time(s) by the reloader but its reload id changed {growths} time(s)"));
                                return out;
                            }
                        }
                        Kind::Leaf => {
                            let att = leaf_attempts.get(key).copied().unwrap_or(0);
                            let exp = match r.world.fresh(key.0, &key.1) {
                                Fresh::Ok(_) => att,
                                _ => 0,
                            };
                            if growths != exp {
                                out.fail("id-count-mismatch", format!("step {sn}: {key:?} was re-read {att} time(s) by the reloader ({} now), but its reload id changed {growths} time(s)", if exp > 0 { "loadable" } else { "not loadable" }));
                                return out;
                            }
                            if exp == 0 && att > 0 {
                                any_failed = true;
                            }
                        }
                        _ => {
                            if growths as usize > r.passes.len() {
                                out.fail("id-count-mismatch", format!("step {sn}: the reload id of {key:?} changed {growths} times in {} passes", r.passes.len()));
                                return out;
                            }
                        }
                    }
                }
                // non-reloadable kinds never move
                if !key.0.type_reloadable() && growths != 0 {
                    out.fail("id-grew-without-reload", format!("step {sn}: the reload id of the non-reloadable {key:?} changed"));
                    return out;
                }
            }
            // (4) watchers and global flags: true iff >= 1 growth since last asked, then false.
            // They are not asked after every step, so that rewrites of several steps accumulate.
            let ask = step.order % 3 != 0 || sn + 1 == c.steps.len();
            let any = r.world.cache.as_any_cache();
            // every watcher names the asset's current reload id, asked or not
            for key in keys.iter() {
                let w = &r.watches[key];
                let now = crate::world::typed_reload_id(any, key.0, &key.1);
                if now.is_some() && Some(w.watcher.last_reload_id()) != now {
                    out.fail("watcher-id-mismatch", format!("step {sn}: ReloadWatcher::last_reload_id() of {key:?} is {:?}, the handle's last_reload_id() is {now:?}", w.watcher.last_reload_id()));
                    return out;
                }
            }
            for (key, fw) in fresh_watchers.iter_mut() {
                let Some(w) = r.watches.get(key) else { continue };
                if crate::world::typed_reload_id(any, key.0, &key.1).is_none() {
                    continue;
                }
                let expect = w.growths > 0;
                let got = fw.reloaded();
                let again = fw.reloaded();
                if got != expect || again {
                    out.fail("watcher-mismatch", format!("step {sn}: a watcher of {key:?} created right before the step and first asked after it: the asset was rewritten {} time(s) in the step, reloaded() = {got}, asked again = {again}", w.growths));
                    return out;
                }
            }
            for key in keys.iter().filter(|_| ask) {
                let w = r.watches.get_mut(key).unwrap();
                let expect = w.since_asked > 0;
                let got = w.watcher.reloaded();
                let again = w.watcher.reloaded();
                let g1 = crate::world::typed_reloaded_global(any, key.0, &key.1).unwrap_or(false);
                let g2 = crate::world::typed_reloaded_global(any, key.0, &key.1).unwrap_or(false);
                if got != expect || g1 != expect {
                    out.fail("watcher-mismatch", format!("step {sn}: {key:?} was rewritten {} time(s) since last asked, but ReloadWatcher::reloaded() = {got}, reloaded_global() = {g1}", w.since_asked));
                    return out;
                }
                if again || g2 {
                    out.fail("watcher-reports-twice", format!("step {sn}: {key:?}: asking again right away still reports a reload (reloaded() = {again}, reloaded_global() = {g2})"));
                    return out;
                }
                w.since_asked = 0;
            }
            for w in r.watches.values_mut() {
                w.growths = 0;
            }
            // labels
            if reloaded_any && untouched_any {
                out.nontrivial = true;
                out.label("reloaded+untouched");
            }
            if any_failed {
                out.nontrivial = true;
                out.label("failed-reload");
            }
            let unnotified_relevant = step.edits.iter().enumerate().any(|(k, e)| {
                !step.notified.get(k).copied().unwrap_or(true)
                    && e.notifications(true).iter().any(|n| !affected(&all, tag, std::slice::from_ref(n)).is_empty())
            });
            if unnotified_relevant {
                out.nontrivial = true;
                out.label("unnotified-relevant-edit");
            }
            r.snapshot_values();
        }
        out
    }

    fn required_labels(&self) -> Vec<&'static str> {
        vec!["reloaded+untouched", "failed-reload", "unnotified-relevant-edit", "racing-polling-reader"]
    }
}
