//! C11 - directory assets list exactly the matching ids of a directory / subtree.

use super::c04::EmbeddedHolder;
use crate::engine::{from_case, to_case, Outcome, Plan, Prop, Tier};
use crate::memsrc::{MemSource, Variant};
use crate::trees::{self, ArchOpts, Model, TreeSpec};
use assets_manager::source::{DirEntry, FileContent, FileSystem, Source, Tar, Zip};
use assets_manager::{asset::DirLoadable, loader::Loader, AnyCache, Asset, AssetCache, BoxedError, Compound, SharedString};
use proptest::prelude::*;
use serde::{Deserialize, Serialize};
use serde_json::Value;
use std::borrow::Cow;
use std::collections::BTreeSet;
use std::io;
use std::sync::Arc;

pub struct LenLoader;
macro_rules! elem {
    ($t:ident, $exts:expr) => {
        #[derive(Debug)]
        pub struct $t(#[allow(dead_code)] usize);
        impl Loader<$t> for LenLoader {
            fn load(content: Cow<[u8]>, _: &str) -> Result<$t, BoxedError> {
                Ok($t(content.len()))
            }
        }
        impl Asset for $t {
            const EXTENSIONS: &'static [&'static str] = $exts;
            type Loader = LenLoader;
        }
    };
}
elem!(D1, &["txt"]);
elem!(D2, &["txt", "x"]);
elem!(D3, &[""]);
elem!(D4, &["bin", "txt"]);

/// A hand-written DirLoadable: its ids are the `txt` files, and its recursion skips the directories whose own
/// name starts with `a` or `d` (`sub_directories` is overridden). `Arc<Pruned>` must list the same subtree.
pub struct Pruned(#[allow(dead_code)] usize);
fn pruned_name(dir_id: &str) -> bool {
    let last = dir_id.rsplit('.').next().unwrap_or("");
    last.starts_with('a') || last.starts_with('d')
}
impl Compound for Pruned {
    fn load(cache: AnyCache, id: &SharedString) -> Result<Self, BoxedError> {
        let source = cache.raw_source();
        let n = source.read(id, "txt")?.as_ref().len();
        Ok(Pruned(n))
    }
}
impl DirLoadable for Pruned {
    fn select_ids(cache: AnyCache, id: &SharedString) -> io::Result<Vec<SharedString>> {
        let mut ids = Vec::new();
        cache.raw_source().read_dir(id, &mut |e| {
            if let DirEntry::File(i, "txt") = e {
                ids.push(i.into());
            }
        })?;
        Ok(ids)
    }
    fn sub_directories(cache: AnyCache, id: &SharedString, mut f: impl FnMut(&str)) -> io::Result<()> {
        cache.raw_source().read_dir(id, &mut |e| {
            if let DirEntry::Directory(d) = e {
                if !pruned_name(d) {
                    f(d);
                }
            }
        })
    }
}

/// A source in which some directories (and everything below them) cannot be listed.
pub struct Deny<S> {
    inner: S,
    denied: Vec<String>,
}

impl<S> Deny<S> {
    fn is_denied(&self, id: &str) -> bool {
        self.denied.iter().any(|d| id == d || (id.starts_with(d.as_str()) && id.as_bytes().get(d.len()) == Some(&b'.')))
    }
}

impl<S: Source> Source for Deny<S> {
    fn read(&self, id: &str, ext: &str) -> io::Result<FileContent<'_>> {
        self.inner.read(id, ext)
    }
    fn read_dir(&self, id: &str, f: &mut dyn FnMut(DirEntry)) -> io::Result<()> {
        if self.is_denied(id) {
            return Err(io::Error::new(io::ErrorKind::PermissionDenied, "unreadable directory"));
        }
        self.inner.read_dir(id, f)
    }
    fn exists(&self, entry: DirEntry) -> bool {
        self.inner.exists(entry)
    }
}

#[derive(Debug, Clone, Copy, Serialize, Deserialize, PartialEq, Eq)]
pub enum SrcKind {
    Fs,
    Zip,
    Tar,
    Embedded,
    Mem,
}

#[derive(Debug, Clone, Serialize, Deserialize)]
pub struct Case {
    tree: TreeSpec,
    opts: ArchOpts,
    src: SrcKind,
    /// element type 0..4 (4 = Arc<D2>)
    elem: u8,
    /// indices (mod number of directories) of unreadable directories
    denied: Vec<u8>,
    /// which listed ids are loaded before iter_cached is asked (bit mask)
    preload: u32,
    /// directories to query (index into dirs + some missing ones)
    queries: Vec<u8>,
}

fn exts_of(elem: u8) -> &'static [&'static str] {
    match elem {
        0 => &["txt"],
        1 | 4 => &["txt", "x"],
        2 => &[""],
        _ => &["bin", "txt"],
    }
}

struct Expect {
    denied: Vec<String>,
}

impl Expect {
    fn is_denied(&self, id: &str) -> bool {
        self.denied.iter().any(|d| id == d || (id.starts_with(d.as_str()) && id.as_bytes().get(d.len()) == Some(&b'.')))
    }
    fn dir_ids(&self, m: &Model, d: &str, exts: &[&str]) -> Option<Vec<String>> {
        if !m.dirs.contains(d) || self.is_denied(d) {
            return None;
        }
        let set: BTreeSet<String> = m.files.keys().filter(|(id, ext)| trees::parent_of(id) == Some(d) && exts.contains(&ext.as_str())).map(|(id, _)| id.clone()).collect();
        Some(set.into_iter().collect())
    }
    /// the subtree a `Pruned` recursion visits
    fn rec_ids_pruned(&self, m: &Model, d: &str) -> Option<BTreeSet<String>> {
        let mut out: BTreeSet<String> = self.dir_ids(m, d, &["txt"])?.into_iter().collect();
        for sub in m.dirs.iter().filter(|s| !s.is_empty() && trees::parent_of(s) == Some(d) && !pruned_name(s)) {
            if let Some(more) = self.rec_ids_pruned(m, sub) {
                out.extend(more);
            }
        }
        Some(out)
    }
    fn rec_ids(&self, m: &Model, d: &str, exts: &[&str]) -> Option<BTreeSet<String>> {
        let mut out: BTreeSet<String> = self.dir_ids(m, d, exts)?.into_iter().collect();
        for sub in m.dirs.iter().filter(|s| !s.is_empty() && trees::parent_of(s) == Some(d)) {
            if let Some(more) = self.rec_ids(m, sub, exts) {
                out.extend(more);
            }
        }
        Some(out)
    }
}

fn run_typed<S: Source, T: Asset>(cache: &AssetCache<S>, m: &Model, c: &Case, exp: &Expect, out: &mut Outcome, label: &str, flags: &mut (bool, bool, bool)) {
    let exts = T::EXTENSIONS;
    let mut dirs: Vec<String> = m.dirs.iter().cloned().collect();
    dirs.push("missing".to_string());
    dirs.push("a.b.missing".to_string());
    let mut asked: BTreeSet<String> = BTreeSet::new();
    asked.insert(String::new());
    for q in &c.queries {
        asked.insert(dirs[*q as usize % dirs.len()].clone());
    }
    for d in &asked {
        // ---- load_dir
        let e = exp.dir_ids(m, d, exts);
        match (cache.load_dir::<T>(d), &e) {
            (Ok(h), Some(e)) => {
                let got: Vec<String> = h.read().ids().map(|s| s.to_string()).collect();
                if &got != e {
                    let mut sorted = got.clone();
                    sorted.sort();
                    let sig = if sorted.windows(2).any(|w| w[0] == w[1]) { "dir-duplicates" } else if &sorted == e { "dir-not-sorted" } else { "dir-ids-mismatch" };
                    out.fail(format!("{sig}:{label}"), format!("[{label}] load_dir::<{exts:?}>({d:?}) lists {got:?}, the files directly inside with these extensions are {e:?}"));
                    return;
                }
                if e.iter().any(|id| exts.iter().filter(|x| m.files.contains_key(&(id.clone(), x.to_string()))).count() >= 2) {
                    flags.0 = true;
                }
                // iter_cached: exactly the listed ids cached before the call
                let mut pre: BTreeSet<String> = BTreeSet::new();
                for (k, id) in e.iter().enumerate() {
                    if (c.preload >> (k % 32)) & 1 == 1 && cache.load::<T>(id).is_ok() {
                        pre.insert(id.clone());
                    }
                }
                let guard = h.read();
                let cached: Vec<String> = guard.iter_cached(cache).map(|h| h.id().to_string()).collect();
                let cached_set: BTreeSet<String> = cached.iter().cloned().collect();
                // other queries may have cached more of them already (iter below); what is demanded: cached ones, no more, no less
                let really_cached: BTreeSet<String> = e.iter().filter(|id| cache.contains::<T>(id)).cloned().collect();
                if cached_set != really_cached || cached.len() != cached_set.len() || !pre.is_subset(&cached_set) {
                    out.fail(format!("iter-cached-mismatch:{label}"), format!("[{label}] iter_cached of {d:?} yields {cached:?}, the listed ids cached at that point are {really_cached:?}"));
                    return;
                }
                // iter: one result per listed id, each handle has that id
                let results: Vec<Result<String, String>> = guard.iter(cache).map(|r| r.map(|h| h.id().to_string()).map_err(|e| e.id().to_string())).collect();
                let ids: Vec<String> = results.iter().map(|r| r.clone().unwrap_or_else(|e| e)).collect();
                if &ids != e || results.iter().any(|r| r.is_err()) {
                    out.fail(format!("iter-mismatch:{label}"), format!("[{label}] iter of {d:?} yields {results:?}, expected one loaded handle per listed id {e:?}"));
                    return;
                }
            }
            (Err(_), None) => {}
            (Ok(h), None) => {
                let got: Vec<String> = h.read().ids().map(|s| s.to_string()).collect();
                out.fail(format!("missing-dir-ok:{label}"), format!("[{label}] load_dir({d:?}) succeeded with {got:?} although the directory does not exist or cannot be read"));
                return;
            }
            (Err(err), Some(e)) => {
                out.fail(format!("dir-error:{label}"), format!("[{label}] load_dir({d:?}) failed ({}) although the directory exists and holds {e:?}", err.reason()));
                return;
            }
        }
        // ---- load_rec_dir
        let e = exp.rec_ids(m, d, exts);
        match (cache.load_rec_dir::<T>(d), &e) {
            (Ok(h), Some(e)) => {
                let got: Vec<String> = h.read().ids().map(|s| s.to_string()).collect();
                let set: BTreeSet<String> = got.iter().cloned().collect();
                if set.len() != got.len() {
                    out.fail(format!("rec-duplicates:{label}"), format!("[{label}] load_rec_dir({d:?}) lists an id twice: {got:?}"));
                    return;
                }
                if &set != e {
                    let missing: Vec<&String> = e.difference(&set).collect();
                    let extra: Vec<&String> = set.difference(e).collect();
                    out.fail(format!("rec-ids-mismatch:{label}"), format!("[{label}] load_rec_dir::<{exts:?}>({d:?}) lists {got:?}; missing {missing:?}, unexpected {extra:?} (unreadable directories: {:?})", exp.denied));
                    return;
                }
                if m.dirs.iter().any(|s| s.starts_with(d.as_str()) && s.split('.').count() >= d.split('.').filter(|x| !x.is_empty()).count() + 2) {
                    flags.1 = true;
                }
                let results: Vec<bool> = h.read().iter(cache).map(|r| r.is_ok()).collect();
                if results.len() != got.len() || results.iter().any(|ok| !ok) {
                    out.fail(format!("iter-mismatch:{label}"), format!("[{label}] iter of the recursive directory {d:?} yields {} results ({} failed) for {} ids", results.len(), results.iter().filter(|ok| !**ok).count(), got.len()));
                    return;
                }
            }
            (Err(_), None) => {}
            (Ok(_), None) => {
                out.fail(format!("missing-dir-ok:{label}"), format!("[{label}] load_rec_dir({d:?}) succeeded although the directory does not exist or cannot be read"));
                return;
            }
            (Err(err), Some(_)) => {
                out.fail(format!("dir-error:{label}"), format!("[{label}] load_rec_dir({d:?}) failed ({}) although the directory exists", err.reason()));
                return;
            }
        }
    }
    if !exp.denied.is_empty() {
        flags.2 = true;
    }
}

fn run_on<S: Source>(src: S, m: &Model, c: &Case, exp: &Expect, out: &mut Outcome, label: &str, flags: &mut (bool, bool, bool)) {
    let cache = AssetCache::without_hot_reloading(Deny { inner: src, denied: exp.denied.clone() });
    match c.elem % 6 {
        5 => run_pruned(&cache, m, c, exp, out, label),
        0 => run_typed::<_, D1>(&cache, m, c, exp, out, label, flags),
        1 => run_typed::<_, D2>(&cache, m, c, exp, out, label, flags),
        2 => run_typed::<_, D3>(&cache, m, c, exp, out, label, flags),
        3 => run_typed::<_, D4>(&cache, m, c, exp, out, label, flags),
        _ => run_arc(&cache, m, c, exp, out, label),
    }
}

/// A custom DirLoadable that overrides `sub_directories`, plain and wrapped in Arc.
fn run_pruned<S: Source>(cache: &AssetCache<S>, m: &Model, c: &Case, exp: &Expect, out: &mut Outcome, label: &str) {
    let dirs: Vec<String> = m.dirs.iter().cloned().collect();
    for q in c.queries.iter().chain([0u8].iter()) {
        let d = &dirs[*q as usize % dirs.len()];
        let e = exp.rec_ids_pruned(m, d);
        let plain = cache.load_rec_dir::<Pruned>(d).map(|h| h.read().ids().map(|s| s.to_string()).collect::<BTreeSet<String>>()).ok();
        let arc = cache.load_rec_dir::<Arc<Pruned>>(d).map(|h| h.read().ids().map(|s| s.to_string()).collect::<BTreeSet<String>>()).ok();
        if plain != e {
            out.fail(format!("rec-ids-mismatch:{label}"), format!("[{label}] load_rec_dir::<Pruned>({d:?}) (a DirLoadable whose sub_directories skips directories named a*/d*) lists {plain:?}, the subtree it visits holds {e:?}"));
            return;
        }
        if arc != e {
            out.fail(format!("rec-ids-mismatch-arc:{label}"), format!("[{label}] load_rec_dir::<Arc<Pruned>>({d:?}) lists {arc:?} but load_rec_dir::<Pruned> lists {e:?}: the Arc wrapper must visit the same sub-directories"));
            return;
        }
        if let Some(h) = cache.get_cached::<assets_manager::RecursiveDirectory<Arc<Pruned>>>(d) {
            let n = h.read().iter(cache).filter(|r| r.is_ok()).count();
            if Some(n) != e.as_ref().map(|e| e.len()) {
                out.fail(format!("iter-mismatch:{label}"), format!("[{label}] iter over Arc<Pruned> elements of {d:?} loads {n} ids, expected {:?}", e.as_ref().map(|e| e.len())));
                return;
            }
        }
    }
    if m.dirs.iter().any(|d| !d.is_empty() && pruned_name(d)) {
        out.label("custom-sub-directories-prunes");
    }
}

/// `Arc<D2>`: directory types wrapped in Arc list the same ids.
fn run_arc<S: Source>(cache: &AssetCache<S>, m: &Model, c: &Case, exp: &Expect, out: &mut Outcome, label: &str) {
    let exts = D2::EXTENSIONS;
    let dirs: Vec<String> = m.dirs.iter().cloned().collect();
    for q in c.queries.iter().chain([0u8].iter()) {
        let d = &dirs[*q as usize % dirs.len()];
        let e = exp.dir_ids(m, d, exts);
        match (cache.load_dir::<Arc<D2>>(d), &e) {
            (Ok(h), Some(e)) => {
                let got: Vec<String> = h.read().ids().map(|s| s.to_string()).collect();
                if &got != e {
                    out.fail(format!("dir-ids-mismatch:{label}"), format!("[{label}] load_dir::<Arc<_>>({d:?}) lists {got:?}, expected {e:?}"));
                    return;
                }
                let n = h.read().iter(cache).filter(|r| r.is_ok()).count();
                if n != e.len() {
                    out.fail(format!("iter-mismatch:{label}"), format!("[{label}] iter over Arc elements of {d:?} loads {n} of {} ids", e.len()));
                    return;
                }
            }
            (Err(_), None) => {}
            (r, e) => {
                out.fail(format!("dir-error:{label}"), format!("[{label}] load_dir::<Arc<_>>({d:?}) is {} but the model says {e:?}", if r.is_ok() { "Ok" } else { "Err" }));
                return;
            }
        }
        let e = exp.rec_ids(m, d, exts);
        match (cache.load_rec_dir::<Arc<D2>>(d), &e) {
            (Ok(h), Some(e)) => {
                let got: BTreeSet<String> = h.read().ids().map(|s| s.to_string()).collect();
                if &got != e {
                    out.fail(format!("rec-ids-mismatch:{label}"), format!("[{label}] load_rec_dir::<Arc<_>>({d:?}) lists {got:?}, expected {e:?}"));
                    return;
                }
            }
            (Err(_), None) => {}
            (r, e) => {
                out.fail(format!("dir-error:{label}"), format!("[{label}] load_rec_dir::<Arc<_>>({d:?}) is {} but the model says {e:?}", if r.is_ok() { "Ok" } else { "Err" }));
                return;
            }
        }
    }
}

pub struct C11;

impl Prop for C11 {
    fn id(&self) -> &'static str {
        "C11"
    }

    fn rule(&self) -> String {
        "cases = (C04's generated tree and archive options (incl. an entry without an id in one directory - archive member `backup.tar.x`, on disk a file with a non UTF-8 name - which no listing may show or stumble over); source kind FileSystem / Zip / Tar / Embedded (macro expansion code; in half of the cases its table rewritten in another order) / in-memory; element type with extensions [txt] | [txt, x] | [\"\"] | [bin, txt] | Arc of the second | a hand-written DirLoadable whose sub_directories skips directories named a*/d*, plain and in Arc (both must list the same subtree); \
         a set of unreadable directories (read_dir fails for them and everything below); a subset of ids loaded beforehand; directories to query incl. the root and missing ones). \
         Oracle from the tree: load_dir(d).ids() is the sorted duplicate-free list of stems of the files directly in d carrying one of the extensions; load_rec_dir(d).ids() as a set is the union over d and the readable directories below, without duplicates; \
         iter yields one loaded handle per id; iter_cached yields exactly the listed ids that are cached; missing or unreadable directories are errors; unreadable sub-directories do not hide their siblings. \
         non-trivial = a multi-extension type hitting one stem twice, or recursion over >= 2 levels, or an unreadable directory; distinct = different canonical JSON"
            .into()
    }

    fn assumptions(&self) -> Vec<String> {
        vec!["the element loader always succeeds (iter must then load every listed id)".into()]
    }

    fn plan(&self, tier: Tier) -> Plan {
        let mut p = Plan::new(match tier {
            Tier::Quick => 6000,
            Tier::Thorough => 60_000,
        });
        p.workers = 12;
        p
    }

    fn strategy(&self, _tier: Tier) -> BoxedStrategy<Value> {
        (
            trees::tree_strategy(16),
            trees::arch_opts_strategy(),
            prop_oneof![Just(SrcKind::Fs), Just(SrcKind::Zip), Just(SrcKind::Tar), Just(SrcKind::Embedded), Just(SrcKind::Mem)],
            0u8..6,
            prop_oneof![2 => Just(Vec::new()), 1 => prop::collection::vec(any::<u8>(), 1..3)],
            any::<u32>(),
            prop::collection::vec(any::<u8>(), 1..5),
        )
            .prop_map(|(tree, opts, src, elem, denied, preload, queries)| to_case(&Case { tree, opts, src, elem, denied, preload, queries }))
            .boxed()
    }

    fn run(&self, case: &Value) -> Outcome {
        let c: Case = from_case(case);
        let mut out = Outcome::new();
        let m = Model::from_spec(&c.tree);
        let dir_list: Vec<String> = m.dirs.iter().filter(|d| !d.is_empty()).cloned().collect();
        let denied: Vec<String> = if dir_list.is_empty() { Vec::new() } else { c.denied.iter().map(|i| dir_list[*i as usize % dir_list.len()].clone()).collect() };
        let exp = Expect { denied };
        let mut flags = (false, false, false);
        let label = format!("{:?}", c.src);
        match c.src {
            SrcKind::Mem => {
                let src = MemSource::new(false);
                {
                    let mut t = src.tree();
                    for d in &m.dirs {
                        t.mkdirs(d);
                    }
                    for ((id, ext), bytes) in &m.files {
                        t.put(id, ext, bytes.clone(), Variant::Buffer);
                    }
                }
                run_on(src, &m, &c, &exp, &mut out, &label, &mut flags);
            }
            SrcKind::Zip => match Zip::from_bytes(trees::make_zip(&m, &c.opts)) {
                Ok(z) => run_on(z, &m, &c, &exp, &mut out, &label, &mut flags),
                Err(e) => out.fail("open:zip", format!("opening a valid zip failed: {e}")),
            },
            SrcKind::Tar => match Tar::from_bytes(trees::make_tar(&m, &c.opts)) {
                Ok(t) => run_on(t, &m, &c, &exp, &mut out, &label, &mut flags),
                Err(e) => out.fail("open:tar", format!("opening a valid tar failed: {e}")),
            },
            SrcKind::Fs | SrcKind::Embedded => {
                let dir = trees::tmpdir("c11");
                let written = m.write_disk(&dir);
                trees::write_junk_on_disk(&m, &c.opts, &dir);
                if let Err(e) = written {
                    out.fail("harness", format!("writing the tree failed: {e}"));
                } else if c.src == SrcKind::Fs {
                    match FileSystem::new(&dir) {
                        Ok(fs) => run_on(fs, &m, &c, &exp, &mut out, &label, &mut flags),
                        Err(e) => out.fail("harness", format!("FileSystem::new failed: {e}")),
                    }
                } else {
                    match trees::expand_embedded(&dir) {
                        Ok(mut owned) => {
                            // in every other case the table is the macro's, written by hand in another order
                            if c.opts.order % 4 >= 2 {
                                trees::reorder_embedded(&mut owned, c.opts.order);
                            }
                            EmbeddedHolder::new(owned).with(|e| run_on(e.clone(), &m, &c, &exp, &mut out, &label, &mut flags))
                        }
                        Err(e) => out.fail("expand:embedded", format!("the embed! expansion failed: {e}")),
                    }
                }
                let _ = std::fs::remove_dir_all(&dir);
            }
        }
        out.nontrivial = flags.0 || flags.1 || flags.2;
        if flags.0 {
            out.label("stem-with-two-matching-extensions");
        }
        if flags.1 {
            out.label("recursion>=2-levels");
        }
        if flags.2 {
            out.label("unreadable-directory");
        }
        if c.opts.junk.is_some() {
            out.label("entry-without-id");
        }
        out.label(format!("src:{:?}", c.src));
        out.label(format!("elem:{}", ["txt", "txt+x", "empty-ext", "bin+txt", "arc", "custom-dirloadable"][(c.elem % 6) as usize]));
        out
    }

    fn required_labels(&self) -> Vec<&'static str> {
        vec!["stem-with-two-matching-extensions", "recursion>=2-levels", "unreadable-directory", "src:Embedded", "src:Zip", "elem:arc", "elem:custom-dirloadable", "custom-sub-directories-prunes"]
    }
}
