//! C03 - a load returns what the source holds: extension order, defaults, errors.

use crate::engine::{from_case, to_case, Outcome, Plan, Prop, Tier};
use crate::memsrc::{MemSource, Variant};
use assets_manager::{loader::Loader, AnyCache, Asset, AssetCache, BoxedError, Compound, SharedString};
use proptest::prelude::*;
use serde::{Deserialize, Serialize};
use serde_json::Value;
use std::borrow::Cow;
use std::cell::{Cell, RefCell};
use std::io;

const EXTS: [&[&str]; 4] = [&[], &["x"], &["x", "y"], &["x", "", "z"]];
const KINDS: [io::ErrorKind; 5] = [
    io::ErrorKind::PermissionDenied,
    io::ErrorKind::InvalidData,
    io::ErrorKind::UnexpectedEof,
    io::ErrorKind::Other,
    io::ErrorKind::TimedOut,
];

#[derive(Debug)]
struct DecodeErr;
impl std::fmt::Display for DecodeErr {
    fn fmt(&self, f: &mut std::fmt::Formatter) -> std::fmt::Result {
        f.write_str("harness decode error")
    }
}
impl std::error::Error for DecodeErr {}

#[derive(Debug)]
struct CustomErr;
impl std::fmt::Display for CustomErr {
    fn fmt(&self, f: &mut std::fmt::Formatter) -> std::fmt::Result {
        f.write_str("custom default_value error")
    }
}
impl std::error::Error for CustomErr {}

#[derive(Debug, Clone, Copy, PartialEq, Eq, Serialize, Deserialize)]
pub enum Class {
    Conversion,
    IoOther,
    NotFound,
    NoDefault,
    Custom,
    Unknown,
}

fn classify(e: &(dyn std::error::Error + 'static)) -> (Class, Option<io::ErrorKind>) {
    if e.downcast_ref::<DecodeErr>().is_some() {
        (Class::Conversion, None)
    } else if e.downcast_ref::<CustomErr>().is_some() {
        (Class::Custom, None)
    } else if let Some(io) = e.downcast_ref::<io::Error>() {
        if io.kind() == io::ErrorKind::InvalidInput {
            // only the harness loader produces this kind (the source's faults never do)
            (Class::Conversion, None)
        } else if io.kind() == io::ErrorKind::NotFound {
            (Class::NotFound, Some(io.kind()))
        } else {
            (Class::IoOther, Some(io.kind()))
        }
    } else if e.downcast_ref::<assets_manager::Error>().is_some() {
        (Class::Unknown, None)
    } else {
        (Class::NoDefault, None)
    }
}

thread_local! {
    /// 0 = pass the error through, 1 = Ok(marker), 2 = Err(custom)
    static DV_MODE: Cell<u8> = const { Cell::new(0) };
    static DV_SEEN: RefCell<Vec<(String, Class, Option<io::ErrorKind>)>> = const { RefCell::new(Vec::new()) };
}

fn render_bytes(b: &[u8]) -> String {
    if b.len() <= 48 {
        format!("{b:?}")
    } else {
        format!("len{}#{:016x}", b.len(), crate::engine::fnv(&String::from_utf8_lossy(b)) ^ (b.iter().map(|&x| x as u64).sum::<u64>()))
    }
}

#[derive(Debug)]
pub struct Ext<const N: usize>(String);

pub struct ExtLoader;
impl<const N: usize> Loader<Ext<N>> for ExtLoader {
    fn load(content: Cow<[u8]>, ext: &str) -> Result<Ext<N>, BoxedError> {
        if content.first() == Some(&b'!') {
            // a decoding failure may well be reported as an io::Error by the decoder ("!!..."): it still is the
            // loader's error, not the source's
            if content.get(1) == Some(&b'!') {
                return Err(Box::new(io::Error::new(io::ErrorKind::InvalidInput, "undecodable (reported by the decoder as an io::Error)")));
            }
            return Err(Box::new(DecodeErr));
        }
        Ok(Ext(format!("{ext:?}={}", render_bytes(&content))))
    }
}

impl<const N: usize> Asset for Ext<N> {
    const EXTENSIONS: &'static [&'static str] = EXTS[N];
    type Loader = ExtLoader;

    fn default_value(id: &SharedString, error: BoxedError) -> Result<Self, BoxedError> {
        let (class, kind) = classify(&*error);
        DV_SEEN.with(|s| s.borrow_mut().push((id.to_string(), class, kind)));
        match DV_MODE.with(|m| m.get()) {
            0 => Err(error),
            1 => Ok(Ext("default-marker".to_string())),
            _ => Err(Box::new(CustomErr)),
        }
    }
}

pub trait Rendered {
    fn render(&self) -> String;
}
impl<const N: usize> Rendered for Ext<N> {
    fn render(&self) -> String {
        self.0.clone()
    }
}

macro_rules! chain {
    ($name:ident, $inner:ident) => {
        #[derive(Debug)]
        pub struct $name<const N: usize>(String);
        impl<const N: usize> Compound for $name<N> {
            fn load(cache: AnyCache, id: &SharedString) -> Result<Self, BoxedError> {
                let inner = cache.load::<$inner<N>>(&format!("{id}1"))?;
                let v = inner.read().render();
                Ok($name(format!("c({v})")))
            }
        }
        impl<const N: usize> Rendered for $name<N> {
            fn render(&self) -> String {
                self.0.clone()
            }
        }
    };
}
chain!(C1, Ext);
chain!(C2, C1);
chain!(C3, C2);
chain!(C4, C3);

// ---------------------------------------------------------------------------

#[derive(Debug, Clone, Serialize, Deserialize, PartialEq)]
pub enum State {
    Present { bytes: Vec<u8>, variant: Variant },
    Absent,
    Unreadable(usize),
}

#[derive(Debug, Clone, Copy, Serialize, Deserialize, PartialEq)]
pub enum LoadKind {
    Load,
    LoadOwned,
    LoadExpect,
    Contains,
    GetCached,
}

#[derive(Debug, Clone, Serialize, Deserialize)]
pub enum Step {
    Edit { ext: u8, state: State },
    Do { kind: LoadKind, level: u8 },
    SetDefaultMode(u8),
}

#[derive(Debug, Clone, Serialize, Deserialize)]
pub struct Case {
    n: usize,
    depth: usize,
    dv_mode: u8,
    /// initial state per declared extension (index into EXTS[n]); missing = Absent
    init: Vec<State>,
    steps: Vec<Step>,
}

#[derive(Debug, PartialEq)]
enum Got {
    Val(String),
    /// ids along the error chain (outermost first), class and io kind of the innermost reason
    Err(Vec<String>, Class, Option<io::ErrorKind>),
    Panicked,
    Bool(bool),
    Absent,
}

fn error_chain(err: &assets_manager::Error) -> (Vec<String>, Class, Option<io::ErrorKind>) {
    let mut ids = vec![err.id().to_string()];
    let mut cur: &(dyn std::error::Error + 'static) = err.reason();
    while let Some(inner) = cur.downcast_ref::<assets_manager::Error>() {
        ids.push(inner.id().to_string());
        cur = inner.reason();
    }
    let (class, kind) = classify(cur);
    (ids, class, kind)
}

fn do_op<T: Compound + Rendered>(cache: AnyCache, id: &str, kind: LoadKind) -> Got {
    match kind {
        LoadKind::Load => match cache.load::<T>(id) {
            Ok(h) => Got::Val(h.read().render()),
            Err(e) => {
                let (ids, c, k) = error_chain(&e);
                Got::Err(ids, c, k)
            }
        },
        LoadKind::LoadOwned => match cache.load_owned::<T>(id) {
            Ok(v) => Got::Val(v.render()),
            Err(e) => {
                let (ids, c, k) = error_chain(&e);
                Got::Err(ids, c, k)
            }
        },
        LoadKind::LoadExpect => match std::panic::catch_unwind(std::panic::AssertUnwindSafe(|| cache.load_expect::<T>(id).read().render())) {
            Ok(v) => Got::Val(v),
            Err(_) => Got::Panicked,
        },
        LoadKind::Contains => Got::Bool(cache.contains::<T>(id)),
        LoadKind::GetCached => match cache.get_cached::<T>(id) {
            Some(h) => Got::Val(h.read().render()),
            None => Got::Absent,
        },
    }
}

fn dispatch(n: usize, level: usize, cache: AnyCache, id: &str, kind: LoadKind) -> Got {
    macro_rules! lv {
        ($n:literal) => {
            match level {
                0 => do_op::<Ext<$n>>(cache, id, kind),
                1 => do_op::<C1<$n>>(cache, id, kind),
                2 => do_op::<C2<$n>>(cache, id, kind),
                3 => do_op::<C3<$n>>(cache, id, kind),
                _ => do_op::<C4<$n>>(cache, id, kind),
            }
        };
    }
    match n {
        0 => lv!(0),
        1 => lv!(1),
        2 => lv!(2),
        _ => lv!(3),
    }
}

fn id_at(depth: usize, level: usize) -> String {
    format!("k{}", "1".repeat(depth - level))
}

/// What the statement says loading the leaf gives, from the per-extension states.
fn leaf_expectation(n: usize, states: &[State], dv_mode: u8) -> (Result<String, Class>, Class, Vec<io::ErrorKind>) {
    let exts = EXTS[n];
    let mut any_undecodable = false;
    let mut unreadable = Vec::new();
    let mut any_absent = false;
    for (i, ext) in exts.iter().enumerate() {
        match &states[i] {
            State::Present { bytes, .. } => {
                if bytes.first() == Some(&b'!') {
                    any_undecodable = true;
                } else {
                    return (Ok(format!("{ext:?}={}", render_bytes(bytes))), Class::Unknown, vec![]);
                }
            }
            State::Absent => any_absent = true,
            State::Unreadable(k) => unreadable.push(KINDS[*k]),
        }
    }
    let class = if any_undecodable {
        Class::Conversion
    } else if !unreadable.is_empty() {
        Class::IoOther
    } else if any_absent {
        Class::NotFound
    } else {
        Class::NoDefault
    };
    let res = match dv_mode {
        0 => Err(class),
        1 => Ok("default-marker".to_string()),
        _ => Err(Class::Custom),
    };
    (res, class, unreadable)
}


/// Characters around the payload of "number with surrounding whitespace" contents: Unicode white space (what
/// `str::trim` removes, and what ParseLoader is documented to remove) and two look-alikes that are not.
const WS: [char; 17] = [
    ' ', '\t', '\n', '\r', '\x0b', '\x0c', '\u{85}', '\u{a0}', '\u{1680}', '\u{2003}', '\u{2028}', '\u{2029}', '\u{202f}', '\u{205f}', '\u{3000}', '\u{200b}', '\u{feff}',
];

/// The loaders the crate ships, called on the same bytes (borrowed and owned): BytesLoader returns exactly the bytes,
/// StringLoader exactly the text (an error iff it is not UTF-8, nothing trimmed), ParseLoader what `FromStr` gives
/// for the text without its surrounding white space (an error iff that fails), whatever the target type; and the
/// `String` asset loaded through a cache agrees.
fn builtin_loaders(bytes: &[u8], variant: Variant) -> Option<(String, String)> {
    use assets_manager::loader::{BytesLoader, ParseLoader, StringLoader};
    use assets_manager::SharedBytes;
    let text = std::str::from_utf8(bytes).ok();
    macro_rules! parse_check {
        ($t:ty, $cow:expr, $eq:expr) => {{
            let want: Option<$t> = text.and_then(|s| s.trim().parse::<$t>().ok());
            let got: Option<$t> = <ParseLoader as Loader<$t>>::load($cow, "x").ok();
            let same = match (&want, &got) {
                (Some(a), Some(b)) => $eq(a, b),
                (None, None) => true,
                _ => false,
            };
            if !same {
                return Some((
                    "builtin-parse-loader".into(),
                    format!("ParseLoader as Loader<{}> on {}: gave {:?}, FromStr on the trimmed text gives {:?}", stringify!($t), render_bytes(bytes), got, want),
                ));
            }
        }};
    }
    for owned in [false, true] {
        let cow = || if owned { Cow::Owned(bytes.to_vec()) } else { Cow::Borrowed(bytes) };
        let v = <BytesLoader as Loader<Vec<u8>>>::load(cow(), "x").ok();
        let b = <BytesLoader as Loader<Box<[u8]>>>::load(cow(), "x").ok();
        let sb = <BytesLoader as Loader<SharedBytes>>::load(cow(), "x").ok();
        if v.as_deref() != Some(bytes) || b.as_deref() != Some(bytes) || sb.as_deref() != Some(bytes) {
            return Some(("builtin-bytes-loader".into(), format!("BytesLoader on {} (owned: {owned}) did not return exactly these bytes", render_bytes(bytes))));
        }
        let st = <StringLoader as Loader<String>>::load(cow(), "x").ok();
        let bs = <StringLoader as Loader<Box<str>>>::load(cow(), "x").ok();
        let ss = <StringLoader as Loader<SharedString>>::load(cow(), "x").ok();
        if st.as_deref() != text || bs.as_deref() != text || ss.as_deref() != text {
            return Some((
                "builtin-string-loader".into(),
                format!("StringLoader on {} (owned: {owned}) gave {:?} / {:?} / {:?}, the text is {:?}", render_bytes(bytes), st, bs, ss.as_deref(), text),
            ));
        }
        parse_check!(u64, cow(), |a: &u64, b: &u64| a == b);
        parse_check!(i32, cow(), |a: &i32, b: &i32| a == b);
        parse_check!(f64, cow(), |a: &f64, b: &f64| a.to_bits() == b.to_bits());
        parse_check!(bool, cow(), |a: &bool, b: &bool| a == b);
        parse_check!(char, cow(), |a: &char, b: &char| a == b);
        parse_check!(std::net::IpAddr, cow(), |a: &std::net::IpAddr, b: &std::net::IpAddr| a == b);
    }
    // the `String` asset (extension "txt") through a cache and the given FileContent variant
    let src = MemSource::new(false);
    src.tree().put("s", "txt", bytes.to_vec(), if bytes.len() > 4096 && variant == Variant::Slice { Variant::Owned } else { variant });
    let cache = AssetCache::with_source(src.handle());
    let got = cache.load::<String>("s").ok().map(|h| h.read().clone());
    let got2 = cache.load::<SharedString>("s").ok().map(|h| h.read().to_string());
    if got.as_deref() != text || got2.as_deref() != text {
        return Some((
            "builtin-string-asset".into(),
            format!("load::<String> / load::<SharedString> of a file holding {} gave {:?} / {:?}, the text is {:?}", render_bytes(bytes), got, got2, text),
        ));
    }
    None
}

/// One read fails once, with each kind in turn (also the kinds std's own loops retry or treat as "try again"): the
/// load that met it fails with that I/O error and names the id (extensions ["x"]) or falls through to the next
/// extension (["x", "y"]), after reading the failing entry exactly once; nothing is cached; the same call then succeeds.
fn transient_read_fault(bytes: &[u8]) -> Option<(String, String)> {
    const TRANSIENT: [io::ErrorKind; 8] = [
        io::ErrorKind::PermissionDenied,
        io::ErrorKind::InvalidData,
        io::ErrorKind::UnexpectedEof,
        io::ErrorKind::Other,
        io::ErrorKind::TimedOut,
        io::ErrorKind::Interrupted,
        io::ErrorKind::WouldBlock,
        io::ErrorKind::OutOfMemory,
    ];
    // (decodable content: the harness loader rejects a leading '!')
    let bytes: Vec<u8> = bytes.iter().copied().skip_while(|b| *b == b'!').collect();
    DV_MODE.with(|m| m.set(0));
    for kind in TRANSIENT {
        for two in [false, true] {
            let src = MemSource::new(false);
            src.tree().put("t", "x", bytes.clone(), Variant::Buffer);
            src.tree().put("t", "y", b"second".to_vec(), Variant::Buffer);
            let cache = AssetCache::with_source(src.handle());
            {
                let mut f = src.faults();
                f.counting = true;
                f.counter = 0;
                f.fail_at = Some((0, kind));
            }
            DV_SEEN.with(|s| s.borrow_mut().clear());
            let first = if two { do_op::<Ext<2>>(cache.as_any_cache(), "t", LoadKind::Load) } else { do_op::<Ext<1>>(cache.as_any_cache(), "t", LoadKind::Load) };
            let reads = src.faults().counter;
            src.faults().fail_at = None;
            let cached_after = if two { cache.contains::<Ext<2>>("t") } else { cache.contains::<Ext<1>>("t") };
            let what = |m: String| Some(("transient-read-fault".to_string(), format!("extensions {:?}, the first read of (\"t\", \"x\") fails once with {kind:?}: {m}", EXTS[if two { 2 } else { 1 }])));
            if two {
                let want = Got::Val(format!("{:?}={}", "y", render_bytes(b"second")));
                if first != want {
                    return what(format!("the load returned {first:?}, expected the second extension's value {want:?}"));
                }
                if reads != 2 {
                    return what(format!("the load read the source {reads} times, expected one read per extension"));
                }
            } else {
                match &first {
                    Got::Err(ids, Class::IoOther, Some(k)) if *k == kind && ids == &vec!["t".to_string()] => {}
                    other => return what(format!("the load returned {other:?}, expected an error naming \"t\" with that I/O error as its reason")),
                }
                if reads != 1 {
                    return what(format!("the failing load read the source {reads} times, expected once"));
                }
                if cached_after {
                    return what("the failing load left an entry in the cache".into());
                }
                let again = do_op::<Ext<1>>(cache.as_any_cache(), "t", LoadKind::Load);
                let want = Got::Val(format!("{:?}={}", "x", render_bytes(&bytes)));
                if again != want {
                    return what(format!("the same call after the fault returned {again:?}, expected {want:?}"));
                }
            }
        }
    }
    None
}

/// On a real FileSystem source: a directory sits where the file of the first extension should be and the second
/// extension is absent: the load fails with the I/O error of the first (it is not "not found"); once the second
/// extension exists the same call loads it.
fn directory_in_place_of_file() -> Option<(String, String)> {
    let dir = crate::trees::tmpdir("c03");
    let r = (|| {
        std::fs::create_dir_all(dir.join("t.x")).ok()?;
        let cache = AssetCache::new(&dir).ok()?;
        DV_MODE.with(|m| m.set(0));
        DV_SEEN.with(|s| s.borrow_mut().clear());
        let first = do_op::<Ext<2>>(cache.as_any_cache(), "t", LoadKind::Load);
        match &first {
            Got::Err(ids, Class::IoOther, Some(_)) if ids == &vec!["t".to_string()] => {}
            other => return Some(Some(("error-class".to_string(), format!("FileSystem source, extensions [\"x\", \"y\"]: `t.x` is a directory and `t.y` does not exist: the load returned {other:?}, expected an error naming \"t\" whose reason is the I/O error met on t.x (preferred over not-found)")))),
        }
        std::fs::write(dir.join("t.y"), b"second").ok()?;
        let again = do_op::<Ext<2>>(cache.as_any_cache(), "t", LoadKind::Load);
        let want = Got::Val(format!("{:?}={}", "y", render_bytes(b"second")));
        if again != want {
            return Some(Some(("value-mismatch".to_string(), format!("FileSystem source: `t.x` is a directory, `t.y` now exists: the load returned {again:?}, expected {want:?}"))));
        }
        Some(None)
    })();
    let _ = std::fs::remove_dir_all(&dir);
    r.flatten()
}

/// Whether the content is a parseable payload between non-ASCII white space
fn unicode_ws_around_payload(bytes: &[u8]) -> bool {
    match std::str::from_utf8(bytes) {
        Ok(s) => {
            let t = s.trim();
            !t.is_empty() && t.len() < s.len() && (t.parse::<f64>().is_ok() || t.parse::<bool>().is_ok()) && s.chars().any(|c| !c.is_ascii() && c.is_whitespace())
        }
        Err(_) => false,
    }
}

pub struct C03;

fn bytes_strategy(thorough: bool) -> impl Strategy<Value = Vec<u8>> {
    let big = if thorough { 1 << 20 } else { 1 << 16 };
    prop_oneof![
        2 => Just(Vec::new()),
        3 => any::<u8>().prop_map(|b| vec![b]),
        3 => "[ \\t\\n]{0,3}[a-z0-9]{0,8}[ \\t\\n]{0,3}".prop_map(|s| s.into_bytes()),
        3 => prop::collection::vec(any::<u8>(), 0..40),
        // a payload the built-in ParseLoader understands, between white space of every kind (and look-alikes)
        3 => (
            prop::collection::vec(0usize..WS.len(), 0..3),
            prop_oneof![
                "[0-9]{1,6}".boxed(), "-?[0-9]{1,3}".boxed(), "true|false".boxed(), "-?[0-9]{1,3}\\.[0-9]{1,3}".boxed(),
                "127\\.0\\.0\\.[0-9]{1,2}".boxed(), "[a-z]".boxed(), "[0-9]{1,3} [0-9]{1,3}".boxed(), "nan|inf|1e3".boxed(),
            ],
            prop::collection::vec(0usize..WS.len(), 0..3),
        )
            .prop_map(|(a, core, b)| {
                let mut s: String = a.iter().map(|&i| WS[i]).collect();
                s.push_str(&core);
                s.extend(b.iter().map(|&i| WS[i]));
                s.into_bytes()
            }),
        // undecodable: starts with '!'
        4 => (prop::collection::vec(any::<u8>(), 0..10), any::<bool>()).prop_map(|(mut v, io_flavour)| {
            v.insert(0, b'!');
            if io_flavour {
                v.insert(0, b'!');
            }
            v
        }),
        1 => (any::<u8>(), (big / 2)..big).prop_map(|(b, n)| (0..n).map(|i| b.wrapping_add((i % 251) as u8).max(b'"')).collect()),
    ]
}

fn state_strategy(thorough: bool) -> impl Strategy<Value = State> {
    prop_oneof![
        5 => (bytes_strategy(thorough), prop_oneof![Just(Variant::Slice), Just(Variant::Buffer), Just(Variant::Owned)])
            .prop_map(|(bytes, variant)| {
                // large contents are never leaked as static slices
                let variant = if bytes.len() > 4096 && variant == Variant::Slice { Variant::Owned } else { variant };
                State::Present { bytes, variant }
            }),
        3 => Just(State::Absent),
        2 => (0..KINDS.len()).prop_map(State::Unreadable),
    ]
}

fn step_strategy(thorough: bool) -> impl Strategy<Value = Step> {
    let kind = prop_oneof![
        5 => Just(LoadKind::Load),
        3 => Just(LoadKind::LoadOwned),
        2 => Just(LoadKind::LoadExpect),
        2 => Just(LoadKind::Contains),
        1 => Just(LoadKind::GetCached),
    ];
    prop_oneof![
        4 => (0u8..3, state_strategy(thorough)).prop_map(|(ext, state)| Step::Edit { ext, state }),
        8 => (kind, 0u8..5).prop_map(|(kind, level)| Step::Do { kind, level }),
        1 => (0u8..3).prop_map(Step::SetDefaultMode),
    ]
}

impl Prop for C03 {
    fn id(&self) -> &'static str {
        "C03"
    }

    fn rule(&self) -> String {
        "cases = (extension list of length 0..3 (one containing \"\"), compound chain depth 0..4, default_value mode, per-extension file state \
         present(bytes as Slice|Buffer|Owned)/absent/unreadable(io kind), then a history of edits (break/repair), default-mode switches and \
         load / load_owned / load_expect / contains / get_cached at any chain level). Oracle computed from the statement: first declared extension that is present \
         and decodable wins and the loader sees exactly its bytes and extension; otherwise error class Conversion > Io(other) > NotFound > no-default, default_value \
         receives that class and decides; errors name the requested id and nest once per compound level; failures cache nothing; cached levels shadow later edits, load_owned follows the source. \
         Every content of the case also goes through the loaders the crate ships (BytesLoader, StringLoader, ParseLoader for u64 / i32 / f64 / bool / char / IpAddr, borrowed and owned; the String and SharedString assets through a cache): exactly the bytes / exactly the text / FromStr of the text without its surrounding (Unicode) white space; and a read that fails once with each of 8 I/O error kinds (incl. Interrupted, WouldBlock) fails that load with that error after exactly one read, or falls through to the next extension, and caches nothing; in one case in eight a real FileSystem source with a directory in place of the first extension's file (an I/O error, preferred over the second extension's not-found). \
         non-trivial = >= 2 declared extensions in different states, or a failing load followed by a successful one on the same level, or depth >= 2; distinct = different canonical JSON"
            .into()
    }

    fn assumptions(&self) -> Vec<String> {
        vec!["the loader under test in the histories is a harness loader (decodes unless the first byte is '!'; a second '!' makes it report the failure as an io::Error, which still is a decoding error); sources deliver bytes through every FileContent variant; the built-in loaders are checked per content, not per history".into(), "'white space' in ParseLoader's documentation is taken to mean what str::trim removes (Unicode White_Space), as the pinned implementation does".into()]
    }

    fn plan(&self, tier: Tier) -> Plan {
        Plan::new(match tier {
            Tier::Quick => 30000,
            Tier::Thorough => 200_000,
        })
    }

    fn strategy(&self, tier: Tier) -> BoxedStrategy<Value> {
        let th = tier == Tier::Thorough;
        (
            0usize..4,
            0usize..5,
            0u8..3,
            prop::collection::vec(state_strategy(th), 3),
            prop::collection::vec(step_strategy(th), 1..25),
        )
            .prop_map(|(n, depth, dv_mode, init, steps)| to_case(&Case { n, depth, dv_mode, init, steps }))
            .boxed()
    }

    fn run(&self, case: &Value) -> Outcome {
        let c: Case = from_case(case);
        let mut out = Outcome::new();
        let exts = EXTS[c.n];
        let leaf_id = id_at(c.depth, 0);
        let src = MemSource::new(false);
        let mut states: Vec<State> = c.init.clone();
        states.resize(3, State::Absent);
        let apply_state = |src: &MemSource, ext: &str, st: &State| {
            src.faults().unreadable_files.remove(&(leaf_id.clone(), ext.to_string()));
            match st {
                State::Present { bytes, variant } => {
                    src.tree().put(&leaf_id, ext, bytes.clone(), *variant);
                }
                State::Absent => {
                    src.tree().remove(&leaf_id, ext);
                }
                State::Unreadable(k) => {
                    src.tree().remove(&leaf_id, ext);
                    src.faults().unreadable_files.insert((leaf_id.clone(), ext.to_string()), KINDS[*k]);
                }
            }
        };
        for (i, ext) in exts.iter().enumerate() {
            apply_state(&src, ext, &states[i]);
        }
        let cache = AssetCache::with_source(src.handle());
        let any = cache.as_any_cache();
        let mut dv_mode = c.dv_mode;
        DV_MODE.with(|m| m.set(dv_mode));
        let mut cached: Vec<Option<String>> = vec![None; c.depth + 1];
        let mut failed_levels = vec![false; c.depth + 1];
        let mut fail_then_ok = false;

        // distinct states among the declared extensions
        let distinct_states = exts.len() >= 2 && {
            let d = |s: &State| std::mem::discriminant(s);
            (1..exts.len()).any(|i| d(&states[i]) != d(&states[0]) || states[i] != states[0])
        };

        for (k, step) in c.steps.iter().enumerate() {
            match step {
                Step::Edit { ext, state } => {
                    if exts.is_empty() {
                        continue;
                    }
                    let i = (*ext as usize) % exts.len();
                    states[i] = state.clone();
                    apply_state(&src, exts[i], state);
                }
                Step::SetDefaultMode(m) => {
                    dv_mode = *m;
                    DV_MODE.with(|mm| mm.set(dv_mode));
                }
                Step::Do { kind, level } => {
                    let level = (*level as usize).min(c.depth);
                    let id = id_at(c.depth, level);
                    // model
                    let (leaf, class, kinds) = leaf_expectation(c.n, &states, dv_mode);
                    let mut uses_leaf = false;
                    let mut model_load = |cached: &mut Vec<Option<String>>, top: usize, owned: bool| -> Result<String, Class> {
                        // find the highest cached level below (or at, unless owned) `top`
                        let mut start = None;
                        for l in (0..=top).rev() {
                            if l == top && owned {
                                continue;
                            }
                            if cached[l].is_some() {
                                start = Some(l);
                                break;
                            }
                        }
                        let (mut v, from) = match start {
                            Some(l) => (cached[l].clone().unwrap(), l),
                            None => {
                                uses_leaf = true;
                                let v = leaf.clone()?;
                                if !(owned && top == 0) {
                                    cached[0] = Some(v.clone());
                                }
                                (v, 0)
                            }
                        };
                        for l in from + 1..=top {
                            v = format!("c({v})");
                            if !(owned && l == top) {
                                cached[l] = Some(v.clone());
                            }
                        }
                        Ok(v)
                    };
                    DV_SEEN.with(|s| s.borrow_mut().clear());
                    let got = dispatch(c.n, level, any, &id, *kind);
                    let exp: Result<String, Class> = match kind {
                        LoadKind::Load | LoadKind::LoadExpect => model_load(&mut cached, level, false),
                        LoadKind::LoadOwned => model_load(&mut cached, level, true),
                        LoadKind::Contains | LoadKind::GetCached => Ok(String::new()),
                    };
                    match kind {
                        LoadKind::Contains => {
                            let e = Got::Bool(cached[level].is_some());
                            if got != e {
                                out.fail("contains-mismatch", format!("step {k} {step:?}: contains returned {got:?}, expected {e:?} (a failed load must cache nothing, a successful one must)"));
                            }
                        }
                        LoadKind::GetCached => {
                            let e = match &cached[level] {
                                Some(v) => Got::Val(v.clone()),
                                None => Got::Absent,
                            };
                            if got != e {
                                out.fail("get-cached-mismatch", format!("step {k} {step:?}: get_cached returned {got:?}, expected {e:?}"));
                            }
                        }
                        _ => match (&got, &exp) {
                            (Got::Val(g), Ok(e)) => {
                                if g != e {
                                    out.fail("value-mismatch", format!("step {k} {step:?} (extensions {exts:?}, states {states:?}): loaded {g:?}, expected {e:?}"));
                                }
                                if failed_levels[level] {
                                    fail_then_ok = true;
                                }
                            }
                            (Got::Panicked, Err(_)) if *kind == LoadKind::LoadExpect => {
                                failed_levels[level] = true;
                            }
                            (Got::Err(ids, gclass, gkind), Err(eclass)) => {
                                failed_levels[level] = true;
                                let exp_ids: Vec<String> = (0..=level).rev().map(|l| id_at(c.depth, l)).collect();
                                if ids != &exp_ids {
                                    out.fail("error-id-chain", format!("step {k} {step:?}: error chain names {ids:?}, expected {exp_ids:?} (requested id first, one level per compound)"));
                                } else if gclass != eclass {
                                    out.fail("error-class", format!("step {k} {step:?} (extensions {exts:?}, states {states:?}, default mode {dv_mode}): error class {gclass:?} ({gkind:?}), expected {eclass:?}"));
                                } else if *eclass == Class::IoOther && !gkind.map_or(false, |gk| kinds.contains(&gk)) {
                                    out.fail("error-io-kind", format!("step {k} {step:?}: io error kind {gkind:?} is none of the injected kinds {kinds:?}"));
                                }
                            }
                            _ => {
                                out.fail("result-mismatch", format!("step {k} {step:?} (extensions {exts:?}, states {states:?}, default mode {dv_mode}): got {got:?}, expected {exp:?}"));
                            }
                        },
                    }
                    // default_value must have been consulted with an error of the expected class
                    if !out.failed() && uses_leaf && leaf_expectation(c.n, &states, 0).0.is_err() && !matches!(kind, LoadKind::Contains | LoadKind::GetCached) {
                        let seen = DV_SEEN.with(|s| s.borrow().clone());
                        if seen.len() != 1 {
                            out.fail("default-value-calls", format!("step {k} {step:?}: default_value was called {} times for a leaf that no extension could provide", seen.len()));
                        } else {
                            let (sid, sclass, skind) = &seen[0];
                            if sid != &leaf_id || *sclass != class || (class == Class::IoOther && !skind.map_or(false, |gk| kinds.contains(&gk))) {
                                out.fail("default-value-arg", format!("step {k} {step:?}: default_value received ({sid:?}, {sclass:?}, {skind:?}), expected id {leaf_id:?} and class {class:?} (kinds {kinds:?})"));
                            }
                        }
                    } else if !out.failed() && !matches!(kind, LoadKind::Contains | LoadKind::GetCached) {
                        let seen = DV_SEEN.with(|s| s.borrow().len());
                        if seen != 0 {
                            out.fail("default-value-calls", format!("step {k} {step:?}: default_value was called although an extension was loadable or nothing had to be loaded"));
                        }
                    }
                    if out.failed() {
                        return out;
                    }
                }
            }
        }
        // the loaders the crate ships, on every content of the case
        let contents = c.init.iter().chain(c.steps.iter().filter_map(|s| match s {
            Step::Edit { state, .. } => Some(state),
            _ => None,
        }));
        if c.steps.len() % 8 == 3 {
            if let Some((sig, what)) = directory_in_place_of_file() {
                out.fail(sig, what);
                return out;
            }
        }
        let mut seen_ws = false;
        let mut transient_done = false;
        for st in contents {
            if let State::Present { bytes, .. } = st {
                if !transient_done && bytes.len() <= 64 {
                    transient_done = true;
                    if let Some((sig, what)) = transient_read_fault(bytes) {
                        out.fail(sig, what);
                        return out;
                    }
                }
            }
            if let State::Present { bytes, variant } = st {
                if let Some((sig, what)) = builtin_loaders(bytes, *variant) {
                    out.fail(sig, what);
                    return out;
                }
                seen_ws |= unicode_ws_around_payload(bytes);
            }
        }
        if seen_ws {
            out.label("builtin-loaders-unicode-whitespace");
        }
        out.nontrivial = distinct_states || fail_then_ok || c.depth >= 2;
        if distinct_states {
            out.label("mixed-extension-states");
        }
        if fail_then_ok {
            out.label("fail-then-repair");
        }
        if c.depth >= 2 {
            out.label("depth>=2");
        }
        if exts.is_empty() {
            out.label("empty-extension-list");
        }
        out
    }

    fn required_labels(&self) -> Vec<&'static str> {
        vec!["mixed-extension-states", "fail-then-repair", "depth>=2", "empty-extension-list", "builtin-loaders-unicode-whitespace"]
    }
}

/// Fuzz decoder: file contents come verbatim from the fuzzer's bytes.
pub fn decode(u: &mut arbitrary::Unstructured) -> arbitrary::Result<Value> {
    fn state(u: &mut arbitrary::Unstructured) -> arbitrary::Result<State> {
        Ok(match u.int_in_range(0..=5)? {
            0..=2 => {
                let len = u.int_in_range(0..=64)?;
                let bytes = u.bytes(len.min(u.len()))?.to_vec();
                let variant = match u.int_in_range(0..=2)? {
                    0 => Variant::Slice,
                    1 => Variant::Buffer,
                    _ => Variant::Owned,
                };
                State::Present { bytes, variant }
            }
            3 | 4 => State::Absent,
            _ => State::Unreadable(u.int_in_range(0..=KINDS.len() - 1)?),
        })
    }
    let n = u.int_in_range(0..=3)?;
    let depth = u.int_in_range(0..=4)?;
    let dv_mode = u.int_in_range(0..=2)?;
    let init = vec![state(u)?, state(u)?, state(u)?];
    let mut steps = Vec::new();
    for _ in 0..u.int_in_range(1..=24)? {
        steps.push(match u.int_in_range(0..=12)? {
            0..=3 => Step::Edit { ext: u.int_in_range(0..=2)?, state: state(u)? },
            4 => Step::SetDefaultMode(u.int_in_range(0..=2)?),
            _ => Step::Do {
                kind: match u.int_in_range(0..=4)? {
                    0 => LoadKind::Load,
                    1 => LoadKind::LoadOwned,
                    2 => LoadKind::LoadExpect,
                    3 => LoadKind::Contains,
                    _ => LoadKind::GetCached,
                },
                level: u.int_in_range(0..=4)?,
            },
        });
    }
    Ok(to_case(&Case { n, depth, dv_mode, init, steps }))
}
