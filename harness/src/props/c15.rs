//! C15 - the reloader is quiet when idle and goes away with its cache.

use crate::engine::{from_case, to_case, Outcome, Plan, Prop, Tier};
use crate::memsrc::{MemSource, OwnedEntry, Variant};
use crate::procfs;
use crate::props::common::Ver;
use assets_manager::source::FileSystem;
use assets_manager::AssetCache;
use proptest::prelude::*;
use serde::{Deserialize, Serialize};
use serde_json::Value;
use std::collections::BTreeSet;
use std::time::{Duration, Instant};

#[derive(Debug, Clone, Copy, Serialize, Deserialize, PartialEq, Eq)]
pub enum SrcKind {
    Mem,
    Fs,
    /// a custom source that owns an event-producing thread: the thread stops when `EventSender::send`
    /// reports `Disconnected`, and the source's destructor waits for it
    Feeder,
}

#[derive(Debug, Clone, Copy, Serialize, Deserialize, PartialEq, Eq)]
pub enum DropTiming {
    Idle,
    RightAfterHotReload,
    EventsQueued,
    RightAfterLoads,
}

#[derive(Debug, Clone, Serialize, Deserialize)]
pub struct CacheSpec {
    kind: SrcKind,
    loads: u8,
    events: u8,
    hot_reloads: u8,
    timing: DropTiming,
    /// the source lets go of its EventSender while the cache is alive (in-memory source only)
    drop_sender: bool,
    /// what happens in the directory after the drop (filesystem source): 0 nothing, 1 an asset file changes, 2 only a file that maps to no id
    after_drop: u8,
    /// feeder source only: that many extra threads flood the event channel from just before the drop on
    #[serde(default)]
    flooders: u8,
    /// in-memory source only: that many thousand assets are loaded, the cache is cleared and they are loaded
    /// again (every asset is registered twice) right before the drop
    #[serde(default)]
    bulk: u8,
    /// filesystem source only: the cache is created while the process can open exactly `fd_budget - 1` more file
    /// descriptors (0 = no limit): the watcher cannot be set up, or only partly
    #[serde(default)]
    fd_budget: u8,
}

#[derive(Debug, Clone, Serialize, Deserialize)]
pub struct Case {
    caches: Vec<CacheSpec>,
    /// first: a leaked ('static) cache in enhance_hot_reloading mode holds a compound whose reload fails after a
    /// successful load_owned; once that failure has happened the reloader is idle
    #[serde(default)]
    static_failing: bool,
    /// the same, but the compound's loader panics during the reload instead of returning an error
    #[serde(default)]
    static_panicking: bool,
}

/// Loads a manifest with `load_owned` (which tells the reloader about the manifest), then a part with `load`.
struct Bundle;
impl assets_manager::Compound for Bundle {
    fn load(cache: assets_manager::AnyCache, _id: &assets_manager::SharedString) -> Result<Self, assets_manager::BoxedError> {
        let _manifest = cache.load_owned::<Ver>("manifest")?;
        let _part = cache.load::<Ver>("part")?;
        Ok(Bundle)
    }
}

/// Like `Bundle`, but its loader panics when the manifest is not at its first version (that is, in every reload).
struct PanickyBundle;
impl assets_manager::Compound for PanickyBundle {
    fn load(cache: assets_manager::AnyCache, _id: &assets_manager::SharedString) -> Result<Self, assets_manager::BoxedError> {
        let manifest = cache.load_owned::<Ver>("manifest")?;
        let _part = cache.load::<Ver>("part")?;
        if manifest.0 != 1 {
            panic!("C15: this loader panics on the second version of its manifest");
        }
        Ok(PanickyBundle)
    }
}

/// A compound of a 'static cache whose reload fails (its part is gone) after it loaded the manifest with
/// load_owned: the failure is not a change; once it has happened nothing runs until the next notification.
fn static_cache_with_failing_reload(out: &mut Outcome, panics: bool) {
    let before = reloader_tids();
    let src = MemSource::new(true);
    src.tree().put("manifest", "v", b"1".to_vec(), Variant::Buffer);
    src.tree().put("part", "v", b"1".to_vec(), Variant::Buffer);
    let cache: &'static AssetCache<MemSource> = Box::leak(Box::new(AssetCache::with_source(src.handle())));
    let loaded = if panics { cache.load::<PanickyBundle>("b").is_ok() } else { cache.load::<Bundle>("b").is_ok() };
    if !loaded {
        out.fail("harness", "the bundle did not load");
        return;
    }
    cache.enhance_hot_reloading();
    // (the thread names itself when it starts running: wait for that)
    let t = Instant::now();
    let mut tid = None;
    while tid.is_none() && t.elapsed() < Duration::from_secs(2) {
        tid = reloader_tids().difference(&before).next().copied();
        if tid.is_none() {
            std::thread::sleep(Duration::from_millis(1));
        }
    }
    let Some(tid) = tid else {
        out.label("static:no-tid");
        return;
    };
    src.tree().remove("part", "v");
    src.tree().put("manifest", "v", b"2".to_vec(), Variant::Buffer);
    src.send(&OwnedEntry::File("manifest".into(), "v".into()));
    src.send(&OwnedEntry::File("part".into(), "v".into()));
    // let the failing reload happen
    std::thread::sleep(Duration::from_millis(300));
    let Some((a, _)) = ticks_of(tid) else {
        out.label("static:no-ticks");
        return;
    };
    let reads_a = src.take_log().len();
    std::thread::sleep(Duration::from_millis(400));
    let reads_b = src.take_log().len();
    if let Some((b, state)) = ticks_of(tid) {
        if b - a > 2 || reads_b > 8 {
            out.fail(
                "busy-while-idle",
                format!("a 'static cache (enhance_hot_reloading) holds a compound whose reload {} (it loads a manifest with load_owned, then a part that is gone): in a 400 ms window in which nothing changed its reloader thread used {} CPU ticks (10 ms each) and read the source {reads_b} times (state {state}; {reads_a} reads during the 300 ms before)", if panics { "panicked" } else { "failed" }, b - a),
            );
            return;
        }
    }
    // and hot-reloading still works: the part comes back
    src.tree().put("part", "v", b"3".to_vec(), Variant::Buffer);
    src.send(&OwnedEntry::File("part".into(), "v".into()));
    out.label(if panics { "static-cache-with-panicking-compound" } else { "static-cache-with-failing-compound" });
}

/// Runs `f` while the process can open exactly `free` more file descriptors: new descriptors get the lowest unused
/// number, which must be below the soft limit, so the limit is put right above the `free`-th unused number.
fn with_fd_budget<R>(free: u64, f: impl FnOnce() -> R) -> R {
    unsafe {
        let mut old = libc::rlimit { rlim_cur: 0, rlim_max: 0 };
        if libc::getrlimit(libc::RLIMIT_NOFILE, &mut old) != 0 {
            return f();
        }
        let mut n: u64 = 0;
        let mut left = free;
        loop {
            let open = libc::fcntl(n as libc::c_int, libc::F_GETFD) != -1;
            if !open {
                if left == 0 {
                    break;
                }
                left -= 1;
            }
            n += 1;
        }
        let tight = libc::rlimit { rlim_cur: n.min(old.rlim_cur as u64) as libc::rlim_t, rlim_max: old.rlim_max };
        if libc::setrlimit(libc::RLIMIT_NOFILE, &tight) != 0 {
            return f();
        }
        struct Restore(libc::rlimit);
        impl Drop for Restore {
            fn drop(&mut self) {
                unsafe {
                    libc::setrlimit(libc::RLIMIT_NOFILE, &self.0);
                }
            }
        }
        let _restore = Restore(old);
        f()
    }
}

fn all_tids() -> BTreeSet<u32> {
    procfs::self_threads().into_iter().map(|t| t.tid).collect()
}

/// How many times the thread went to sleep of its own accord (a thread that sleeps for good keeps its count).
fn wakeups_of(tid: u32) -> Option<(u64, String)> {
    let s = std::fs::read_to_string(format!("/proc/self/task/{tid}/status")).ok()?;
    let mut name = String::new();
    let mut n = None;
    for l in s.lines() {
        if let Some(v) = l.strip_prefix("Name:") {
            name = v.trim().to_string();
        }
        if let Some(v) = l.strip_prefix("voluntary_ctxt_switches:") {
            n = v.trim().parse().ok();
        }
    }
    n.map(|n| (n, name))
}

enum Live {
    Mem(AssetCache<MemSource>, MemSource),
    Fs(AssetCache<FileSystem>, std::path::PathBuf),
    Feeder(AssetCache<FeederSource>, std::sync::Arc<FeederStats>),
}

#[derive(Default)]
pub struct FeederStats {
    sends: std::sync::atomic::AtomicU64,
    stopped: std::sync::atomic::AtomicBool,
    /// the flooding threads start when this is set
    flood: std::sync::atomic::AtomicBool,
    flooders: std::sync::atomic::AtomicU64,
}
const FLOOD_CAP: u64 = 8_000_000;

pub struct FeederSource {
    inner: MemSource,
    stats: std::sync::Arc<FeederStats>,
    feeder: std::sync::Mutex<Vec<std::thread::JoinHandle<()>>>,
}

impl assets_manager::source::Source for FeederSource {
    fn read(&self, id: &str, ext: &str) -> std::io::Result<assets_manager::source::FileContent<'_>> {
        self.inner.read(id, ext)
    }
    fn read_dir(&self, id: &str, f: &mut dyn FnMut(assets_manager::source::DirEntry)) -> std::io::Result<()> {
        self.inner.read_dir(id, f)
    }
    fn exists(&self, entry: assets_manager::source::DirEntry) -> bool {
        self.inner.exists(entry)
    }
    fn make_source(&self) -> Option<Box<dyn assets_manager::source::Source + Send>> {
        self.inner.make_source()
    }
    fn configure_hot_reloading(&self, events: assets_manager::hot_reloading::EventSender) -> Result<(), assets_manager::BoxedError> {
        use std::sync::atomic::Ordering::SeqCst;
        let mut hs = Vec::new();
        let stats = self.stats.clone();
        let ev = events.clone();
        hs.push(std::thread::Builder::new().name("vcheck_feeder".into()).spawn(move || {
            // an entry nobody depends on: the reloader wakes up, finds nothing to do
            let noise = assets_manager::source::OwnedDirEntry::File("unrelated".into(), "zz".into());
            while ev.send(noise.clone()).is_ok() {
                stats.sends.fetch_add(1, SeqCst);
                std::thread::sleep(Duration::from_millis(1));
            }
            stats.stopped.store(true, SeqCst);
        })?);
        for _ in 0..self.stats.flooders.load(SeqCst) {
            let stats = self.stats.clone();
            let ev = events.clone();
            hs.push(std::thread::Builder::new().name("vcheck_flooder".into()).spawn(move || {
                let noise = assets_manager::source::OwnedDirEntry::File("unrelated".into(), "zz".into());
                while !stats.flood.load(SeqCst) && !stats.stopped.load(SeqCst) {
                    std::thread::sleep(Duration::from_millis(1));
                }
                // back to back, until the reloader is gone (or a cap that keeps memory bounded)
                while stats.sends.load(SeqCst) < FLOOD_CAP && ev.send(noise.clone()).is_ok() {
                    stats.sends.fetch_add(1, SeqCst);
                }
            })?);
        }
        *self.feeder.lock().unwrap() = hs;
        Ok(())
    }
}

impl Drop for FeederSource {
    fn drop(&mut self) {
        let hs = std::mem::take(&mut *self.feeder.lock().unwrap());
        for h in hs {
            let _ = h.join();
        }
    }
}

fn reloader_tids() -> BTreeSet<u32> {
    procfs::self_threads().into_iter().filter(|t| t.comm.starts_with("assets_hot_relo")).map(|t| t.tid).collect()
}

fn notify_threads() -> usize {
    procfs::self_threads().into_iter().filter(|t| t.comm.starts_with("notify-rs")).count()
}

fn ticks_of(tid: u32) -> Option<(u64, char)> {
    procfs::self_threads().into_iter().find(|t| t.tid == tid).map(|t| (t.ticks, t.state))
}

fn tmpdir(tag: &str) -> std::path::PathBuf {
    static N: std::sync::atomic::AtomicU64 = std::sync::atomic::AtomicU64::new(0);
    let base = std::env::var("TMPDIR").unwrap_or_else(|_| "/tmp".into());
    let p = std::path::PathBuf::from(base).join(format!("vcheck_c15_{}_{}_{tag}", std::process::id(), N.fetch_add(1, std::sync::atomic::Ordering::SeqCst)));
    let _ = std::fs::remove_dir_all(&p);
    std::fs::create_dir_all(&p).expect("create temp dir");
    p
}

pub struct C15;

impl Prop for C15 {
    fn id(&self) -> &'static str {
        "C15"
    }

    fn rule(&self) -> String {
        "cases = sequences over 1..4 caches with hot-reloading on an in-memory (custom) source, a custom source owning an event-producing thread (stopped by Disconnected from EventSender::send, joined by the source's destructor) or a real FileSystem source in a temp dir: create, load k assets (sometimes 10..24 thousand, cleared and loaded again, so that every one is registered twice), send events, call hot_reload, optionally let the source drop its EventSender, \
         then drop the cache while idle / right after hot_reload / with events still queued / right after loads; for filesystem caches optionally change files in the directory afterwards (an asset, or only a file that maps to no id). \
         in a third of the cases first a leaked ('static) cache in enhance_hot_reloading mode with a compound that loads a manifest with load_owned and then a part: the part disappears, the reload fails, and from then on the reloader is idle (in a quarter of the cases also the same with a loader that panics instead); a third of the filesystem caches are created while the process can open only 0..4 more file descriptors (soft RLIMIT_NOFILE put right above the k-th unused number for the duration of AssetCache::new), so that the watcher cannot be set up or only partly: a thread that appeared during that creation and, 2.5 s after the drop, still wakes up (voluntary context switches of /proc/self/task/<tid>/status grow in both observation windows) is a violation; Oracle from /proc/self/task (per-thread CPU ticks and states, never wall-clock latency): while the harness idles for 400 ms every live reloader thread accrues <= 2 ticks; during the 2 s after the drops each reloader thread of a dropped cache \
         has disappeared, or at least did not accrue >= 25 ticks while still running in the last 500 ms; after a change in a dropped filesystem cache's directory its watcher thread is gone too (thread count back to the baseline, polled for up to 10 s); dropping a cache on the feeder source finishes before the feeder got 3000 more events accepted (3 million when 2..4 extra threads flood the channel from just before the drop on). \
         non-trivial = a drop with events still queued or right after a hot_reload, or a source that dropped its sender, or a filesystem cache; distinct = different canonical JSON"
            .into()
    }

    fn assumptions(&self) -> Vec<String> {
        vec![
            "thread identity: the reloader of a cache is the assets_hot_reload thread that appeared while it was constructed".into(),
            "thresholds are in CPU ticks (10 ms each): an idle or exiting thread accrues 0-1 however loaded the machine is; a spinning one ~100 per second".into(),
            "if inotify is unavailable the filesystem part is skipped and counted".into(),
        ]
    }

    fn plan(&self, tier: Tier) -> Plan {
        let mut p = Plan::new(match tier {
            Tier::Quick => 48,
            Tier::Thorough => 600,
        });
        p.workers = 16;
        p.hang_detect = false;
        p.hard_cap_s = 300;
        p
    }

    fn strategy(&self, _tier: Tier) -> BoxedStrategy<Value> {
        let spec = (
            prop_oneof![3 => Just(SrcKind::Mem), 2 => Just(SrcKind::Fs), 2 => Just(SrcKind::Feeder)],
            0u8..4,
            0u8..6,
            0u8..4,
            prop_oneof![Just(DropTiming::Idle), Just(DropTiming::RightAfterHotReload), Just(DropTiming::EventsQueued), Just(DropTiming::RightAfterLoads)],
            prop::bool::weighted(0.3),
            0u8..3,
            prop_oneof![1 => Just(0u8), 1 => 2u8..5],
            prop_oneof![5 => Just(0u8), 1 => 10u8..25],
            prop_oneof![1 => Just(0u8), 1 => 1u8..6],
        )
            .prop_map(|(kind, loads, events, hot_reloads, timing, drop_sender, after_drop, flooders, bulk, fd_budget)| CacheSpec {
                kind,
                loads,
                events,
                hot_reloads,
                timing,
                drop_sender,
                after_drop: if kind == SrcKind::Fs && fd_budget > 0 { 0 } else { after_drop },
                flooders: if kind == SrcKind::Feeder { flooders } else { 0 },
                bulk: if kind == SrcKind::Mem { bulk } else { 0 },
                fd_budget: if kind == SrcKind::Fs { fd_budget } else { 0 },
            });
        (prop::collection::vec(spec, 1..4), prop::bool::weighted(0.3), prop::bool::weighted(0.25))
            .prop_map(|(caches, static_failing, static_panicking)| to_case(&Case { caches, static_failing, static_panicking }))
            .boxed()
    }

    fn run(&self, case: &Value) -> Outcome {
        let c: Case = from_case(case);
        let mut out = Outcome::new();
        if c.static_failing {
            static_cache_with_failing_reload(&mut out, false);
            if out.failed() {
                return out;
            }
        }
        if c.static_panicking {
            static_cache_with_failing_reload(&mut out, true);
            if out.failed() {
                return out;
            }
        }
        // threads that appeared while a cache was created under a file-descriptor budget
        let mut starved_threads: Vec<(u32, u8)> = Vec::new();
        let mut starved = false;
        let baseline_notify = notify_threads();
        let mut live: Vec<(Live, Option<u32>, &CacheSpec)> = Vec::new();
        // ---- create and use
        for spec in &c.caches {
            let before = reloader_tids();
            let l = match spec.kind {
                SrcKind::Mem => {
                    let src = MemSource::new(true);
                    for i in 0..4 {
                        src.tree().put(&format!("a{i}"), "v", b"1".to_vec(), Variant::Buffer);
                    }
                    Live::Mem(AssetCache::with_source(src.handle()), src)
                }
                SrcKind::Feeder => {
                    let src = MemSource::new(true);
                    for i in 0..4 {
                        src.tree().put(&format!("a{i}"), "v", b"1".to_vec(), Variant::Buffer);
                    }
                    let stats = std::sync::Arc::new(FeederStats::default());
                    stats.flooders.store(spec.flooders as u64, std::sync::atomic::Ordering::SeqCst);
                    Live::Feeder(AssetCache::with_source(FeederSource { inner: src, stats: stats.clone(), feeder: std::sync::Mutex::new(Vec::new()) }), stats)
                }
                SrcKind::Fs => {
                    let dir = tmpdir("fs");
                    for i in 0..4 {
                        std::fs::write(dir.join(format!("a{i}.v")), b"1").expect("write");
                    }
                    let made = if spec.fd_budget > 0 {
                        let tids = all_tids();
                        let made = with_fd_budget(spec.fd_budget as u64 - 1, || AssetCache::new(&dir));
                        starved_threads.extend(all_tids().difference(&tids).map(|t| (*t, spec.fd_budget)));
                        starved = true;
                        made
                    } else {
                        AssetCache::new(&dir)
                    };
                    match made {
                        Ok(cache) => Live::Fs(cache, dir),
                        Err(_) => continue,
                    }
                }
            };
            let mut tid = None;
            for _ in 0..200 {
                let now = reloader_tids();
                if let Some(t) = now.difference(&before).next() {
                    tid = Some(*t);
                    break;
                }
                std::thread::sleep(Duration::from_millis(1));
            }
            for i in 0..spec.loads.min(4) {
                match &l {
                    Live::Mem(cache, _) => drop(cache.load::<Ver>(&format!("a{i}"))),
                    Live::Fs(cache, _) => drop(cache.load::<Ver>(&format!("a{i}"))),
                    Live::Feeder(cache, _) => drop(cache.load::<Ver>(&format!("a{i}"))),
                }
            }
            let send_events = |n: u8| {
                for k in 0..n {
                    match &l {
                        Live::Mem(_, src) => {
                            let id = format!("a{}", k % 4);
                            src.tree().put(&id, "v", format!("{}", k as u32 + 2).into_bytes(), Variant::Buffer);
                            src.send(&OwnedEntry::File(id, "v".into()));
                        }
                        Live::Fs(_, dir) => {
                            let _ = std::fs::write(dir.join(format!("a{}.v", k % 4)), format!("{}", k as u32 + 2));
                        }
                        // the feeder sends on its own
                        Live::Feeder(..) => {}
                    }
                }
            };
            if spec.timing != DropTiming::RightAfterLoads {
                send_events(spec.events);
                for _ in 0..spec.hot_reloads {
                    match &l {
                        Live::Mem(cache, _) => cache.hot_reload(),
                        Live::Fs(cache, _) => cache.hot_reload(),
                        Live::Feeder(cache, _) => cache.hot_reload(),
                    }
                }
            }
            live.push((l, tid, spec));
        }
        // ---- idle: nobody burns CPU
        let idle_check = |live: &Vec<(Live, Option<u32>, &CacheSpec)>, out: &mut Outcome, what: &str| {
            let t0: Vec<Option<(u64, char)>> = live.iter().map(|(_, tid, _)| tid.and_then(ticks_of)).collect();
            std::thread::sleep(Duration::from_millis(400));
            for (i, (_, tid, spec)) in live.iter().enumerate() {
                if spec.kind == SrcKind::Feeder {
                    // its reloader is woken by the feeder's events all the time: not idle
                    continue;
                }
                if let (Some(tid), Some((a, _))) = (tid, t0[i]) {
                    if let Some((b, state)) = ticks_of(*tid) {
                        if b - a > 2 {
                            out.fail("busy-while-idle", format!("{what}: the reloader thread of cache #{i} ({:?}) used {} CPU ticks (10 ms each) during a 400 ms window in which nothing changed (state {state})", spec.kind, b - a));
                        }
                    }
                }
            }
        };
        idle_check(&live, &mut out, "while every cache is alive and idle");
        if out.failed() {
            return out;
        }
        let mut dropped_sender = false;
        for (l, _, spec) in &live {
            if let (Live::Mem(_, src), true) = (l, spec.drop_sender) {
                src.drop_sender();
                dropped_sender = true;
            }
        }
        if dropped_sender {
            idle_check(&live, &mut out, "after the source let go of its EventSender");
            if out.failed() {
                return out;
            }
        }
        // ---- drop
        let mut watched: Vec<(u32, SrcKind, u64)> = Vec::new();
        let mut fs_dirs: Vec<(std::path::PathBuf, u8)> = Vec::new();
        let mut tricky = false;
        let mut feeder_used = false;
        let mut flooded = false;
        for (mut l, tid, spec) in live {
            if spec.bulk > 0 {
                if let Live::Mem(cache, src) = &mut l {
                    let n = spec.bulk as u32 * 1000;
                    {
                        let mut t = src.tree();
                        for i in 0..n {
                            t.put(&format!("bulk{i}"), "v", b"1".to_vec(), Variant::Buffer);
                        }
                    }
                    for round in 0..2 {
                        for i in 0..n {
                            drop(cache.load::<Ver>(&format!("bulk{i}")));
                        }
                        if round == 0 {
                            cache.clear();
                        }
                    }
                }
            }
            match spec.timing {
                DropTiming::EventsQueued => {
                    tricky = true;
                    match &l {
                        Live::Mem(_, src) => {
                            for k in 0..5u32 {
                                src.send(&OwnedEntry::File(format!("a{}", k % 4), "v".into()));
                            }
                        }
                        Live::Fs(_, dir) => {
                            for k in 0..5u32 {
                                let _ = std::fs::write(dir.join(format!("a{}.v", k % 4)), b"9");
                            }
                        }
                        Live::Feeder(..) => {}
                    }
                }
                DropTiming::RightAfterHotReload => {
                    tricky = true;
                    match &l {
                        Live::Mem(cache, _) => cache.hot_reload(),
                        Live::Fs(cache, _) => cache.hot_reload(),
                        Live::Feeder(cache, _) => cache.hot_reload(),
                    }
                }
                _ => {}
            }
            if let Some(tid) = tid {
                watched.push((tid, spec.kind, ticks_of(tid).map_or(0, |t| t.0)));
            }
            match l {
                Live::Mem(cache, src) => {
                    drop(cache);
                    drop(src);
                }
                Live::Fs(cache, dir) => {
                    drop(cache);
                    fs_dirs.push((dir, spec.after_drop));
                }
                Live::Feeder(cache, stats) => {
                    // the drop runs on a helper thread; progress is counted in events the feeder still gets
                    // accepted, not in time: once the cache is being dropped its reloader must stop first, so
                    // that the feeder sees Disconnected and the source's destructor can return
                    use std::sync::atomic::Ordering::SeqCst;
                    feeder_used = true;
                    let limit: u64 = if spec.flooders > 0 { 3_000_000 } else { 3000 };
                    if spec.flooders > 0 {
                        // the event queue is non-empty and growing when the cache goes away
                        let s0 = stats.sends.load(SeqCst);
                        stats.flood.store(true, SeqCst);
                        while stats.sends.load(SeqCst) < s0 + 20_000 {
                            std::hint::spin_loop();
                        }
                        flooded = true;
                    }
                    let at_drop = stats.sends.load(SeqCst);
                    let done = std::sync::Arc::new(std::sync::atomic::AtomicBool::new(false));
                    let d2 = done.clone();
                    let helper = std::thread::spawn(move || {
                        drop(cache);
                        d2.store(true, SeqCst);
                    });
                    while !done.load(SeqCst) && stats.sends.load(SeqCst) - at_drop < limit {
                        std::thread::sleep(Duration::from_millis(2));
                    }
                    if !done.load(SeqCst) {
                        out.fail(
                            "drop-blocked",
                            format!(
                                "dropping a cache whose source owns an event-producing thread (stopped by Disconnected, joined by the source's destructor) does not finish: the reloader accepted {} more events after the drop began (feeder stopped: {})",
                                stats.sends.load(SeqCst) - at_drop,
                                stats.stopped.load(SeqCst)
                            ),
                        );
                        return out;
                    }
                    let _ = helper.join();
                }
            }
        }
        // ---- after the drop: the reloader stops
        let w0: Vec<Option<(u64, String)>> = starved_threads.iter().map(|(tid, _)| wakeups_of(*tid)).collect();
        std::thread::sleep(Duration::from_millis(1500));
        let mid: Vec<Option<(u64, char)>> = watched.iter().map(|(tid, _, _)| ticks_of(*tid)).collect();
        let w1: Vec<Option<(u64, String)>> = starved_threads.iter().map(|(tid, _)| wakeups_of(*tid)).collect();
        std::thread::sleep(Duration::from_millis(1000));
        for (i, (tid, budget)) in starved_threads.iter().enumerate() {
            if let (Some((a, _)), Some((b, _)), Some((e, name))) = (&w0[i], &w1[i], wakeups_of(*tid)) {
                if b - a >= 2 && e - b >= 1 {
                    out.fail(
                        "thread-runs-after-drop",
                        format!("a filesystem cache was created while the process could open only {} more file descriptor(s) and dropped later: 2.5 s after the drop a thread that appeared during its creation ({name:?}, tid {tid}) still exists and keeps waking up although nothing changes ({} times during the first 1.5 s, {} during the last second)", budget - 1, b - a, e - b),
                    );
                    return out;
                }
            }
        }
        for (i, (tid, kind, t0)) in watched.iter().enumerate() {
            if let (Some((m, _)), Some((e, state))) = (mid[i], ticks_of(*tid)) {
                if e - t0 >= 25 && e - m >= 5 {
                    out.fail("reloader-runs-after-drop", format!("2 s after its cache ({kind:?} source) was dropped, the reloader thread still exists (state {state}) and used {} CPU ticks since the drop, {} of them in the last 500 ms", e - t0, e - m));
                    return out;
                }
            }
        }
        // ---- filesystem watchers of dropped caches go away once something happens in their directory
        let mut fs_checked = false;
        for (dir, after) in &fs_dirs {
            match after {
                1 => {
                    let _ = std::fs::write(dir.join("a0.v"), b"77");
                    fs_checked = true;
                }
                2 => {
                    let _ = std::fs::write(dir.join(".a.x.swp"), b"tmp");
                    fs_checked = true;
                }
                _ => {}
            }
        }
        if fs_checked && fs_dirs.iter().all(|(_, a)| *a != 0) {
            let start = Instant::now();
            let mut n = notify_threads();
            while n > baseline_notify && start.elapsed() < Duration::from_secs(10) {
                std::thread::sleep(Duration::from_millis(50));
                // keep poking: every event gives a lingering watcher the chance to notice its cache is gone
                for (dir, after) in &fs_dirs {
                    let _ = std::fs::write(dir.join(if *after == 1 { "a1.v" } else { ".b.y.swp" }), b"x");
                }
                n = notify_threads();
            }
            if n > baseline_notify {
                out.fail("watcher-lingers", format!("{} filesystem watcher thread(s) of dropped caches are still alive 10 s after files changed in their directories (baseline {baseline_notify}, now {n})", n - baseline_notify));
            }
        }
        for (dir, _) in &fs_dirs {
            let _ = std::fs::remove_dir_all(dir);
        }
        if tricky || dropped_sender || !fs_dirs.is_empty() {
            out.nontrivial = true;
        }
        if tricky {
            out.label("drop-with-queued-events / right-after-hot_reload");
        }
        if dropped_sender {
            out.label("source-dropped-sender");
        }
        if !fs_dirs.is_empty() {
            out.label("filesystem-cache");
        }
        if feeder_used {
            out.label("source-with-feeder-thread");
        }
        if flooded {
            out.label("drop-under-notification-flood");
        }
        if c.caches.iter().any(|s| s.bulk > 0) {
            out.label("thousands-of-assets-registered-twice");
        }
        if fs_checked {
            out.label("fs-change-after-drop");
        }
        if starved {
            out.label("fs-cache-created-under-a-descriptor-budget");
        }
        out
    }

    fn required_labels(&self) -> Vec<&'static str> {
        vec!["drop-with-queued-events / right-after-hot_reload", "source-dropped-sender", "filesystem-cache", "source-with-feeder-thread", "drop-under-notification-flood", "thousands-of-assets-registered-twice", "static-cache-with-failing-compound", "static-cache-with-panicking-compound", "fs-cache-created-under-a-descriptor-budget"]
    }
}
