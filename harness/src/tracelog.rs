//! Diagnostics only (VERIF_LOG=1): the crate's `log` output of the current case, kept in memory and
//! printed to stderr when the case fails.

use std::sync::Mutex;

static BUF: Mutex<Vec<String>> = Mutex::new(Vec::new());

struct MemLogger;
impl log::Log for MemLogger {
    fn enabled(&self, _: &log::Metadata) -> bool {
        true
    }
    fn log(&self, r: &log::Record) {
        let mut b = BUF.lock().unwrap_or_else(|e| e.into_inner());
        if b.len() < 200_000 {
            b.push(format!("[{}] {} {}", crate::procfs::gettid(), r.level(), r.args()));
        }
    }
    fn flush(&self) {}
}

pub fn install_if_requested() {
    // the logger is always there; it records only while the level is raised (VERIF_LOG=1: always; otherwise
    // only around cases that ask for it with `scoped_trace`)
    let _ = log::set_logger(&MemLogger);
    if std::env::var("VERIF_LOG").is_ok() {
        log::set_max_level(log::LevelFilter::Trace);
    }
}

/// Records the crate's log output while the returned guard lives (a few lines per reload: cheap).
pub struct TraceScope(log::LevelFilter);
pub fn scoped_trace() -> TraceScope {
    let prev = log::max_level();
    clear();
    log::set_max_level(log::LevelFilter::Trace);
    TraceScope(prev)
}
impl Drop for TraceScope {
    fn drop(&mut self) {
        log::set_max_level(self.0);
    }
}

/// The last `n` recorded lines, for a violation message.
pub fn tail(n: usize) -> String {
    let b = BUF.lock().unwrap_or_else(|e| e.into_inner());
    let k = b.len().saturating_sub(n);
    b[k..].join(" | ")
}

pub fn clear() {
    BUF.lock().unwrap_or_else(|e| e.into_inner()).clear();
}

pub fn note(s: String) {
    if log::max_level() != log::LevelFilter::Off {
        BUF.lock().unwrap_or_else(|e| e.into_inner()).push(format!("[{}] HARNESS {s}", crate::procfs::gettid()));
    }
}

pub fn dump() {
    let b = BUF.lock().unwrap_or_else(|e| e.into_inner());
    // collapse runs of identical lines, then print the tail
    let mut out: Vec<(String, usize)> = Vec::new();
    for l in b.iter() {
        match out.last_mut() {
            Some((prev, n)) if prev == l => *n += 1,
            _ => out.push((l.clone(), 1)),
        }
    }
    let n = out.len();
    for (l, k) in out.iter().skip(n.saturating_sub(400)) {
        if *k > 1 {
            eprintln!("{l}   (x{k})");
        } else {
            eprintln!("{l}");
        }
    }
}
