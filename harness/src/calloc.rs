//! Checking global allocator: verifies the layout given to `dealloc`, detects
//! double frees and writes after free (quarantine with poison), counts live
//! blocks allocated inside a harness scope.
//!
//! It never panics: errors are counted and described in a static buffer that
//! the properties read after each case.

use std::alloc::{GlobalAlloc, Layout, System};
use std::cell::Cell;
use std::sync::atomic::{AtomicBool, AtomicI64, AtomicU64, AtomicUsize, Ordering};

const MAGIC_LIVE: u64 = 0xA110_C8ED_51DE_CAFE;
const MAGIC_FREE: u64 = 0xF4EE_D0D0_DEAD_BEEF;
const HDR: usize = 32;
const POISON: u8 = 0xDD;
const QUARANTINE: usize = 256;
const QUARANTINE_MAX_BLOCK: usize = 1 << 16;

#[repr(C)]
struct Header {
    magic: u64,
    size: u64,
    align: u32,
    scope: u32,
    base_off: u64,
}

pub struct CheckAlloc;

pub static ENABLED: AtomicBool = AtomicBool::new(false);
pub static ERRORS: AtomicU64 = AtomicU64::new(0);
pub static LAYOUT_MISMATCH: AtomicU64 = AtomicU64::new(0);
pub static DOUBLE_FREE: AtomicU64 = AtomicU64::new(0);
pub static BAD_FREE: AtomicU64 = AtomicU64::new(0);
pub static WRITE_AFTER_FREE: AtomicU64 = AtomicU64::new(0);
pub static LIVE_BLOCKS: AtomicI64 = AtomicI64::new(0);
pub static LIVE_BYTES: AtomicI64 = AtomicI64::new(0);
/// blocks alive that were allocated inside the current scope generation
pub static SCOPED_LIVE: AtomicI64 = AtomicI64::new(0);
pub static SCOPED_LIVE_BYTES: AtomicI64 = AtomicI64::new(0);
static SCOPE_GEN: AtomicU64 = AtomicU64::new(1);

static LAST_ERR: [AtomicU64; 4] = [AtomicU64::new(0), AtomicU64::new(0), AtomicU64::new(0), AtomicU64::new(0)];

thread_local! {
    static IN_SCOPE: Cell<u32> = const { Cell::new(0) };
}

struct Quarantine {
    lock: AtomicBool,
    slots: [AtomicUsize; QUARANTINE],
    next: AtomicUsize,
}

static Q: Quarantine = Quarantine {
    lock: AtomicBool::new(false),
    slots: [const { AtomicUsize::new(0) }; QUARANTINE],
    next: AtomicUsize::new(0),
};

fn pad_for(align: usize) -> usize {
    if align > HDR {
        align
    } else {
        HDR
    }
}

unsafe fn header_of(user: *mut u8) -> *mut Header {
    user.sub(HDR) as *mut Header
}

fn record(kind: &AtomicU64, a: u64, b: u64, c: u64, d: u64) {
    kind.fetch_add(1, Ordering::Relaxed);
    if ERRORS.fetch_add(1, Ordering::Relaxed) == 0 {
        LAST_ERR[0].store(a, Ordering::Relaxed);
        LAST_ERR[1].store(b, Ordering::Relaxed);
        LAST_ERR[2].store(c, Ordering::Relaxed);
        LAST_ERR[3].store(d, Ordering::Relaxed);
    }
}

unsafe fn really_free(user: *mut u8) {
    let h = header_of(user);
    let size = (*h).size as usize;
    let align = (*h).align as usize;
    // verify poison is intact
    let mut bad = false;
    for i in 0..size {
        if *user.add(i) != POISON {
            bad = true;
            break;
        }
    }
    if bad {
        record(&WRITE_AFTER_FREE, user as u64, size as u64, 0, 0);
    }
    let pad = pad_for(align);
    let base = user.sub(pad);
    let real = Layout::from_size_align_unchecked(size + pad, align.max(16));
    System.dealloc(base, real);
}

// ---------------------------------------------------------------------------
// Packed mode: while a thread has it switched on, its requests of at most 32 bytes are served from an arena of
// 32-byte slots without in-band headers (most recently freed slot first), as size-class allocators (jemalloc,
// mimalloc, slabs) do: two blocks can then be direct neighbours, which never happens with the padded blocks
// above or with glibc. The layout checks are the same, from a side table.

const SLOT: usize = 32;
const SLOTS: usize = 4096;

#[repr(C, align(64))]
struct Arena(std::cell::UnsafeCell<[u8; SLOT * SLOTS]>);
unsafe impl Sync for Arena {}
static ARENA: Arena = Arena(std::cell::UnsafeCell::new([0; SLOT * SLOTS]));
/// per slot: 0 = never used, otherwise (size << 8 | align.trailing_zeros() << 1 | live)
static SLOT_META: [AtomicU64; SLOTS] = [const { AtomicU64::new(0) }; SLOTS];
static ARENA_LOCK: AtomicBool = AtomicBool::new(false);
static mut FREE_STACK: [u16; SLOTS] = [0; SLOTS];
static FREE_TOP: AtomicUsize = AtomicUsize::new(0);
static BUMP: AtomicUsize = AtomicUsize::new(0);
pub static PACKED_LIVE: AtomicI64 = AtomicI64::new(0);

thread_local! {
    static PACKED: Cell<bool> = const { Cell::new(false) };
}

/// Runs `f` with this thread's small allocations served from the packed arena.
pub fn packed<T>(f: impl FnOnce() -> T) -> T {
    struct Reset(bool);
    impl Drop for Reset {
        fn drop(&mut self) {
            PACKED.with(|s| s.set(self.0));
        }
    }
    let prev = PACKED.with(|s| s.replace(true));
    let _r = Reset(prev);
    f()
}

pub fn packed_live() -> i64 {
    PACKED_LIVE.load(Ordering::Relaxed)
}

fn arena_base() -> usize {
    ARENA.0.get() as usize
}

fn arena_lock() {
    while ARENA_LOCK.compare_exchange_weak(false, true, Ordering::Acquire, Ordering::Relaxed).is_err() {
        std::hint::spin_loop();
    }
}

unsafe fn packed_alloc(layout: Layout) -> *mut u8 {
    arena_lock();
    let top = FREE_TOP.load(Ordering::Relaxed);
    let slot = if top > 0 {
        FREE_TOP.store(top - 1, Ordering::Relaxed);
        (*std::ptr::addr_of!(FREE_STACK))[top - 1] as usize
    } else {
        let b = BUMP.load(Ordering::Relaxed);
        if b >= SLOTS {
            ARENA_LOCK.store(false, Ordering::Release);
            return std::ptr::null_mut();
        }
        BUMP.store(b + 1, Ordering::Relaxed);
        b
    };
    SLOT_META[slot].store((layout.size() as u64) << 8 | (layout.align().trailing_zeros() as u64) << 1 | 1, Ordering::Relaxed);
    ARENA_LOCK.store(false, Ordering::Release);
    PACKED_LIVE.fetch_add(1, Ordering::Relaxed);
    (arena_base() + slot * SLOT) as *mut u8
}

unsafe fn packed_dealloc(user: *mut u8, layout: Layout) {
    let off = user as usize - arena_base();
    let slot = off / SLOT;
    let meta = SLOT_META[slot].load(Ordering::Relaxed);
    if off % SLOT != 0 || meta == 0 {
        record(&BAD_FREE, user as u64, layout.size() as u64, layout.align() as u64, meta);
        return;
    }
    if meta & 1 == 0 {
        record(&DOUBLE_FREE, user as u64, layout.size() as u64, layout.align() as u64, 0);
        return;
    }
    let (size, align) = ((meta >> 8) as usize, 1usize << ((meta >> 1) & 0x7f));
    if size != layout.size() || align != layout.align() {
        record(&LAYOUT_MISMATCH, size as u64, align as u64, layout.size() as u64, layout.align() as u64);
    }
    std::ptr::write_bytes(user, POISON, SLOT);
    arena_lock();
    SLOT_META[slot].store(meta & !1, Ordering::Relaxed);
    let top = FREE_TOP.load(Ordering::Relaxed);
    (*std::ptr::addr_of_mut!(FREE_STACK))[top] = slot as u16;
    FREE_TOP.store(top + 1, Ordering::Relaxed);
    ARENA_LOCK.store(false, Ordering::Release);
    PACKED_LIVE.fetch_sub(1, Ordering::Relaxed);
}

unsafe impl GlobalAlloc for CheckAlloc {
    unsafe fn alloc(&self, layout: Layout) -> *mut u8 {
        if layout.size() <= SLOT && layout.size() > 0 && layout.align() <= SLOT && PACKED.try_with(|p| p.get()).unwrap_or(false) {
            let p = packed_alloc(layout);
            if !p.is_null() {
                return p;
            }
        }
        let pad = pad_for(layout.align());
        let real = match Layout::from_size_align(layout.size() + pad, layout.align().max(16)) {
            Ok(l) => l,
            Err(_) => return std::ptr::null_mut(),
        };
        let base = System.alloc(real);
        if base.is_null() {
            return base;
        }
        let user = base.add(pad);
        let scope = IN_SCOPE.try_with(|s| s.get()).unwrap_or(0);
        let h = header_of(user);
        (*h).magic = MAGIC_LIVE;
        (*h).size = layout.size() as u64;
        (*h).align = layout.align() as u32;
        (*h).scope = scope;
        (*h).base_off = pad as u64;
        LIVE_BLOCKS.fetch_add(1, Ordering::Relaxed);
        LIVE_BYTES.fetch_add(layout.size() as i64, Ordering::Relaxed);
        if scope != 0 {
            SCOPED_LIVE.fetch_add(1, Ordering::Relaxed);
            SCOPED_LIVE_BYTES.fetch_add(layout.size() as i64, Ordering::Relaxed);
        }
        user
    }

    unsafe fn dealloc(&self, user: *mut u8, layout: Layout) {
        if (user as usize).wrapping_sub(arena_base()) < SLOT * SLOTS {
            return packed_dealloc(user, layout);
        }
        let h = header_of(user);
        let magic = (*h).magic;
        if magic == MAGIC_FREE {
            record(&DOUBLE_FREE, user as u64, layout.size() as u64, layout.align() as u64, 0);
            return;
        }
        if magic != MAGIC_LIVE {
            record(&BAD_FREE, user as u64, layout.size() as u64, layout.align() as u64, magic);
            return;
        }
        let size = (*h).size as usize;
        let align = (*h).align as usize;
        if size != layout.size() || align != layout.align() {
            record(&LAYOUT_MISMATCH, size as u64, align as u64, layout.size() as u64, layout.align() as u64);
            // fall through using the layout the block was really allocated with
        }
        LIVE_BLOCKS.fetch_sub(1, Ordering::Relaxed);
        LIVE_BYTES.fetch_sub(size as i64, Ordering::Relaxed);
        if (*h).scope != 0 && (*h).scope == (SCOPE_GEN.load(Ordering::Relaxed) as u32) {
            SCOPED_LIVE.fetch_sub(1, Ordering::Relaxed);
            SCOPED_LIVE_BYTES.fetch_sub(size as i64, Ordering::Relaxed);
        }
        (*h).magic = MAGIC_FREE;
        if !ENABLED.load(Ordering::Relaxed) || size > QUARANTINE_MAX_BLOCK {
            // no quarantine: free at once
            std::ptr::write_bytes(user, POISON, size.min(64));
            let pad = pad_for(align);
            let real = Layout::from_size_align_unchecked(size + pad, align.max(16));
            (*h).magic = 0;
            System.dealloc(user.sub(pad), real);
            return;
        }
        std::ptr::write_bytes(user, POISON, size);
        // quarantine
        while Q.lock.compare_exchange_weak(false, true, Ordering::Acquire, Ordering::Relaxed).is_err() {
            std::hint::spin_loop();
        }
        let i = Q.next.load(Ordering::Relaxed);
        let old = Q.slots[i].swap(user as usize, Ordering::Relaxed);
        Q.next.store((i + 1) % QUARANTINE, Ordering::Relaxed);
        Q.lock.store(false, Ordering::Release);
        if old != 0 {
            let old = old as *mut u8;
            let hh = header_of(old);
            really_free(old);
            let _ = hh;
        }
    }
}

/// Starts a new accounting scope generation (call at the top of a case).
pub fn new_scope_generation() {
    SCOPE_GEN.fetch_add(1, Ordering::Relaxed);
    SCOPED_LIVE.store(0, Ordering::Relaxed);
    SCOPED_LIVE_BYTES.store(0, Ordering::Relaxed);
}

/// Runs `f` with allocations of this thread tagged as belonging to the
/// current scope generation.
pub fn scoped<T>(f: impl FnOnce() -> T) -> T {
    struct Reset(u32);
    impl Drop for Reset {
        fn drop(&mut self) {
            IN_SCOPE.with(|s| s.set(self.0));
        }
    }
    let gen = SCOPE_GEN.load(Ordering::Relaxed) as u32;
    let prev = IN_SCOPE.with(|s| s.replace(gen));
    let _r = Reset(prev);
    f()
}

pub fn scoped_live() -> (i64, i64) {
    (SCOPED_LIVE.load(Ordering::Relaxed), SCOPED_LIVE_BYTES.load(Ordering::Relaxed))
}

pub fn enable() {
    ENABLED.store(true, Ordering::Relaxed);
}

pub fn error_count() -> u64 {
    ERRORS.load(Ordering::Relaxed)
}

pub fn reset_errors() {
    ERRORS.store(0, Ordering::Relaxed);
    LAYOUT_MISMATCH.store(0, Ordering::Relaxed);
    DOUBLE_FREE.store(0, Ordering::Relaxed);
    BAD_FREE.store(0, Ordering::Relaxed);
    WRITE_AFTER_FREE.store(0, Ordering::Relaxed);
}

pub fn describe_errors() -> String {
    format!(
        "allocator errors: layout_mismatch={} double_free={} bad_free={} write_after_free={} (first: {:#x} {:#x} {:#x} {:#x})",
        LAYOUT_MISMATCH.load(Ordering::Relaxed),
        DOUBLE_FREE.load(Ordering::Relaxed),
        BAD_FREE.load(Ordering::Relaxed),
        WRITE_AFTER_FREE.load(Ordering::Relaxed),
        LAST_ERR[0].load(Ordering::Relaxed),
        LAST_ERR[1].load(Ordering::Relaxed),
        LAST_ERR[2].load(Ordering::Relaxed),
        LAST_ERR[3].load(Ordering::Relaxed),
    )
}

/// Is the checking allocator the global allocator of this binary?
pub static INSTALLED: AtomicBool = AtomicBool::new(false);

pub fn installed() -> bool {
    INSTALLED.load(Ordering::Relaxed)
}
