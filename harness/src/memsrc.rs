//! In-memory `Source` with hot-reloading support, a read log and a fault plan.

use assets_manager::hot_reloading::EventSender;
use assets_manager::source::{DirEntry, FileContent, OwnedDirEntry, Source};
use assets_manager::BoxedError;
use std::collections::{BTreeMap, BTreeSet, HashSet};
use std::io;
use std::sync::atomic::{AtomicU32, Ordering};
use std::sync::{Arc, Mutex};

#[derive(Clone, Copy, Debug, PartialEq, Eq, serde::Serialize, serde::Deserialize)]
pub enum Variant {
    Slice,
    Buffer,
    Owned,
}

#[derive(Clone, Debug)]
pub struct Content {
    pub bytes: Arc<Vec<u8>>,
    pub variant: Variant,
}

#[derive(Default, Debug, Clone)]
pub struct Tree {
    pub files: BTreeMap<(String, String), Content>,
    /// explicit directories (the root "" always exists)
    pub dirs: BTreeSet<String>,
}

pub fn parent_of(id: &str) -> Option<&str> {
    if id.is_empty() {
        None
    } else {
        Some(match id.rfind('.') {
            Some(n) => &id[..n],
            None => "",
        })
    }
}

impl Tree {
    pub fn dir_exists(&self, id: &str) -> bool {
        id.is_empty() || self.dirs.contains(id)
    }

    /// Creates `id` and all its ancestors.
    pub fn mkdirs(&mut self, id: &str) {
        let mut cur = id;
        while !cur.is_empty() {
            self.dirs.insert(cur.to_string());
            cur = parent_of(cur).unwrap();
        }
    }

    pub fn put(&mut self, id: &str, ext: &str, bytes: Vec<u8>, variant: Variant) {
        if let Some(p) = parent_of(id) {
            self.mkdirs(p);
        }
        self.files.insert(
            (id.to_string(), ext.to_string()),
            Content {
                bytes: Arc::new(bytes),
                variant,
            },
        );
    }

    pub fn remove(&mut self, id: &str, ext: &str) -> bool {
        self.files.remove(&(id.to_string(), ext.to_string())).is_some()
    }

    pub fn list(&self, id: &str) -> Option<Vec<OwnedEntry>> {
        if !self.dir_exists(id) {
            return None;
        }
        let mut out = Vec::new();
        for (fid, ext) in self.files.keys() {
            if parent_of(fid) == Some(id) {
                out.push(OwnedEntry::File(fid.clone(), ext.clone()));
            }
        }
        for d in &self.dirs {
            if parent_of(d) == Some(id) {
                out.push(OwnedEntry::Dir(d.clone()));
            }
        }
        Some(out)
    }
}

#[derive(Clone, Debug, PartialEq, Eq, PartialOrd, Ord, Hash, serde::Serialize, serde::Deserialize)]
pub enum OwnedEntry {
    File(String, String),
    Dir(String),
}

impl OwnedEntry {
    pub fn to_event(&self) -> OwnedDirEntry {
        match self {
            OwnedEntry::File(id, ext) => OwnedDirEntry::File(id.as_str().into(), ext.as_str().into()),
            OwnedEntry::Dir(id) => OwnedDirEntry::Directory(id.as_str().into()),
        }
    }
}

#[derive(Clone, Debug)]
pub struct ReadEvent {
    pub tid: u32,
    pub entry: OwnedEntry,
    pub ok: bool,
    pub seq: u64,
}

#[derive(Default, Debug)]
pub struct FaultPlan {
    /// fail the read (file read or read_dir) whose running index equals `.0`
    pub fail_at: Option<(u64, io::ErrorKind)>,
    /// running index of reads since the plan was armed
    pub counter: u64,
    pub counting: bool,
    /// directories (and everything below) that cannot be read
    pub unreadable_dirs: BTreeSet<String>,
    /// files that fail with a given kind
    pub unreadable_files: BTreeMap<(String, String), io::ErrorKind>,
    /// model evaluation only: this entry is unreadable at its n-th consultation (a single transient fault on an
    /// entry that one load reads several times); `.2` counts the consultations
    pub model_unreadable_nth: Option<((String, String), u32, u32)>,
}

pub struct Shared {
    pub tree: Mutex<Tree>,
    pub log: Mutex<Vec<ReadEvent>>,
    pub faults: Mutex<FaultPlan>,
    pub seq: std::sync::atomic::AtomicU64,
    pub tag: u32,
}

type Observer = dyn Fn(u32, &OwnedEntry) + Send + Sync;

static OBSERVER: Mutex<Option<Arc<Observer>>> = Mutex::new(None);

/// Installs the global observer called on every source read with (tag, entry).
pub fn set_observer(f: Option<Arc<Observer>>) {
    *OBSERVER.lock().unwrap_or_else(|e| e.into_inner()) = f;
}

static NEXT_TAG: AtomicU32 = AtomicU32::new(1);

pub struct MemSource {
    pub shared: Arc<Shared>,
    /// only the view owned by the harness/cache holds the sender slot
    sender: Option<Arc<Mutex<Option<EventSender>>>>,
    hot: bool,
    /// `configure_hot_reloading` keeps the sender it is given but reports an error
    fail_configure: bool,
}

fn lock<T>(m: &Mutex<T>) -> std::sync::MutexGuard<'_, T> {
    m.lock().unwrap_or_else(|e| e.into_inner())
}

static INTERNED: Mutex<Option<HashSet<&'static [u8]>>> = Mutex::new(None);

fn intern(bytes: &[u8]) -> &'static [u8] {
    let mut g = lock(&INTERNED);
    let set = g.get_or_insert_with(HashSet::new);
    if let Some(s) = set.get(bytes) {
        return s;
    }
    let leaked: &'static [u8] = Box::leak(bytes.to_vec().into_boxed_slice());
    set.insert(leaked);
    leaked
}

struct ArcBytes(Arc<Vec<u8>>);
impl AsRef<[u8]> for ArcBytes {
    fn as_ref(&self) -> &[u8] {
        &self.0
    }
}

impl MemSource {
    pub fn new(hot: bool) -> MemSource {
        MemSource {
            shared: Arc::new(Shared {
                tree: Mutex::new(Tree::default()),
                log: Mutex::new(Vec::new()),
                faults: Mutex::new(FaultPlan::default()),
                seq: std::sync::atomic::AtomicU64::new(0),
                tag: NEXT_TAG.fetch_add(1, Ordering::Relaxed),
            }),
            sender: Some(Arc::new(Mutex::new(None))),
            hot,
            fail_configure: false,
        }
    }

    /// A source that offers hot-reloading (`make_source` is `Some`) but fails to configure it, after
    /// having stored the `EventSender` (a backend step that fails late): the cache has no reloader.
    pub fn new_failing_configure() -> MemSource {
        let mut s = MemSource::new(true);
        s.fail_configure = true;
        s
    }

    pub fn tag(&self) -> u32 {
        self.shared.tag
    }

    /// A second handle on the same tree for the harness (keeps the sender slot).
    pub fn handle(&self) -> MemSource {
        MemSource {
            shared: self.shared.clone(),
            sender: self.sender.clone(),
            hot: self.hot,
            fail_configure: self.fail_configure,
        }
    }

    pub fn tree(&self) -> std::sync::MutexGuard<'_, Tree> {
        lock(&self.shared.tree)
    }

    pub fn faults(&self) -> std::sync::MutexGuard<'_, FaultPlan> {
        lock(&self.shared.faults)
    }

    pub fn take_log(&self) -> Vec<ReadEvent> {
        std::mem::take(&mut *lock(&self.shared.log))
    }

    pub fn sender(&self) -> Option<EventSender> {
        self.sender.as_ref().and_then(|s| lock(s).clone())
    }

    /// Drops the event sender held for the harness (the event channel then
    /// disconnects once the harness' own clones are gone).
    pub fn drop_sender(&self) {
        if let Some(s) = &self.sender {
            *lock(s) = None;
        }
    }

    pub fn send(&self, e: &OwnedEntry) -> bool {
        match self.sender() {
            Some(s) => s.send(e.to_event()).is_ok(),
            None => false,
        }
    }

    pub fn send_multiple(&self, es: &[OwnedEntry]) -> bool {
        match self.sender() {
            Some(s) => s.send_multiple(es.iter().map(|e| e.to_event()).collect::<Vec<_>>()).is_ok(),
            None => false,
        }
    }

    fn observe(&self, entry: &OwnedEntry) {
        let obs = lock(&OBSERVER).clone();
        if let Some(f) = obs {
            f(self.shared.tag, entry);
        }
    }

    fn log(&self, entry: OwnedEntry, ok: bool) {
        let seq = self.shared.seq.fetch_add(1, Ordering::SeqCst);
        lock(&self.shared.log).push(ReadEvent {
            tid: crate::procfs::gettid(),
            entry,
            ok,
            seq,
        });
    }

    /// Returns an injected error for this read, if any.
    fn fault(&self, entry: &OwnedEntry) -> Option<io::Error> {
        let mut f = lock(&self.shared.faults);
        let exempt = matches!(entry, OwnedEntry::File(id, _) if id == "zz_sentinel");
        if f.counting && !exempt {
            let k = f.counter;
            f.counter += 1;
            if let Some((at, kind)) = f.fail_at {
                if at == k {
                    return Some(io::Error::new(kind, "injected fault"));
                }
            }
        }
        match entry {
            OwnedEntry::File(id, ext) => {
                if let Some(kind) = f.unreadable_files.get(&(id.clone(), ext.clone())) {
                    return Some(io::Error::new(*kind, "unreadable file"));
                }
            }
            OwnedEntry::Dir(id) => {
                for d in &f.unreadable_dirs {
                    if id == d || (id.starts_with(d.as_str()) && id.as_bytes().get(d.len()) == Some(&b'.')) {
                        return Some(io::Error::new(io::ErrorKind::PermissionDenied, "unreadable directory"));
                    }
                }
            }
        }
        None
    }
}

impl Source for MemSource {
    fn read(&self, id: &str, ext: &str) -> io::Result<FileContent<'_>> {
        let entry = OwnedEntry::File(id.to_string(), ext.to_string());
        self.observe(&entry);
        if let Some(err) = self.fault(&entry) {
            self.log(entry, false);
            return Err(err);
        }
        let content = lock(&self.shared.tree).files.get(&(id.to_string(), ext.to_string())).cloned();
        match content {
            Some(c) => {
                self.log(entry, true);
                Ok(match c.variant {
                    Variant::Slice => FileContent::Slice(intern(&c.bytes)),
                    Variant::Buffer => FileContent::Buffer(c.bytes.to_vec()),
                    Variant::Owned => FileContent::from_owned(ArcBytes(c.bytes.clone())),
                })
            }
            None => {
                self.log(entry, false);
                Err(io::Error::new(io::ErrorKind::NotFound, format!("no file {id:?}.{ext:?}")))
            }
        }
    }

    fn read_dir(&self, id: &str, f: &mut dyn FnMut(DirEntry)) -> io::Result<()> {
        let entry = OwnedEntry::Dir(id.to_string());
        self.observe(&entry);
        if let Some(err) = self.fault(&entry) {
            self.log(entry, false);
            return Err(err);
        }
        let list = lock(&self.shared.tree).list(id);
        match list {
            Some(list) => {
                self.log(entry, true);
                for e in &list {
                    match e {
                        OwnedEntry::File(i, x) => f(DirEntry::File(i, x)),
                        OwnedEntry::Dir(i) => f(DirEntry::Directory(i)),
                    }
                }
                Ok(())
            }
            None => {
                self.log(entry, false);
                Err(io::Error::new(io::ErrorKind::NotFound, format!("no directory {id:?}")))
            }
        }
    }

    fn exists(&self, entry: DirEntry) -> bool {
        let t = lock(&self.shared.tree);
        match entry {
            DirEntry::File(id, ext) => t.files.contains_key(&(id.to_string(), ext.to_string())),
            DirEntry::Directory(id) => t.dir_exists(id),
        }
    }

    fn make_source(&self) -> Option<Box<dyn Source + Send>> {
        if !self.hot {
            return None;
        }
        Some(Box::new(MemSource {
            shared: self.shared.clone(),
            sender: None,
            hot: false,
            fail_configure: false,
        }))
    }

    fn configure_hot_reloading(&self, events: EventSender) -> Result<(), BoxedError> {
        match &self.sender {
            Some(s) => {
                *lock(s) = Some(events);
                if self.fail_configure {
                    return Err("the watcher backend could not be started".into());
                }
                Ok(())
            }
            None => Err("no sender slot".into()),
        }
    }
}
