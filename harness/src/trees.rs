//! Generated directory trees and their materialisation as a directory on disk,
//! a zip archive, a tar archive and the embedded form.

use proptest::prelude::*;
use serde::{Deserialize, Serialize};
use std::collections::{BTreeMap, BTreeSet};
use std::io::Write;
use std::path::{Path, PathBuf};

pub const NAMES: [&str; 11] = ["a", "b", "c", "data", "x", "é", "日本語", "my file", "Zz-9_", "long_name_aaaaaaaaaaaaaaaaaaaaaaaaaaaaaaaaaaaaaaaaaaaaaaaaaaaaaaaaaaaa", "back\\slash"];
/// the last two differ from earlier ones only by ASCII case (extensions are matched exactly)
pub const EXTS: [&str; 7] = ["", "txt", "x", "bin", "la", "TXT", "X"];

#[derive(Debug, Clone, Serialize, Deserialize)]
pub enum Leaf {
    File { ext: u8, content: Vec<u8> },
    EmptyDir,
}

#[derive(Debug, Clone, Serialize, Deserialize)]
pub struct EntrySpec {
    /// names of the directories from the root, then the entry's own name (indices into NAMES)
    pub path: Vec<u8>,
    pub leaf: Leaf,
}

#[derive(Debug, Clone, Serialize, Deserialize)]
pub struct TreeSpec {
    pub entries: Vec<EntrySpec>,
}

#[derive(Debug, Clone, Default)]
pub struct Model {
    /// directory ids (the root is "")
    pub dirs: BTreeSet<String>,
    /// directories that only exist as such (no file or directory inside)
    pub empty_dirs: BTreeSet<String>,
    pub files: BTreeMap<(String, String), Vec<u8>>,
}

pub fn id_of(components: &[&str]) -> String {
    components.join(".")
}

pub fn parent_of(id: &str) -> Option<&str> {
    crate::memsrc::parent_of(id)
}

/// Relative path of an id (names never contain '.').
pub fn rel_path(id: &str, ext: Option<&str>) -> PathBuf {
    let mut p = PathBuf::new();
    if !id.is_empty() {
        for c in id.split('.') {
            p.push(c);
        }
    }
    if let Some(ext) = ext {
        if !ext.is_empty() {
            let name = format!("{}.{}", p.file_name().unwrap().to_str().unwrap(), ext);
            p.set_file_name(name);
        }
    }
    p
}

impl Model {
    pub fn from_spec(spec: &TreeSpec) -> Model {
        let mut m = Model::default();
        m.dirs.insert(String::new());
        for e in &spec.entries {
            if e.path.is_empty() {
                continue;
            }
            let comps: Vec<&str> = e.path.iter().map(|i| NAMES[*i as usize % NAMES.len()]).collect();
            let (own, parents) = comps.split_last().unwrap();
            // a file without extension cannot sit where a directory of that name is (and vice versa)
            let mut blocked = false;
            for k in 1..=parents.len() {
                let pid = id_of(&parents[..k]);
                if m.files.contains_key(&(pid, String::new())) {
                    blocked = true;
                }
            }
            if blocked {
                continue;
            }
            let id = id_of(&comps);
            match &e.leaf {
                Leaf::File { ext, content } => {
                    let ext = EXTS[*ext as usize % EXTS.len()];
                    if ext.is_empty() && m.dirs.contains(&id) {
                        continue;
                    }
                    for k in 1..=parents.len() {
                        m.dirs.insert(id_of(&parents[..k]));
                    }
                    m.files.insert((id, ext.to_string()), content.clone());
                }
                Leaf::EmptyDir => {
                    if m.files.contains_key(&(id.clone(), String::new())) {
                        continue;
                    }
                    for k in 1..=parents.len() {
                        m.dirs.insert(id_of(&parents[..k]));
                    }
                    m.dirs.insert(id);
                }
            }
            let _ = own;
        }
        m.empty_dirs = m.dirs.iter().filter(|d| !d.is_empty() && !m.dirs.iter().any(|x| parent_of(x) == Some(d.as_str())) && !m.files.keys().any(|(f, _)| parent_of(f) == Some(d.as_str()))).cloned().collect();
        m
    }

    /// Direct children of a directory: (is_dir, id, ext)
    pub fn children(&self, dir: &str) -> Vec<(bool, String, String)> {
        let mut v = Vec::new();
        for d in &self.dirs {
            if !d.is_empty() && parent_of(d) == Some(dir) {
                v.push((true, d.clone(), String::new()));
            }
        }
        for (id, ext) in self.files.keys() {
            if parent_of(id) == Some(dir) {
                v.push((false, id.clone(), ext.clone()));
            }
        }
        v.sort();
        v
    }

    pub fn max_depth(&self) -> usize {
        self.dirs.iter().map(|d| if d.is_empty() { 0 } else { d.split('.').count() }).max().unwrap_or(0)
    }

    pub fn write_disk(&self, root: &Path) -> std::io::Result<()> {
        for d in &self.dirs {
            std::fs::create_dir_all(root.join(rel_path(d, None)))?;
        }
        for ((id, ext), bytes) in &self.files {
            std::fs::write(root.join(rel_path(id, Some(ext))), bytes)?;
        }
        Ok(())
    }
}

#[derive(Debug, Clone, Copy, Serialize, Deserialize, PartialEq, Eq)]
pub enum DirMembers {
    All,
    None,
    Subset(u16),
}

#[derive(Debug, Clone, Serialize, Deserialize)]
pub struct ArchOpts {
    pub order: u16,
    pub dir_members: DirMembers,
    pub dot_prefix: bool,
    pub deflate_mask: u16,
    pub file_backed: bool,
    /// Some(k): the k-th file also has an older member with other content earlier in the archive
    /// (appending is the normal way to edit an archive; the last member of a path is the stored one)
    #[serde(default)]
    pub stale_duplicate: Option<u16>,
    /// Some(k): afterwards one byte of the data of one stored zip member is flipped in a copy of the archive
    /// (bit rot): reading that member must fail, never return bytes the tree does not hold
    #[serde(default)]
    pub damage: Option<u16>,
    /// file members whose bit (member index mod 16) is set are spelled `zz/../<path>` (archivers keep such
    /// names; both archive sources resolve `..` while indexing)
    #[serde(default)]
    pub dotdot_mask: u16,
    /// Some(k): one directory also holds an entry that has no id - in the archives a member `backup.tar.x` (two
    /// dots), on disk a file whose name (or only whose extension) is not UTF-8. Such entries are not part of the tree: no source lists them,
    /// and nothing else changes.
    #[serde(default)]
    pub junk: Option<u16>,
}

#[derive(Debug, Clone)]
pub enum Member {
    Dir(String),
    File(String, String),
    /// an outdated copy of a file that appears again later
    StaleFile(String, String),
    /// a member without an id (`<dir>/backup.tar.x`)
    Junk(String),
}

/// The archive members in the generated order: which directories get a member of their own,
/// directories before / after their content as the permutation says.
pub fn members(m: &Model, o: &ArchOpts) -> Vec<Member> {
    let mut v: Vec<Member> = Vec::new();
    for (k, d) in m.dirs.iter().filter(|d| !d.is_empty()).enumerate() {
        let explicit = m.empty_dirs.contains(d)
            || match o.dir_members {
                DirMembers::All => true,
                DirMembers::None => false,
                DirMembers::Subset(mask) => (mask >> (k % 16)) & 1 == 1,
            };
        if explicit {
            v.push(Member::Dir(d.clone()));
        }
    }
    for (id, ext) in m.files.keys() {
        v.push(Member::File(id.clone(), ext.clone()));
    }
    if o.order != 0 {
        let mut key = o.order as u64;
        for i in (1..v.len()).rev() {
            key = key.wrapping_mul(6364136223846793005).wrapping_add(1442695040888963407);
            let j = (key >> 33) as usize % (i + 1);
            v.swap(i, j);
        }
    }
    if let Some(k) = o.stale_duplicate {
        let files: Vec<usize> = v.iter().enumerate().filter(|(_, m)| matches!(m, Member::File(..))).map(|(i, _)| i).collect();
        if !files.is_empty() {
            let at = files[k as usize % files.len()];
            if let Member::File(id, ext) = v[at].clone() {
                // somewhere before the real member
                let pos = (k as usize / 7) % (at + 1);
                v.insert(pos, Member::StaleFile(id, ext));
            }
        }
    }
    if let Some(k) = o.junk {
        let dirs: Vec<&String> = m.dirs.iter().collect();
        if !dirs.is_empty() {
            let d = dirs[k as usize % dirs.len()].clone();
            let pos = (k as usize / 5) % (v.len() + 1);
            v.insert(pos, Member::Junk(d));
        }
    }
    v
}

/// The junk entry of `o` on disk: a file with a non UTF-8 name in one directory of the tree.
pub fn write_junk_on_disk(m: &Model, o: &ArchOpts, root: &Path) {
    use std::os::unix::ffi::OsStrExt;
    if let Some(k) = o.junk {
        let dirs: Vec<&String> = m.dirs.iter().collect();
        if !dirs.is_empty() {
            let d = dirs[k as usize % dirs.len()];
            let _ = std::fs::write(root.join(rel_path(d, None)).join(std::ffi::OsStr::from_bytes(b"bad\xFFname.x")), b"junk");
            // and one whose stem is fine but whose extension is not UTF-8 (it is not the extension-less file `blob`)
            if k % 2 == 1 {
                let _ = std::fs::write(root.join(rel_path(d, None)).join(std::ffi::OsStr::from_bytes(b"blob.\xFF\xFE")), b"junk");
            }
        }
    }
}

fn junk_member_name(d: &str, o: &ArchOpts) -> String {
    let mut s = if d.is_empty() { String::new() } else { format!("{}/", rel_path(d, None).to_str().unwrap()) };
    s.push_str("backup.tar.x");
    if o.dot_prefix {
        format!("./{s}")
    } else {
        s
    }
}

fn file_member_name(id: &str, ext: &str, o: &ArchOpts, k: usize) -> String {
    let plain = member_name(id, Some(ext), false, false);
    let s = if (o.dotdot_mask >> (k % 16)) & 1 == 1 { format!("zz/../{plain}") } else { plain };
    if o.dot_prefix {
        format!("./{s}")
    } else {
        s
    }
}

fn member_name(id: &str, ext: Option<&str>, dot: bool, dir: bool) -> String {
    let mut s = rel_path(id, ext).to_str().unwrap().to_string();
    if dot {
        s = format!("./{s}");
    }
    if dir {
        s.push('/');
    }
    s
}

pub fn make_zip(m: &Model, o: &ArchOpts) -> Vec<u8> {
    let mut w = zip::ZipWriter::new(std::io::Cursor::new(Vec::new()));
    for (k, mem) in members(m, o).iter().enumerate() {
        match mem {
            Member::Dir(d) => {
                w.add_directory(member_name(d, None, o.dot_prefix, false), zip::write::FileOptions::default()).expect("zip dir");
            }
            Member::Junk(d) => {
                w.start_file(junk_member_name(d, o), zip::write::FileOptions::default().compression_method(zip::CompressionMethod::Stored)).expect("zip file");
                w.write_all(b"junk").expect("zip write");
            }
            Member::File(id, ext) | Member::StaleFile(id, ext) => {
                let method = if (o.deflate_mask >> (k % 16)) & 1 == 1 { zip::CompressionMethod::Deflated } else { zip::CompressionMethod::Stored };
                w.start_file(file_member_name(id, ext, o, k), zip::write::FileOptions::default().compression_method(method)).expect("zip file");
                if matches!(mem, Member::StaleFile(..)) {
                    w.write_all(b"outdated content of an earlier member").expect("zip write");
                } else {
                    w.write_all(&m.files[&(id.clone(), ext.clone())]).expect("zip write");
                }
            }
        }
    }
    w.finish().expect("zip finish").into_inner()
}

/// Flips one byte inside the data of one member that is stored verbatim exactly once in the archive.
/// Returns the damaged copy and the member, or None if no member qualifies.
pub fn damage_zip(m: &Model, _o: &ArchOpts, zbytes: &[u8], k: u16) -> Option<(Vec<u8>, (String, String))> {
    let find_all = |needle: &[u8]| -> Vec<usize> { zbytes.windows(needle.len()).enumerate().filter(|(_, w)| *w == needle).map(|(i, _)| i).collect() };
    let cands: Vec<(&(String, String), usize)> = m
        .files
        .iter()
        .filter(|(_, b)| b.len() >= 8 && b.len() <= 4096)
        .filter_map(|(key, b)| {
            let at = find_all(b);
            // the data of a stored member directly follows its name in the local header
            // (members spelled through `zz/../` end with the plain name too)
            let name = member_name(&key.0, Some(&key.1), false, false);
            (at.len() == 1 && at[0] >= name.len() && &zbytes[at[0] - name.len()..at[0]] == name.as_bytes()).then(|| (key, at[0] + b.len() / 2))
        })
        .collect();
    if cands.is_empty() {
        return None;
    }
    let (key, pos) = cands[k as usize % cands.len()];
    let mut copy = zbytes.to_vec();
    copy[pos] ^= 0x20;
    Some((copy, key.clone()))
}

pub fn make_tar(m: &Model, o: &ArchOpts) -> Vec<u8> {
    let mut b = tar::Builder::new(Vec::new());
    for (k, mem) in members(m, o).into_iter().enumerate() {
        let (name, data, is_dir): (String, Vec<u8>, bool) = match &mem {
            Member::Dir(d) => (member_name(d, None, o.dot_prefix, true), Vec::new(), true),
            Member::File(id, ext) => (file_member_name(id, ext, o, k), m.files[&(id.clone(), ext.clone())].clone(), false),
            Member::StaleFile(id, ext) => (file_member_name(id, ext, o, k), b"outdated content of an earlier member".to_vec(), false),
            Member::Junk(d) => (junk_member_name(d, o), b"junk".to_vec(), false),
        };
        // long names go through the builder (GNU long-name members), which refuses `..`: spell those plainly
        let name = if name.len() > 99 && name.contains("zz/../") { name.replacen("zz/../", "", 1) } else { name };
        let mut h = tar::Header::new_gnu();
        h.set_size(data.len() as u64);
        h.set_mode(if is_dir { 0o755 } else { 0o644 });
        h.set_entry_type(if is_dir { tar::EntryType::Directory } else { tar::EntryType::Regular });
        if (o.dot_prefix || name.contains("/../")) && name.len() <= 99 {
            // the builder normalises "./" away: write the name field by hand
            {
                let old = h.as_old_mut();
                old.name = [0; 100];
                old.name[..name.len()].copy_from_slice(name.as_bytes());
            }
            h.set_cksum();
            b.append(&h, &data[..]).expect("tar append");
        } else {
            let n = name.trim_start_matches("./").to_string();
            b.append_data(&mut h, n, &data[..]).expect("tar append_data");
        }
    }
    b.into_inner().expect("tar finish")
}

// ---------------------------------------------------------------------------
// embedded: the macro's own logic, run at run time on a directory

#[allow(dead_code)]
#[path = "/repo/macros/src/embedded.rs"]
mod embedded_macro;

/// Owned storage of what `embed!` would have produced for a directory.
pub struct EmbeddedOwned {
    pub files: Vec<((String, String), Vec<u8>)>,
    /// (dir id, entries (is_dir, id, ext))
    pub dirs: Vec<(String, Vec<(bool, String, String)>)>,
}

/// The same table written by hand in another order (RawEmbedded is a public struct; nothing says its lists are
/// sorted the way the macro writes them).
pub fn reorder_embedded(t: &mut EmbeddedOwned, order: u16) {
    let o = order as usize;
    if o % 2 == 1 {
        t.files.reverse();
        t.dirs.reverse();
    }
    if !t.files.is_empty() {
        let n = t.files.len();
        t.files.rotate_left((o / 2) % n);
    }
    if !t.dirs.is_empty() {
        let n = t.dirs.len();
        t.dirs.rotate_left((o / 2) % n);
    }
    for (_, entries) in t.dirs.iter_mut() {
        if !entries.is_empty() {
            let n = entries.len();
            entries.rotate_left((o / 3) % n);
        }
    }
}

fn lit_str(e: &syn::Expr) -> Option<String> {
    match e {
        syn::Expr::Lit(l) => match &l.lit {
            syn::Lit::Str(s) => Some(s.value()),
            _ => None,
        },
        syn::Expr::Paren(p) => lit_str(&p.expr),
        syn::Expr::Group(g) => lit_str(&g.expr),
        _ => None,
    }
}

fn array_of(e: &syn::Expr) -> Option<Vec<syn::Expr>> {
    match e {
        syn::Expr::Reference(r) => array_of(&r.expr),
        syn::Expr::Array(a) => Some(a.elems.iter().cloned().collect()),
        syn::Expr::Paren(p) => array_of(&p.expr),
        syn::Expr::Group(g) => array_of(&g.expr),
        _ => None,
    }
}

fn tuple_of(e: &syn::Expr) -> Option<Vec<syn::Expr>> {
    match e {
        syn::Expr::Tuple(t) => Some(t.elems.iter().cloned().collect()),
        syn::Expr::Paren(p) => tuple_of(&p.expr),
        syn::Expr::Group(g) => tuple_of(&g.expr),
        _ => None,
    }
}

/// Finds the path given to `include_bytes!` in `(include_bytes!(path) as &[u8])`.
fn include_path(e: &syn::Expr) -> Option<String> {
    match e {
        syn::Expr::Paren(p) => include_path(&p.expr),
        syn::Expr::Group(g) => include_path(&g.expr),
        syn::Expr::Cast(c) => include_path(&c.expr),
        syn::Expr::Macro(m) => {
            if m.mac.path.is_ident("include_bytes") {
                let s: syn::LitStr = syn::parse2(m.mac.tokens.clone()).ok()?;
                Some(s.value())
            } else {
                None
            }
        }
        _ => None,
    }
}

/// Runs the `embed!` macro's expansion logic on `dir` and evaluates the produced expression.
pub fn expand_embedded(dir: &Path) -> Result<EmbeddedOwned, String> {
    let lit = format!("{:?}", dir.to_str().ok_or("non utf-8 path")?);
    let input: embedded_macro::Input = syn::parse_str(&lit).map_err(|e| format!("macro input: {e}"))?;
    let tokens = input.expand_dir().map_err(|e| format!("macro errors: {}", e.iter().map(|x| x.to_string()).collect::<Vec<_>>().join("; ")))?;
    let expr: syn::ExprStruct = syn::parse2(tokens).map_err(|e| format!("macro output is not a struct expression: {e}"))?;
    let mut out = EmbeddedOwned { files: Vec::new(), dirs: Vec::new() };
    for f in &expr.fields {
        let name = match &f.member {
            syn::Member::Named(i) => i.to_string(),
            _ => continue,
        };
        let elems = array_of(&f.expr).ok_or("field is not a reference to an array")?;
        if name == "files" {
            for el in elems {
                let t = tuple_of(&el).ok_or("file entry is not a tuple")?;
                let key = tuple_of(&t[0]).ok_or("file key is not a tuple")?;
                let id = lit_str(&key[0]).ok_or("file id")?;
                let ext = lit_str(&key[1]).ok_or("file ext")?;
                let path = include_path(&t[1]).ok_or("include_bytes path")?;
                let bytes = std::fs::read(&path).map_err(|e| format!("include_bytes!({path:?}): {e}"))?;
                out.files.push(((id, ext), bytes));
            }
        } else if name == "dirs" {
            for el in elems {
                let t = tuple_of(&el).ok_or("dir entry is not a tuple")?;
                let id = lit_str(&t[0]).ok_or("dir id")?;
                let mut entries = Vec::new();
                for en in array_of(&t[1]).ok_or("dir content is not an array")? {
                    if let syn::Expr::Call(c) = &en {
                        let func = match &*c.func {
                            syn::Expr::Path(p) => p.path.segments.last().map(|s| s.ident.to_string()).unwrap_or_default(),
                            _ => String::new(),
                        };
                        let args: Vec<String> = c.args.iter().filter_map(lit_str).collect();
                        match func.as_str() {
                            "File" => entries.push((false, args[0].clone(), args[1].clone())),
                            "Directory" => entries.push((true, args[0].clone(), String::new())),
                            other => return Err(format!("unexpected dir entry constructor {other}")),
                        }
                    } else {
                        return Err("dir entry is not a call".into());
                    }
                }
                out.dirs.push((id, entries));
            }
        }
    }
    Ok(out)
}

// ---------------------------------------------------------------------------
// generators

pub fn content_strategy() -> impl Strategy<Value = Vec<u8>> {
    prop_oneof![
        2 => Just(Vec::new()),
        6 => prop::collection::vec(any::<u8>(), 1..40),
        1 => (any::<u8>(), 20_000usize..100_000).prop_map(|(b, n)| (0..n).map(|i| b.wrapping_mul(31).wrapping_add((i * 7 % 253) as u8)).collect()),
    ]
}

pub fn tree_strategy(max_entries: usize) -> impl Strategy<Value = TreeSpec> {
    let name = prop_oneof![8 => 0u8..5, 3 => 5u8..9, 1 => Just(9u8), 1 => Just(10u8)];
    let leaf = prop_oneof![8 => (0u8..EXTS.len() as u8, content_strategy()).prop_map(|(ext, content)| Leaf::File { ext, content }), 1 => Just(Leaf::EmptyDir)];
    let entry = (prop::collection::vec(name, 1..5), leaf).prop_map(|(path, leaf)| EntrySpec { path, leaf });
    // some files get siblings with the same stem and another extension
    (prop::collection::vec(entry, 0..max_entries), prop::collection::vec((any::<u8>(), prop_oneof![2 => Just(2u8), 2 => Just(3u8), 1 => Just(5u8)]), 0..6)).prop_map(|(mut entries, dups)| {
        for (i, ext) in dups {
            if entries.is_empty() {
                break;
            }
            let k = i as usize % entries.len();
            // the pair (txt, x), (txt, bin) or (txt, TXT) under one stem
            if let Leaf::File { ext: x, .. } = &mut entries[k].leaf {
                *x = 1;
            }
            let mut e = entries[k].clone();
            if let Leaf::File { ext: x, content } = &mut e.leaf {
                *x = ext;
                content.push(b'#');
                entries.push(e);
            }
        }
        TreeSpec { entries }
    })
}

pub fn arch_opts_strategy() -> impl Strategy<Value = ArchOpts> {
    (
        prop_oneof![1 => Just(0u16), 3 => any::<u16>()],
        prop_oneof![2 => Just(DirMembers::All), 2 => Just(DirMembers::None), 2 => any::<u16>().prop_map(DirMembers::Subset)],
        any::<bool>(),
        any::<u16>(),
        prop::bool::weighted(0.3),
        prop_oneof![3 => Just(None), 1 => any::<u16>().prop_map(Some)],
        prop_oneof![2 => Just(None), 1 => any::<u16>().prop_map(Some)],
        (prop_oneof![3 => Just(0u16), 1 => any::<u16>()], prop_oneof![3 => Just(None), 1 => any::<u16>().prop_map(Some)]),
    )
        .prop_map(|(order, dir_members, dot_prefix, deflate_mask, file_backed, stale_duplicate, damage, (dotdot_mask, junk))| ArchOpts { order, dir_members, dot_prefix, deflate_mask, file_backed, stale_duplicate, damage, dotdot_mask, junk })
}

pub fn tmpdir(tag: &str) -> PathBuf {
    static N: std::sync::atomic::AtomicU64 = std::sync::atomic::AtomicU64::new(0);
    let base = std::env::var("TMPDIR").unwrap_or_else(|_| "/tmp".into());
    let p = PathBuf::from(base).join(format!("vcheck_{}_{}_{tag}", std::process::id(), N.fetch_add(1, std::sync::atomic::Ordering::SeqCst)));
    let _ = std::fs::remove_dir_all(&p);
    std::fs::create_dir_all(&p).expect("create temp dir");
    p
}
